SPEC = {
    "title": "Remote address lists are deduplicated and deterministically ordered",
    "design_ref": "DESIGN.md section 4, C37",
    "technique": "Coq proof (strict total order, sorted/duplicate-free/exact-set, uniqueness over every enumeration order and every sorting procedure, "
                 "history invariant) over a hand-written model of RemoteList tied by differential correspondence evaluated in Coq (T3) and the generated cap constant (T1)",
    "level_text": "Machine-checked Coq theorems: the order used by unlockedSort is a strict total order on (family, address, port) for every preferred-range list "
                  "(irreflexive, transitive, trichotomous; classes preferred < IPv6 < public IPv4 < private IPv4, then address, then port); for every enumeration order of the "
                  "owner map and of the resolver results, and for every sorting procedure, the rebuilt list is sorted, duplicate free and has exactly the elements "
                  "(learned + reported + admitted resolved) - blocked, hence is unique; re-sorting after a preferred-range change equals a fresh rebuild; relays are the sorted "
                  "duplicate-free union of the reported relays; lifted to all operation histories by the invariant 'dirty or cached list = current sources'. "
                  "The model is tied to remote_list.go by a differential correspondence on random operation histories.",
    "level_note": "netip zones are not modelled. The in-place dedup loop is modelled functionally (keep an element iff it differs from the last kept one). "
                  "Case kind stale_unblock (unblock / handshake completion on a clean list, then read) guards the repaired defect F19.",
    "gens": ["gen_remotelist"],
    "build_comp": "remotelist",
    "props": ["props/C37.v"],
    "corr": ["corr/RemoteList_corr.v"],
    "comps": [{"comp": "remotelist", "n_quick": 200, "n_thorough": 4000}],
    "trusted": ["model/RemoteList.v is a hand-written mirror of remote_list.go (tied by correspondence on operation histories through the real RemoteList)",
                "netip.Prefix.Contains, Addr.Compare, Addr.IsPrivate, Addr.Unmap are modelled (pfx_contains, addr_compare, is_private4, unmap_addr) and exercised through the correspondence",
                "gen/Consts_RemoteList.v: MaxRemotes evaluated by the Go compiler from the working tree"],
    "assumptions": ["sort.Slice returns a permutation of its input in which no later element is less than an earlier one (the theorem holds for every such arrangement)",
                    "Go map iteration enumerates every key exactly once in some order (the theorem holds for every order)"],
}

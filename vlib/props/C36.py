SPEC = {
    "title": "Unusable underlay addresses are never used",
    "design_ref": "DESIGN.md section 4, C36",
    "technique": "Coq proof (admission invariant over all histories of source updates on every RemoteList a lighthouse creates; caps; block exclusion; "
                 "static hosts keep their configuration) over a hand-written model of the admission paths tied by differential correspondence evaluated in Coq (T3) "
                 "and the generated cap constant (T1)",
    "level_text": "Machine-checked Coq theorems over all operation histories (query replies, host updates, punch notifications, calculated remotes, tunnel closes, roaming, "
                  "wrong-host blocks, handshake completions, keepalive punches, reads) under any fixed configuration: every address CopyAddrs of any list can return - hence every "
                  "handshake/punch/data destination drawn from it - designates a host outside the node's own overlay networks, allowed by the global remote allow list and by the inside "
                  "allow list of an overlay address of that peer, and is not blocked; punch-notification targets pass the same filter; each owner contributes at most MaxRemotes = 10 "
                  "(generated from the code, pinned) reported v4, reported v6 and relay entries; static hosts stay registered with their configured addresses through any sequence of "
                  "tunnel closes, lighthouse answers, roaming, blocks and punches, and every admitted configured address is returned unless blocked. The model is tied to "
                  "lighthouse.go / allow_list.go / outside.go / punchy.go / remote_list.go by a differential correspondence on real LightHouse histories. "
                  "System level (component sysmon_C36): in seeded event histories of four real nodes built by nebula.Main (a peer advertising a denied and an in-overlay underlay address, roaming sources, wrong responders) no handshake, punch or encrypted datagram is written to an address inside the node's own overlay networks, denied by its remote_allow_list, or marked bad after a wrong responder answered there.",
    "level_note": "C36_static_kept excludes handshake completion (RefreshFromHandshake re-evaluates the resolver-result filter for the new vpn addresses) and calculated remotes "
                  "(both are neither tunnel closes nor lighthouse answers). bart LPM tables are modelled by a longest-prefix search over distinct prefixes. Handshake destinations are "
                  "read as RemoteList.ForEach (= CopyAddrs, checked in the C37 harness); the handshake write loop itself is not driven. Operator overrides (ssh change-remote, "
                  "Control.SetRemoteForTunnel) are out of scope. Case kinds `punch` (F8) and `static_mapped` (F20) guard repaired defects.",
    "gens": ["gen_remotelist"],
    "build_comp": "remotes_admit",
    "props": ["props/C36.v"],
    "corr": ["corr/RemotesAdmit_corr.v"],
    "comps": [{"comp": "remotes_admit", "n_quick": 140, "n_thorough": 2000}, {"comp": "sysmon_C36", "e2e": True, "n_quick": 12, "n_thorough": 150}],
    "trusted": ["model/RemotesAdmit.v + model/RemoteList.v are hand-written mirrors of the admission paths (tied by correspondence through a real LightHouse, Punchy, readOutsidePackets, handleHostRoaming)",
                "the shim counts Punchy.Schedule calls through the scheduler's sync.Pool New hook and waits for that many datagrams on a recording udp.Conn",
                "StartHandshake's static-host guard before addCalculatedRemotes is replicated in the shim (two lines of handshake_manager.go)",
                "gen/Consts_RemoteList.v: MaxRemotes evaluated by the Go compiler from the working tree"],
    "assumptions": ["roaming / handshake source addresses reach nebula Unmap()ed (udp/*.go do so on every platform)",
                    "a peer's certificate never carries the node's own overlay address (self handshakes are refused), so lighthouse senders and roaming peers are never the node itself (C36_static_kept)",
                    "bart.Table / bart.Lite implement longest-prefix match / containment",
                    "remote_allow_list / remote_allow_ranges keys are distinct after masking and not IPv4-mapped (C38 covers the allow-list parser)"],
}

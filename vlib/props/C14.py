def classify(case):
    """'recv-error-teardown' exactly for the known finding F12: a recv_error (type 2) whose index is a peer index of a
    tunnel, arriving where listen.accept_recv_error permits the source, from the tunnel's current remote or for a tunnel
    without direct remote, and the tunnel was closed."""
    c = case.get("case") if isinstance(case, dict) else None
    if not isinstance(c, dict):
        return None
    row = c.get("row") if isinstance(c.get("row"), dict) else c
    try:
        if (int(row.get("ty", -1)) == 2 and row.get("cfgA") is True and row.get("idx") is True
                and row.get("rm") in ("MMatch", "MInvalid") and "close" in (c.get("effects") or [])):
            return "recv-error-teardown"
    except (TypeError, ValueError):
        return None
    return None


SPEC = {
    "title": "Unauthenticated packets have no effect",
    "design_ref": "DESIGN.md section 4, C14",
    "technique": "Coq proof by reflection over a complete effect table of readOutsidePackets generated from the real code on every run "
                 "(T2: 9072 abstract datagram descriptions x >= 3 real datagrams each, injected into a real node built by nebula.Main), "
                 "lifted to all packet histories by induction; the table is tied to real traffic by a multi-node network of real nodes whose "
                 "datagrams are mutated, spliced, misdelivered and replayed, with the documented rule evaluated in Coq on what the "
                 "implementation did (T3)",
    "level_text": "Machine-checked Coq theorems. For ALL descriptions of an arriving datagram (header type 0..15, subtype 0/1/other, version "
                  "ok/not, direct / source inside my overlay networks / payload of a verified terminal relay packet, send_recv_error and "
                  "accept_recv_error permitting the source or not, index resolving or not, length >= header+tag or not, AEAD tag verifying "
                  "under the resolved tunnel's key or not, counter accepted by the replay window or not, relay record terminal / forwarding "
                  "established / forwarding not established, recv_error source equal to / different from the tunnel's remote / tunnel without "
                  "remote): every effect other than answering with a recv_error (delivery to the tun, closing a tunnel, roaming, liveness and "
                  "relay-used marks, replay-window advance, lighthouse handler, relay control, forwarding, test reply, unwrapping a relayed "
                  "payload) requires right version, resolving index, verifying tag and fresh counter - or type Handshake (C05-C10) or "
                  "RecvError; a tunnel is closed only by an authentic fresh CloseTunnel or by a recv_error in the F12 region; with "
                  "accept_recv_error not permitting the source the property holds as stated; the replay window moves only for authentic fresh "
                  "packets; a datagram shorter than a header does nothing; the table covers the whole feature space (totality proved). "
                  "C14_recv_error_refuted: in the DEFAULT configuration a 16-byte recv_error without any key closes the tunnel (finding F12), "
                  "and C14_recv_error_exact gives the exact region. For ALL histories of datagrams and any replay-window implementation "
                  "(induction): the receiver state - hence every digest of it - after a history equals the state after the sub-history of "
                  "the datagrams that acted, each of which was, for the state it met, authentic and fresh, a handshake packet, or in the F12 "
                  "region; a datagram that did not act leaves the state, windows included, unchanged. The table is regenerated on every run "
                  "from the real readOutsidePackets / handleOutsideRelayPacket / handleRecvError; rows whose concretisations disagree fail the run. "
                  "The component outsidebatch drives the real Interface.listenOut goroutine (its own listener and per-batch flusher closures, "
                  "its own rxContext and hostmap cache) with receive batches mixing authentic and forged packets: a tunnel's inbound-liveness "
                  "mark is set by a batch iff the batch held a packet that authenticated under that tunnel's key.",
    "level_note": "Trusted: Coq kernel; the generator, the overlay shim (drives the real entry points synchronously after stopping Main's "
                  "background goroutines), the state digest and the classification of digest differences into effects; that the listed "
                  "features are all the function reads is tested by >= 3 concretisations per row and by the network component, not proved. "
                  "Type Handshake is out of scope (the table's handshake rows describe the first message of a node the receiver holds no "
                  "tunnel for; forged first messages DO replace and evict tunnels - reported separately). AEAD unforgeability itself is not "
                  "modelled: 'auth' is the real cipher's verdict. The history theorem threads state through effect sets; the per-effect state "
                  "change is abstract (any digest function).",
    "gens_e2e": ["gen_outside"],
    "props": ["props/C14.v"],
    "corr": ["corr/Outside_corr.v"],
    "build_comp": "outside",
    "comps": [{"comp": "outside", "n_quick": 800, "n_thorough": 20000, "e2e": True},
              {"comp": "outsidenet", "n_quick": 0, "n_thorough": 0, "e2e": True},
              {"comp": "outsidebatch", "n_quick": 300, "n_thorough": 5000, "e2e": True}],
    "classify": classify,
    "trusted": ["gen/Tab_Outside.v is produced by injecting >= 3 real datagrams per abstract row into a real node (nebula.Main, e2e build) "
                "and reading the effects off the node's state digest and output (translator by exhaustive evaluation); soundness of the "
                "abstraction is sampled, not proved",
                "go/overlay/_root/verif_outside.go stops the goroutines Main starts and calls readOutsidePackets, consumeInsidePacket, "
                "handleOutbound, innerQueryServer, SendUpdate directly; it crafts authentic packets with the receiver's own receive key "
                "(the key the peer sends with)",
                "model/Outside.v read_nested (payload of a terminal relay packet is processed as a relayed packet) and the history state "
                "threading are hand-written; read_nested is tied by the network component"],
    "assumptions": ["the AEAD (AES-GCM / ChaCha20-Poly1305 from the Go standard library via noiseutil) accepts a tag only for the key, nonce, "
                    "associated data and ciphertext it was computed for (the table records the real cipher's verdict as the feature 'auth')",
                    "the receiver state observed by C14 is a function of the initial state and the sequence of datagrams that had an effect "
                    "(datagram processing is sequential per tunnel: decryptLock / hostmap locks; interleavings are C12/C34)",
                    "type Handshake packets are handled by the handshake manager (C05-C10) and are outside this property's rule"],
}

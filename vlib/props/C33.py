def _classify(case):
    return None


SPEC = {
    "title": "Timer wheel fires each item once, on time",
    "design_ref": "DESIGN.md section 4, C33; Appendix A.4",
    "technique": "Coq proof by induction over all add/advance/purge histories of an executable Gallina mirror of timeout.go "
                 "(slot-wise characterisation of Advance for any gap length, conservation of the multiset of items, exact firing instant), "
                 "tied to TimerWheel / LockingTimerWheel by a differential correspondence evaluated in Coq (T3)",
    "level_text": "Machine-checked Coq theorems over all histories, all tick/span sizes with 0 < min and 0 <= max (span below the tick and "
                  "non-multiples included), all timeouts in Z and advance gaps of any length: the slot index is always inside the wheel; "
                  "at every point the added items are exactly (as a multiset) the returned ones + the expired queue + the slots, so nothing "
                  "is returned twice; two Advances wheelLen+1 ticks apart followed by enough Purges return every item exactly once; an item "
                  "added when lastTick = t expires exactly at the first Advance reaching t + (ceil(clamp(T)/tick) + 1) ticks; seen from the "
                  "caller who advanced the wheel to instant c before Add: not returned (not even expired) while Advance has not been handed "
                  "an instant beyond c + roundup(clamp T), expired by c + roundup + 1 tick when the clock never steps back and by c + roundup "
                  "+ 2 ticks when it may step back by less than a tick. The model is tied to the real TimerWheel[uint64] and "
                  "LockingTimerWheel[uint64] by comparing every Purge output (order included) on random and boundary histories, and the "
                  "property's executable specification is evaluated on the real outputs.",
    "level_note": "The timing theorems need a clock that does not step back a full tick or more (C33_backward_clock_refuted is the witness: "
                  "Advance with an instant >= 1 tick in the past moves lastTick back and items fire early; nebula's callers use time.Now(), "
                  "whose monotonic reading excludes it). NewTimerWheel with min <= 0 or max < 0 (division by zero / index panics) is outside "
                  "the theorems. time.Time.Sub saturation (instants > 292 years apart) is not modelled. The link model<->Go is differential "
                  "testing and as strong as its generator; the item cache is exercised (3 x 51500 cells) with the specification evaluated "
                  "by the harness, not inside Coq.",
    "gens": [],
    "props": ["props/C33.v"],
    "corr": ["corr/Wheel_corr.v"],
    "comps": [{"comp": "wheel", "n_quick": 900, "n_thorough": 12000}],
    "trusted": ["model/Wheel.v is a hand-written mirror of /repo/timeout.go (tied by correspondence on Purge outputs)",
                "Go int64 / time.Duration / time.Time arithmetic is modelled by Z with truncating division (exact while |now - lastTick| < 2^63 ns)",
                "the bulk history for the item cache (> timerCacheMax recycled cells) is judged by specCheck in go/cmd/harness/c_wheel.go"],
    "assumptions": ["NewTimerWheel is called with 0 < min and 0 <= max",
                    "timing clauses: no Advance is handed an instant a full tick or more before the largest instant handed to Advance so far"],
    "classify": _classify,
}

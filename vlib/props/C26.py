SPEC = {
    "title": "Batched underlay sends survive kernel faults without duplication",
    "design_ref": "DESIGN.md section 4, C26",
    "technique": "Coq proof by induction over the chunk/drain loops of a hand-written model of batchWriter.WriteBatch / planRun against an arbitrary "
                 "kernel oracle, limits regenerated from the compiled code (T1), model tied to the code by a differential correspondence on a real "
                 "batchWriter with a scripted sendFn, evaluated in Coq (T3)",
    "level_text": "Machine-checked Coq theorems for all batches (sizes, destinations, routability), all scratch sizes, both GSO states, every maxGSOSegments and "
                  "every sendmmsg outcome function (short counts, zero-progress errors, EIO on superpackets, any errno, even sent>0 with an error): the packets in "
                  "kernel-accepted entries have pairwise distinct batch indexes, strictly increasing in hand-over order (so same-destination datagrams keep their order), "
                  "the returned count equals their number, every offered slot holds consecutive packets of one routable destination and an offloaded slot has "
                  "equal-sized segments except a shorter non-empty last, at most maxGSOSegments segments and at most maxGSOBytes bytes (constants pinned to 65000 / 63 / 127); "
                  "the explicit fuel suffices for every oracle and the call returns whenever the kernel never reports more entries than it was offered. "
                  "The model is tied to udp.batchWriter.WriteBatch by correspondence: every sendFn invocation (slots decoded from iovecs, sockaddr and cmsg), the return "
                  "value and the GSO flag afterwards are compared, and the executable property is evaluated on the implementation's recorded behaviour. "
                  "The limit itself is covered: prepareGSO's kernel-release gate gsoMaxSegments is modelled on (major, minor) and proved, for every major and minor, to give 63 below 6.9 "
                  "(compared as a pair), 127 from 6.9 on, monotone, never above UDP_MAX_SEGMENTS-1 of that kernel, hence no offloaded run above 63 segments on an older kernel; the real "
                  "gsoMaxSegments/parseRelease are swept over majors 2..9 x minors 0..40 x 6 suffix forms, outliers and malformed strings against the documented rule written independently, "
                  "and batches of 62..128 equal datagrams are planned with the limit the real gate returns for ten releases against a fake kernel of that release that answers EINVAL above "
                  "its own segment limit, the property's segment limit being the kernel's. "
                  "One level up, batch.SendBatch (overlay/batch/tx_batch.go) is modelled as Commit/Flush histories over the same WriteBatch model: for all histories and oracles "
                  "every Flush hands over exactly the datagrams committed since the previous Flush (drained whether or not WriteBatch returned an error), no datagram is accepted "
                  "twice over the whole history, and each Flush reports what the kernel accepted during it; tied by driving the real SendBatch (Reserve/Commit/Flush as "
                  "listenIn/sendInsideMessage do) over the real batchWriter, datagrams identified by an id in their content.",
    "level_note": "Trusted: Coq kernel; the hand-written model (mirrors planRun's comparisons and WriteBatch's drain/rewind logic; Go ints are unbounded integers, "
                  "sizes stay far below 2^63); the harness/overlay shim; the correspondence is differential testing. sendmmsg's own EINTR/ENOBUFS retry loop sits below "
                  "the sendFn injection point and is not exercised: ENOBUFS is scripted as the error sendFn finally returns. Destination equality is netip.AddrPort equality.",
    "gens": ["gen_writebatch"],
    "build_comp": "writebatch",
    "props": ["props/C26.v"],
    "corr": ["corr/WriteBatch_corr.v", "corr/SendBatch_corr.v"],
    "comps": [{"comp": "writebatch", "n_quick": 1500, "n_thorough": 40000},
              {"comp": "sendbatch", "n_quick": 500, "n_thorough": 15000}],
    "trusted": ["model/SendBatch.v run_ops is a hand-written mirror of SendBatch.Commit/Flush (tied by correspondence, component sendbatch; shares build tag comp_writebatch)",
                "model/WriteBatch.v write_batch/plan_run/pack/drain are hand-written mirrors of WriteBatch/planRun (tied by correspondence)",
                "gen/Consts_WriteBatch.v: maxGSOBytes, MaxWriteBatch, gsoMaxSegments before/after 6.9, EIO, ENOBUFS printed from the compiled code",
                "the shim identifies an iovec with packet i when base pointer and length equal bufs[i]; empty packets are identified through entryEnd/entryPkts and checked to be empty"],
    "assumptions": ["sendmmsg(2) never reports more messages sent than it was given (oracle_ok); needed only for 'the call returns'",
                    "callers pass len(bufs) == len(addrs) (otherwise WriteBatch returns an error before doing anything)"],
}

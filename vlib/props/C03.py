SPEC = {
    "title": "Every issued certificate decodes back to itself",
    "design_ref": "DESIGN.md section 4, C03",
    "technique": "Coq proof (round-trip theorems for the ASN.1 DER v2 codec and the protobuf v1 codec over byte lists, for every TBS certificate "
                 "the signing model accepts; soundness of every decoding entry point for all byte strings) over hand-written models of "
                 "cert_v2.go / cert_v1.go / cert.go / pem.go built on a DER library (lib/Der.v, mirrors cryptobyte) and the protobuf wire library "
                 "(lib/Proto.v), tied to the code by a differential correspondence evaluated in Coq (T3)",
    "level_text": "Machine-checked Coq theorems, closed under the global context: for every TBS certificate and signature that SignWith accepts "
                  "(v2: validate(), which sorts the networks, then the size check of the finished certificate; v1: validate() and proto.Marshal's UTF-8 "
                  "requirement) the issued certificate - every field and, for v2, the kept details bytes - is returned by the decoder from the "
                  "standard encoding, from the handshake encoding recombined with its public key and curve (Recombine, versions 0/1 and 2) and from "
                  "the PEM form (under the stated round-trip behaviour of encoding/pem), with equal fingerprints (SHA-256 as a parameter, over "
                  "exactly the bytes the code hashes). For ALL byte strings, keys, curves and versions every certificate a decoder returns obeys "
                  "the structural rules validate() enforces on signing (v2: name of 1..253 bytes, no empty group, non-empty key and signature, "
                  "valid, non-zero, non-4in6, strictly sorted duplicate-free networks, unsafe networks matched by an address family). "
                  "The DER library proves parse(emit x ++ rest) = (x, rest), 'a read consumes exactly header ++ content', canonicity of accepted "
                  "headers and INT64 minimal two's-complement round trip for all int64. The models are tied to SignWith, Marshal, "
                  "MarshalForHandshakes, MarshalPEM, Fingerprint, unmarshalCertificateV1/V2, Recombine and UnmarshalCertificateFromPEM by "
                  "correspondence: byte-for-byte equality of every encoding, of the bytes handed to the signer and of the fingerprint preimage; "
                  "decode agreement (accept/reject and every field) on mutated valid encodings, DER/protobuf grammar junk and random bytes; "
                  "the round trips are also executed on the implementation itself and any failure or panic is a failing input (code 2).",
    "level_note": "Trusted: Coq kernel; the hand-written models; the harness and the overlay shim that reach unmarshalCertificateV1/V2 and "
                  "rawDetails. encoding/pem and SHA-256 are parameters (PEM round trip is a premise, and is exercised through the real functions in "
                  "the correspondence). slices.SortFunc is modelled by insertion sort (the result of sorting a duplicate-free list under the total "
                  "order comparePrefix is unique, lists with duplicates are refused). 'Decoding arbitrary bytes never panics' is observed (recover) "
                  "on the generated inputs, not proved. The v1 round trip assumes encodings shorter than 2^63 bytes (a Go slice). "
                  "The correspondence is differential testing, bounded by its generators.",
    "gens": [],
    "build_comp": "certcodec",
    "props": ["props/C03.v"],
    "corr": ["corr/CertCodec_corr.v"],
    "comps": [{"comp": "certcodec", "n_quick": 2000, "n_thorough": 40000}],
    "trusted": ["model/CertCodec.v encode_v2/decode_v2/unmarshal_details/validate_v2, encode_v1/decode_v1 (protobuf-go table-driven decoder: merge of repeated "
                "Details, packed and unpacked uint32, unknown fields and groups skipped, UTF-8 validation), recombine, sign_v1/sign_v2 are hand-written mirrors "
                "(tied by correspondence)",
                "lib/Der.v mirrors golang.org/x/crypto/cryptobyte (Builder.AddASN1, String.readASN1, ReadOptionalASN1, AddASN1Int64WithTag, ReadASN1Int64WithTag)",
                "overlay shim cert/verif_certcodec.go (VerifCodecUnmarshalV1/V2, VerifCodecRawDetails; VerifCodecIssue only measures how long a refused certificate would have been)",
                "the harness signs through the unmodified SignWith; issuers of other lengths come from a signer whose Fingerprint() is overridden in the harness"],
    "assumptions": ["C03_pem_*/C03_fingerprint_*: pem.Decode(pem.EncodeToMemory(block)) returns the block's type and bytes with nothing left over (premise; satisfiable: Example pem_hypothesis_satisfiable)",
                    "C03_roundtrip_v1: the encodings are shorter than 2^63 bytes (premise go_len: every Go slice)",
                    "netip.Prefix values carry no zone once validate() has passed (signing refuses zones, PrefixFrom strips them); time.Time.Unix() of time.Unix(s, 0) is s for every int64 s"],
}

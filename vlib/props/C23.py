SPEC = {
    "title": "Receive coalescing is transparent to the tun device",
    "design_ref": "DESIGN.md section 4, C23 and appendix A.3",
    "technique": "Coq proof (slot invariant, permutation, per-flow order, geometry; induction over all batches) on a hand-written model of "
                 "MultiCoalescer / TCPCoalescer / UDPCoalescer / Passthrough over abstract packets plus a reference model of the kernel's TSO/USO "
                 "segmentation; limits regenerated from the compiled code (T1); model tied to the code by a differential correspondence through the real "
                 "newPacket + MultiCoalescer over a recording tio.GSOWriter, evaluated in Coq (T3)",
    "level_text": "Machine-checked Coq theorems for ALL batches of abstract packets (any size, any number of flows and sessions, any arrival order, every "
                  "GSO capability combination of the writer): after cutting every WriteGSO superpacket the way the kernel does (gso_size pieces, sequence number "
                  "+i*gso_size, IPv4 ID +i, PSH/FIN last only, CWR first only) the delivered packets are, one for one, the batch's packets - equal except checksums, "
                  "the IPv4 ID when DF is set, and bytes behind the IP-declared length (C23_transparent); under that matching, whenever a packet is delivered before "
                  "one that was transmitted earlier ((epoch, counter) smaller) in the same flow, the earlier one is a pure TCP ACK (C23_flow_order); every superpacket "
                  "has 2..MaxSegs pieces of exactly gso_size bytes except a last one of 1..gso_size, at most 65535 bytes in total, IP/UDP length fields equal to the real "
                  "lengths (C23_geometry, constants pinned: <= 64 segments, <= 65535 bytes, iovec budget of Offload.WriteGSO) and carries the folded non-inverted "
                  "pseudo-header sum in the L4 checksum field and a verifying IPv4 header checksum (C23_checksum_seeds). The model mirrors every condition of "
                  "canAppend / appendPayload / seed / sealFlow / sealAllOpen / commitParsed (incl. the lastSlot cache, proved to be in lockstep with the open-slot map) "
                  "and is tied to the code by correspondence: real IPv4/IPv6 TCP/UDP/other packets (flag mixes, gaps, retransmits, 2^32 and 2^16 wraps, ECN/DSCP/TTL/ack/"
                  "window/option changes, DF and non-DF ID patterns, fragments, IP options, extension headers, malformed and lying lengths, truncations, bad checksums, "
                  "65535-byte and larger packets) classified by the real newPacket and committed to the real MultiCoalescer; every Write/WriteGSO is compared with the model, "
                  "re-segmented by a byte-level kernel reference that completes the checksums from the coalescer's seed and verifies them from scratch, and the "
                  "executable property is evaluated on the result.",
    "level_note": "Trusted: Coq kernel; the hand-written model; the abstraction of packets (the harness' reference classifier decides which byte strings are "
                  "coalescable shapes - a change of nebula's parse conditions shows up as a model/implementation difference); the model of the kernel's "
                  "segmentation (cross-checked against the harness' independent byte-level segmenter, code 3); the harness and overlay shims; the correspondence is "
                  "differential testing. The theorems assume the representation invariant of the abstraction (wf_batch, checked on every generated batch). "
                  "Offload.WriteGSO / Write (the virtio_net_hdr encoding) are not modelled in Coq: the harness routes every recorded call through the real tio.Offload over a "
                  "socketpair and checks the emitted frame against the documented contract (DATA_VALID only for plain writes; NEEDS_CSUM, GSO type by protocol and IP "
                  "version, hdr_len, gso_size = first fragment, csum_start/offset, bytes = hdr ++ transport hdr ++ fragments); its reference segmenter takes gso_size from that header. "
                  "slices.SortFunc is modelled by a stable insertion sort: equal for distinct (epoch, counter) keys.",
    "gens": ["gen_coalesce"],
    "build_comp": "coalesce",
    "props": ["props/C23.v"],
    "corr": ["corr/Coalesce_corr.v"],
    "comps": [{"comp": "coalesce", "n_quick": 240, "n_thorough": 2400}],
    "trusted": ["model/Coalesce.v commit_staged/commit_parsed/seed/append_slot/seal_flow/render/run are hand-written mirrors of overlay/batch (tied by correspondence)",
                "model/Coalesce.v kernel_segment is the reference model of Linux TSO/USO segmentation of a tun write (tcp_gso_segment, __udp_gso_segment, inet_gso_segment)",
                "gen/Consts_Coalesce.v: tcp/udpCoalesceMaxSegs, tcp/udpCoalesceBufSize, TCP flag masks, protocol numbers, tio maxSuperpacketLen / gsoMaxIovs printed from the compiled code",
                "c_coalesce.go coalAbstract: the reference classification of byte strings into the abstract shapes; coalSegment: the byte-level kernel reference; "
                "coalFrameOK: the contract of the tun write path checked on the real tio.Offload (harness-established, reported through harness_ok / code 2)"],
    "assumptions": ["(epoch, counter) keys of one batch are distinct (replay protection, C11/C12), so the unstable slices.SortFunc has one possible result",
                    "abstract packets satisfy the representation invariant wf_pktb (opaque blob only for unparseable shapes, blank TCP fields in UDP packets, "
                    "32-bit sequence numbers, 16-bit IPv4 IDs); for the checksum statement additionally byte-sized ToS/TTL/protocol fields",
                    "the kernel segments a tun GSO write as tcp_gso_segment / __udp_gso_segment do (modelled, cross-checked against an independent byte-level reference)"],
}

SPEC = {
    "title": "A data packet is delivered at most once",
    "design_ref": "DESIGN.md section 4, C12 (and C11, Appendix A.1)",
    "technique": "Coq proof over every schedule (invariant by induction over arbitrary interleavings of the three sections "
                 "Check | cipher | Update of any number of Decrypt/VerifyRelay calls, as a corollary of the C11 refinement of the "
                 "word-level replay window) with the window constant generated from the code (T1) and a differential correspondence "
                 "that scripts the interleavings on the real ConnectionState, evaluated in Coq (T3)",
    "level_text": "Machine-checked Coq theorems for every window length 2^k, any number of receiver threads (each one call of "
                  "ConnectionState.Decrypt or VerifyRelay on the same ConnectionState, for any counter below 2^64 - L, authentic or forged) "
                  "and every schedule of their critical sections and cipher calls: at most one thread returns success for a given counter, "
                  "from a fresh window and from every state satisfying the (preserved) invariant; only authentic packets are delivered. "
                  "The replay window inside the model is the word-level model of bits.go proved in C11. The three-section structure is tied "
                  "to connection_state.go by driving the real Decrypt/VerifyRelay of a real ConnectionState (AES-GCM receive key, "
                  "NewBits(ReplayWindow)) from goroutines that the harness parks inside the cipher call - the boundary between the two "
                  "critical sections - so that all interleavings of 2 and 3 threads and random schedules of up to 8 threads are executed "
                  "deterministically without any hook in nebula; result vectors, final window cursor and bitmap are compared with the model "
                  "run on the same schedule, and the property (per-counter deliveries <= 1, deliveries authentic) is evaluated on the "
                  "implementation's results, also for free-running stress rounds. "
                  "System level (component sysmon_C12): in seeded event histories of four real nodes built by nebula.Main with duplicated, replayed and reordered datagrams, direct and relayed, no inner packet (unique payload marker) is written to a tun more than once.",
    "level_note": "Trusted: Coq kernel; the harness, the overlay shim and the gating cipher wrapper. The theorems assume sync.Mutex gives "
                  "mutual exclusion (each locked section is atomic) and that DecryptDanger touches neither the window nor the lock; the "
                  "cipher's verdict is an oracle bit per packet. Callers in outside.go act only on a nil error (read, not modelled); "
                  "delivery to tun in the e2e network is not exercised here. Counters within one window of 2^64 are excluded (F11, see C11). "
                  "The stress rounds are supporting evidence only.",
    "build_comp": "decrypt",
    "gens": ["gen_decrypt"],
    "props": ["props/C12.v"],
    "corr": ["corr/Decrypt_corr.v", "corr/RelayE2E_corr.v"],
    "comps": [{"comp": "decrypt", "n_quick": 150, "n_thorough": 5000}, {"comp": "sysmon_C12", "e2e": True, "n_quick": 12, "n_thorough": 150},
              # the malicious-relay network of C15: its cross-path sessions deliver the same end-to-end frame relay-forwarded,
              # re-wrapped and stripped-direct; code 2 there is C12's clause "a replayed copy (arriving directly or through a
              # relay) is never delivered to the tun device"
              {"comp": "relaynet15", "n_quick": 2, "n_thorough": 12, "e2e": True}],
    "trusted": ["model/Decrypt.v is a hand-written mirror of where ConnectionState.Decrypt / VerifyRelay take and release decryptLock, "
                "tied by scripted interleavings on the real functions",
                "model/Bits.v (the window) is tied to bits.go by the C11 correspondence",
                "gen/Decrypt_consts.v is printed by the harness from the constant compiled in from /repo"],
    "assumptions": ["sync.Mutex provides mutual exclusion: the Check section and the Update section are atomic",
                    "DecryptDanger does not touch the replay window or decryptLock; its result is modelled as one boolean per packet",
                    "every counter is below 2^64 - L (C11 hypothesis; honest senders stop at RejectAfterMessages)"],
}

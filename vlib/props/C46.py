def classify(case):
    # no known findings for C46 (F13, F14, F17 are repaired in nebula); every failing case is reported
    return None


SPEC = {
    "title": "CPU pinning choices are valid and stable",
    "design_ref": "DESIGN.md section 4, C46",
    "technique": "Coq proof over all candidate lists, topologies, routine counts and hashes (structural lemmas about a Gallina mirror of "
                 "arrange / pickCandidates / the performance filter) and over all byte strings (the mirror of parseCPUList and an "
                 "independent one-pass recogniser are each proved equivalent to a declarative cpulist grammar), tied to the code by a "
                 "differential correspondence evaluated in Coq (T3)",
    "level_text": "Machine-checked Coq theorems. For every candidate list, every topology (node map, core map, zeroCore), every routine count "
                  "and every 64-bit hash: the pin list holds only candidates and none twice (given distinct candidates); it holds exactly the "
                  "candidates of one NUMA node with at least `routines` of them, or exactly all candidates when no node is that large; it has "
                  "the shape [off CPU 0's core] ++ [other threads of CPU 0's core] ++ [CPU 0 if present], so CPU 0 is last and occurs only "
                  "there; one thread per physical core precedes the SMT siblings; the result depends only on the hash, the candidates and the "
                  "candidates' own topology entries. For every allowed set and every content of the sysfs performance files the composed "
                  "Default (performance filter, pickCandidates, arrange with splitmix64(key)) yields only allowed CPUs. For ALL byte strings: "
                  "parse_cpu_list s = Some l <-> s is in the grammar cpulist ::= field | field ',' cpulist; field ::= blank* | blank* item "
                  "blank*; item ::= n | n-m with n <= m, m-n <= 8192; numbers = digit+ <= 2^63-1; blank = one of the six ASCII blanks, and l "
                  "is its expansion; the independent one-pass recogniser accepts the same grammar, hence agrees with the parser everywhere. "
                  "The models are tied to cpupick.parseCPUList, splitmix64, pickCandidates, arrange, perfCPUsFrom, readTopologyFrom (on sysfs "
                  "trees written to a temp dir) and to the real Default on this machine; the executable clauses (proved to accept only lists "
                  "of the stated shape) and the recogniser are evaluated on every output of the implementation.",
    "level_note": "Trusted: Coq kernel; the harness, the overlay shim and the worker process that observes parseCPUList with a time limit "
                  "(a call that does not return is recorded as an observation and fails the case). The correspondence is differential testing "
                  "(corpus + sweep of small machines + random), so the link model<->Go is as strong as its generators. The span limit 8192 "
                  "and the 63-bit number limit are literals in the code: they are pinned in the model and probed at their boundaries, not "
                  "generated. The models of the sysfs readers (numaNodes, coreGroups, byPerCPUValue, byIntelCoreMask) carry no theorem of "
                  "their own beyond 'the performance subset is a sub-list of the allowed list'; the topology is universally quantified in "
                  "the arrange theorems. The callers' strings.TrimSpace on whole sysfs file contents is modelled as ASCII trimming "
                  "(sysfs content is ASCII). Default itself can only be run against the real /sys of the machine the check runs on.",
    "build_comp": "cpupick",
    "gens": [],
    "props": ["props/C46.v"],
    "corr": ["corr/CpuPick_corr.v"],
    "comps": [{"comp": "cpupick", "n_quick": 800, "n_thorough": 8000}],
    "trusted": ["model/CpuPick.v is a hand-written mirror of cpupick.go / perf_linux.go / topo_linux.go (tied by the correspondence)",
                "the cpulist grammar in model/CpuPick.v (inductive `cpulist`) is the reading of 'the kernel's cpulist syntax' fixed in "
                "DESIGN.md C46 and fixes/F13, F14, F17: the kernel's output form, ASCII blanks trimmed, empty items skipped, leading zeros allowed"],
    "assumptions": ["strconv.ParseUint(s, 10, 63) accepts exactly the non-empty decimal digit strings with value <= 2^63-1",
                    "strings.Trim / strings.SplitSeq / strings.Cut behave as documented on byte strings",
                    "CPU ids are non-negative (sched_getaffinity bit positions, unsigned cpulist numbers)"],
    "classify": classify,
}

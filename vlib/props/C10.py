def classify(case):
    """'ix-responder-unauthenticated-msg1' (known finding F27) exactly for the cases that are judged under the reading
    "a replayed - possibly altered - first message never replaces the primary": histories emitted with the list of
    stage-1 payloads that are altered copies (peer-reported time rewritten) of a captured genuine one, and in which
    such a copy is delivered."""
    c = case.get("case") if isinstance(case, dict) else None
    if not isinstance(c, dict) or case.get("kind") != "ix-responder-unauthenticated-msg1":
        return None
    forged = c.get("altered_stage1") or []
    try:
        for o in c.get("ops", []):
            if o and o[0] == "stage1" and o[1] in forged:
                return "ix-responder-unauthenticated-msg1"
    except (TypeError, IndexError):
        return None
    return None


SPEC = {
    "title": "Replayed handshakes do not create or replace tunnels",
    "design_ref": "DESIGN.md section 4, C09 / C10",
    "technique": "Coq proof over all operation histories of a hand-written model of the handshake manager (CheckAndComplete, "
                 "handleCheckAndCompleteError, beginHandshake, continueHandshake) layered on the C28 hostmap model - every hostmap mutation "
                 "goes through HostMap.step, so the C28 invariant (WF) holds in every reachable state - with a ghost log of completed "
                 "handshakes; tied to the code by a differential correspondence over operation histories evaluated in Coq (T3) on a real "
                 "HandshakeManager + HostMap driven with real Noise IX messages and real signed certificates",
    "level_text": "Machine-checked Coq theorems. C10_replay_noop: after ANY history of handshake-manager operations (first deliveries and "
                  "replays of stage-1 messages, initiator handshakes answered by the right host / a wrong host / a host claiming my address, "
                  "index allocations with arbitrary candidate streams, deletes, promotions, timeouts - hence after re-handshakes and rotation "
                  "up to the five tunnels per address), a stage 1 whose payload equals the stage-0 packet kept by a tunnel still held for the "
                  "first certificate address leaves the complete hostmap state unchanged (no hostinfo created, no entry of Hosts, moreHosts, "
                  "Indexes, RemoteIndexes, Relays or the pending maps changed, so no primary changed) and the packets sent are exactly the "
                  "stored stage-2 reply of a held tunnel with that payload, preceded by one test request only if the sender's address moved "
                  "that tunnel's remote into a preferred range. C10_replay_history: the same over histories - a stage 1 that was accepted "
                  "(created tunnel id) and is delivered again after ANY continuation while id is still in Indexes is answered with a resend "
                  "and changes nothing (uses that the log of completed handshakes names every tunnel exactly once). C10_older_rejected: in every state, a stage 1 whose peer-reported time is "
                  "not newer than the primary tunnel for its first certificate address, accepted as responder, changes no map and creates "
                  "nothing. C10_tunnel_data / C10_log_sound: role, kept payload and time of every tunnel in Indexes are those of the "
                  "completed handshake (a log entry written exactly when a stage 1 or stage 2 completes) that created it.",
    "level_note": "The executable specification judges clause 2 on observations against the peer-reported time of the stage 1 that "
                  "created the primary (the harness's input, not what the node stored), for peer clocks behind, ahead of (year 2200, "
                  "2^64-1) and mixed with the responder's clock, and requires the stored lastHandshakeTime of a new responder tunnel to "
                  "equal the peer-reported time. The peer-reported time (like everything in the first IX message) is UNAUTHENTICATED input when the responder acts "
                  "on it: C10 is about re-delivering a message (same bytes: only a resend) and about a time that is not newer. An altered "
                  "copy of a captured stage 1 (time rewritten, no key needed) is a different message with a newer time and does replace the "
                  "primary: known finding F27, proved in the model as C10_forged_time_refuted and reproduced on the real code by the first "
                  "corpus case (kind ix-responder-unauthenticated-msg1, judged under the reading 'a replayed, possibly altered, first "
                  "message never replaces the primary'; the same history is also checked as an ordinary case). Modelled, not verified: Noise and certificate verification sit above the model (an operation is a message that already "
                  "passed handshake.Machine with a verified certificate; C05-C07 cover the Machine); a stage-1 payload is named by a "
                  "number (equal numbers iff equal bytes) and the node's own stage-0 message is assumed never to equal a received payload "
                  "(initiator tunnels never match the ErrAlreadySeen scan); relayed deliveries, the remote allow list and lighthouse "
                  "notifications are outside the model. If the same payload number is used with different certificates the resend is that "
                  "of the first tunnel in the list holding the payload (real payloads determine their certificate). The link model<->Go is "
                  "differential testing and as strong as its generator.",
    "classify": classify,
    "gens": ["gen_hsmgr"],
    "props": ["props/C10.v"],
    "corr": ["corr/HsMgr_corr.v"],
    "build_comp": "hsmgr",
    "comps": [{"comp": "hsmgr", "n_quick": 150, "n_thorough": 4000}],
    "trusted": ["model/HsMgr.v is a hand-written mirror of handshake_manager.go (StartHandshake, handleOutbound first attempt and timeout, "
                "beginHandshake, validatePeerCert, CheckAndComplete, handleCheckAndCompleteError, continueHandshake, Complete) and "
                "hostmap.go SetRemoteIfPreferred, over model/HostMap.v (C28); tied by the correspondence",
                "the overlay shim verif_hsmgr.go plays the peers with flynn/noise (so peer time, peer index and certificate are chosen by "
                "the harness), names hostinfos / payloads / underlay addresses by numbers and classifies the packets that reached the "
                "recording socket; it gives each fresh pending handshake its own empty remote list",
                "gen/Consts_HostMap.v (MaxHostInfosPerVpnIp) is printed from the compiled-in constant"],
    "assumptions": ["a received stage-1 payload never equals a stage-0 message this node built itself (header included)",
                    "crypto/rand.Read delivers the bytes of crypto/rand.Reader (the harness scripts the 4-byte index reads)",
                    "operations are atomic (each entry point holds the hostmap / handshake-manager locks for its critical section; "
                    "interleavings are the subject of C31/C34)"],
}

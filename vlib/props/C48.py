SPEC = {
    "title": "Calculated remotes splice mask and overlay bits exactly",
    "design_ref": "DESIGN.md section 4, C48",
    "technique": "Coq proof over all addresses, all prefix lengths 0..32 / 0..128 and all ports, on a hand-written model of "
                 "newCalculatedRemote / ApplyV4 / ApplyV6 (net.CIDRMask bytes, 32-bit word, two 64-bit halves) and of addCalculatedRemotes "
                 "(range lookup as longest-prefix match), tied to the code by a differential correspondence evaluated in Coq (T3)",
    "level_text": "Machine-checked Coq theorems: for every mask address, every prefix length (0..32 for IPv4, 0..128 for IPv6, including 0, 32, 64, 65, 128), "
                  "every overlay address and every port, bit i (from the most significant) of the result equals bit i of the mask address when i < prefix length "
                  "and bit i of the overlay address otherwise; the result carries the configured port, which must lie in 0..65535; a mask of the other address "
                  "family is refused; and from any well-formed configuration addCalculatedRemotes yields nothing for an overlay address outside every configured "
                  "range of its own family, otherwise exactly the splices for the remotes of the most specific containing range, never panicking. "
                  "net.CIDRMask is handled by complete enumeration of the 33 + 129 prefix lengths inside Coq. The model is tied to the code by correspondence: "
                  "every mask length of both families through ApplyV4/ApplyV6 and real LightHouses built from YAML through addCalculatedRemotes.",
    "level_note": "Trusted: Coq kernel; the hand-written model (mirrors the byte/word structure of ApplyV4/ApplyV6 and net.CIDRMask; netip.Prefix.Masked and As4/As16 modelled "
                  "as clearing the low bits / big-endian bytes); gaissmai/bart Table.Lookup modelled as longest-prefix match (trusted, exercised through nebula's API); the "
                  "harness/overlay shim; the correspondence is differential testing. The remote allow list, the own-network filter and the MaxRemotes cap applied "
                  "afterwards by unlockedSetV4/V6 belong to other properties (the harness keeps them inactive). Two configuration keys with the same canonical prefix "
                  "are outside the model (Go map iteration order decides which survives).",
    "gens": [],
    "build_comp": "calcremote",
    "props": ["props/C48.v"],
    "corr": ["corr/CalcRemote_corr.v"],
    "comps": [{"comp": "calcremote", "n_quick": 400, "n_thorough": 40000}],
    "trusted": ["model/CalcRemote.v new_calculated_remote/apply_v4/apply_v6/add_calculated are hand-written mirrors of calculated_remote.go and lighthouse.go addCalculatedRemotes (tied by correspondence)",
                "bart.Table.Lookup is longest-prefix match over the inserted prefixes; netip.ParsePrefix yields prefix lengths within the address width"],
    "assumptions": ["configured prefixes are valid (prefix length <= address width), as netip.ParsePrefix guarantees",
                    "the ranges of one configuration have distinct canonical prefixes"],
}

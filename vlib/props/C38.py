SPEC = {
    "title": "Allow lists use longest-prefix semantics with a safe default",
    "design_ref": "DESIGN.md section 4, C38",
    "technique": "Coq proof over all allow-list maps, all addresses, all remote ranges and all interface rule sets, on a hand-written model of "
                 "newAllowList / AllowList.Allow / RemoteAllowList / LocalAllowList.AllowName (bart.Table modelled as longest-prefix match over an "
                 "association list, regexp compile/match as oracles), tied to the code by a differential correspondence evaluated in Coq (T3)",
    "level_text": "Machine-checked Coq theorems, for every configured map (any number of IPv4, IPv6 and IPv4-mapped keys, host bits set or not, any values) "
                  "and every address: the answer is the value of the most specific configured entry containing the address (C38_lpm); with no containing "
                  "entry the family has uniform values and no /0 and the answer is the opposite value, a family without entries allows (C38_default); the "
                  "map is refused exactly when a key is not a prefix, is IPv4-mapped and shorter than /96, a value is not a boolean, or a family mixes "
                  "allow and deny without a /0 (C38_mixed_refused, C38_key_refused, C38_value_refused); acceptance and every answer are the same for every "
                  "permutation of the visiting order (C38_order); ::ffff:a/(96+n) is the IPv4 prefix a/n and ::ffff:a is answered as a (C38_mapped); "
                  "RemoteAllowList.Allow = inside(vpn)(udp) && global(udp), AllowAll = that for every overlay address, the inside list is that of the most "
                  "specific range containing the unmapped overlay address (C38_remote_and, C38_inside, C38_ranges_refused, C38_ranges_order); interface "
                  "rules are accepted iff every pattern compiles and all values are equal, a matched name gets that value (so the first matching rule and "
                  "all others agree), an unmatched name the opposite, no rules allow (C38_names_accept, C38_names, C38_names_order). "
                  "The model is tied to the real constructors and methods, reached through config.C exactly as the lighthouse reaches them, by "
                  "correspondence on generated maps; every map is built five times so that Go's randomised map order is exercised.",
    "level_note": "Order independence needs (and C38_order states) that one network is not written twice with different values; C38_order_refuted "
                  "proves that otherwise the last-visited spelling wins, and the harness observes this on the real code (kind */order-dependent, not "
                  "reported as a violation; reported to the coordinator as a finding candidate). Trusted: Coq kernel; bart.Table = longest prefix match "
                  "with overwrite on equal masked prefix; netip.ParsePrefix/Unmap/Is4In6 as documented; regexp as an oracle (the correspondence uses literal "
                  "and literal.* patterns only); the harness and overlay shim; the correspondence is differential testing. Zoned IPv6 addresses and the "
                  "invalid zero netip.Addr are outside the model.",
    "gens": [],
    "build_comp": "allowlist",
    "props": ["props/C38.v"],
    "corr": ["corr/AllowList_corr.v"],
    "comps": [{"comp": "allowlist", "n_quick": 600, "n_thorough": 30000}],
    "trusted": ["model/AllowList.v new_allow_list/allow/remote_allow/allow_all/allow_name are hand-written mirrors of allow_list.go (tied by correspondence)",
                "gaissmai/bart Table.Insert/Lookup modelled as longest-prefix match over an association list, latest insert of a masked prefix wins",
                "regexp.Compile / MatchString are oracles (Section variables valid / matches); the correspondence instantiates them for literal and literal.* patterns"],
    "assumptions": ["bart.Table.Lookup returns the value of the longest inserted prefix containing the address; Insert masks the prefix and overwrites",
                    "net/netip: ParsePrefix keeps host bits and refuses lengths beyond the family; Is4In6/Unmap recognise exactly ::ffff:0:0/96",
                    "order independence: no network is configured twice with different values (C38_order hypothesis `consistent`; refuted otherwise)"],
}

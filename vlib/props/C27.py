SPEC = {
    "title": "Received offload superdatagrams split back exactly",
    "design_ref": "DESIGN.md section 4, C27",
    "technique": "Coq proof over all payloads, all signed segment sizes and all ancillary buffers, on a hand-written model of "
                 "deliverSegments / parseRecvCmsg whose cmsg layout constants are regenerated from the compiled code (T1) and which is "
                 "tied to the code by a differential correspondence evaluated in Coq (T3)",
    "level_text": "Machine-checked Coq theorems: for every payload and every size with 0 < size < length the delivered pieces are consecutive, "
                  "all of exactly that size except a last one of 1..size bytes, none empty, and concatenate to the received bytes; for zero, negative, "
                  "equal or larger sizes (and for the empty datagram) exactly one piece, the datagram itself; for every ancillary buffer the cmsg walk "
                  "terminates and every byte it reads has an index below the buffer length (the model reads through a checked accessor that records "
                  "an out-of-bounds flag, proved never set). The model is tied to udp.deliverSegments / udp.parseRecvCmsg by correspondence on all "
                  "payload lengths 0..300 x 16 size classes and on well-formed, truncated, lying-length and random cmsg buffers. "
                  "At system level the real StdConn (udp.NewListener, batch 64, offloads on) runs ListenOut on a loopback socket: UDP_SEGMENT superdatagrams interleaved with plain "
                  "datagrams shorter/equal/longer than earlier segment sizes, landing in the same recvmmsg slot; every datagram sent must be delivered whole, exactly once, in order "
                  "(component listenout; skipped, and recorded as skipped, when the kernel lacks UDP_GRO/UDP_SEGMENT or loopback does not coalesce).",
    "level_note": "Trusted: Coq kernel; the hand-written model (mirrors each comparison of the Go code; int is 64-bit, cmsghdr layout from generated constants, "
                  "pinned to the Linux 64-bit layout in the proof); the harness/overlay shim; the correspondence is differential testing. "
                  "A nil Control pointer with a non-zero Controllen is outside the model (recvmmsg never produces it). Memory safety of the unsafe.Pointer cast itself "
                  "is argued through the index bounds (16 header bytes are inside the buffer when the header is read).",
    "gens": ["gen_udpsplit"],
    "build_comp": "udpsplit",
    "props": ["props/C27.v"],
    "corr": ["corr/UdpSplit_corr.v"],
    "comps": [{"comp": "udpsplit", "n_quick": 1200, "n_thorough": 40000},
              {"comp": "listenout", "n_quick": 15, "n_thorough": 150}],
    "trusted": ["listenout: the kernel cuts a UDP_SEGMENT send every gso_size bytes and loopback keeps the order of one flow (the expected wire datagrams are computed that way)",
                "model/UdpSplit.v deliver_segments/parse_recv_cmsg are hand-written mirrors of deliverSegments/parseRecvCmsg (tied by correspondence)",
                "gen/Consts_UdpSplit.v: sizeof(cmsghdr), alignment, field offsets/widths, SOL_UDP, UDP_GRO, byte order, int width printed from the compiled code"],
    "assumptions": ["the control buffer handed to parseRecvCmsg is hdr.Control[:hdr.Controllen] and the kernel never reports a Controllen above the space it was given",
                    "Go slice lengths are below 2^62, so off+segSize does not overflow int"],
}

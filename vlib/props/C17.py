SPEC = {
    "title": "Overlay source and destination addresses are authentic",
    "design_ref": "DESIGN.md section 4, C17",
    "technique": "Coq proof over the Drop model with the conntrack/cache answer abstracted to an arbitrary boolean and an arbitrary firewall record; "
                 "longest-prefix-match soundness for HostInfo.networks; model tied to firewall.go / hostmap.go by a differential correspondence evaluated in Coq (T3)",
    "level_text": "Machine-checked Coq theorems for EVERY rule table (including allow-everything and unreachable ones), every conntrack state and "
                  "routine-local cache answer, every peer certificate (one or many addresses, inside or outside my networks, unsafe networks) and packet: "
                  "if Drop allows, the remote address is a certified address of the peer inside my overlay networks or inside one of its certified unsafe "
                  "networks, and the local address is one of my certified addresses or inside my certified unsafe networks; HostInfo.buildNetworks "
                  "(table vs single-address shortcut) is characterised against the certificate. Tied to the real NewFirewall/buildNetworks/Drop with "
                  "multi-address peers, spoofed addresses, tuples tracked by another peer and pre-filled caches. "
                  "System level (component sysmon_C17): in seeded event histories of four real nodes built by nebula.Main (two-address peers, an unsafe network, spoofed and crafted inner addresses) every inner packet delivered to a tun, and every inner packet found on the wire by decrypting it with the receiver's key, carries a peer address certified for that peer (inside the node's networks or the peer's unsafe networks) and a node address that is the node's own or inside its unsafe networks.",
    "level_note": "Trusted: Coq kernel; bart modelled as longest-prefix match (lib/Ip.v); the correspondence is differential testing. Soundness only: that every "
                  "authentic address is accepted is exercised by the correspondence, not proved (a certified address outside my networks shadows an unsafe network: 'peer rejected').",
    "gens": ["gen_fwrules"],
    "build_comp": "fwrules",
    "props": ["props/C17.v"],
    "corr": ["corr/Firewall_corr.v"],
    "comps": [{"comp": "fwrules_addr", "n_quick": 500, "n_thorough": 8000}, {"comp": "fwreload", "n_quick": 60, "n_thorough": 2000}, {"comp": "sysmon_C17", "e2e": True, "n_quick": 12, "n_thorough": 150}],
    "trusted": ["model/Firewall.v drop/remote_check/hostinfo_of/routable are hand-written mirrors of Firewall.Drop, HostInfo.buildNetworks and NewFirewall (tied by correspondence)",
                "lib/Ip.v models bart.Lite / bart.Table as prefix sets with contains / longest-prefix-match semantics",
                "HostInfo.vpnAddrs = addresses of the peer certificate's networks, in order (handshake_manager.go; built that way by the shim)"],
    "assumptions": ["gaissmai/bart implements insert-masked / contains / longest-prefix lookup",
                    "the HostInfo handed to Drop was built from the peer's verified certificate (C09)"],
}

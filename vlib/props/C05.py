def _classify(case):
    """Finding F27 (KNOWN_FINDINGS.json): under the literal reading of the property a responder may complete only on a
    message 1 that an honest initiator sent verbatim.  The harness emits the literal reading as separate cases
    (constructor C5Literal, desc['literal_reading'] = True) that check nothing else, so this signature can never hide a
    completion with an unaccepted certificate, a certificate for another key, or unbound keys (those are checked on the
    C5Strict twin of the same script, which has no signature)."""
    c = (case or {}).get("case") or {}
    if c.get("literal_reading") is True and c.get("forged_responder_completions"):
        return "ix-responder-unauthenticated-msg1"
    return None


SPEC = {
    "title": "A handshake completes only with an authenticated peer",
    "design_ref": "DESIGN.md section 4, C05",
    "level": "proof",
    "technique": "Coq proof of an invariant over every message sequence fed to any set of machines (symbolic Dolev-Yao model of flynn/noise IX "
                 "with nebula's handshake.Machine on top), tied to the code by a differential correspondence on real Machine sets with six kinds "
                 "of bad identities and an active adversary script, evaluated in Coq (T3)",
    "level_text": "PARTIAL. Machine-checked for every machine reachable from NewMachine under ANY sequence of Initiate/ProcessPacket calls with ANY "
                  "packets (C05_complete_inv, C05_network, C05_adversary): whenever ProcessPacket returns a Result, the reported certificate was "
                  "accepted by the verifier, recombined with exactly the static key the peer presented in the Noise exchange; it is the result the "
                  "machine keeps; the session keys are the two halves of a chaining key into which DH(own ephemeral, that static key) and "
                  "DH(own static, peer ephemeral) were mixed; on the initiator side the accepted message 2 carried an AEAD box keyed through "
                  "DH(own ephemeral, peer static); failed is sticky (C05_failed_sticky). NOT proved, assumed: only the holder of the private key "
                  "can make such a box / use such keys (the Noise IX guarantee; no secrecy proof in the symbolic model). REFUTED for the literal "
                  "statement on the responder side (C05_responder_unproven_refuted, finding F27): message 1 of IX is unauthenticated, a responder "
                  "completes 'with A' on A's captured message 1 with an altered Time, or on a message built from A's public key and certificate.",
    "level_note": "Partial for two reasons: (1) key secrecy / 'only the key holder can produce the message' is the symbolic-model assumption, not a "
                  "theorem; (2) the responder half of the property's literal text does not hold for two-message IX (F27, known finding): for the "
                  "responder only the binding certificate <-> static key carried in message 1 <-> derived keys is proved. Trusted: Coq kernel; "
                  "model/Noise.v, model/Machine.v mirror flynn/noise state.go and handshake/machine.go (tied by the correspondence: real machines "
                  "with good / untrusted-CA / expired / blocklisted / certificate-for-another-key / stolen-certificate identities, both curves, "
                  "both ciphers, scripts of deliver/drop/dup/replay/splice/truncate/flip/low-order-ephemeral/swap-cert/rewrite-payload; "
                  "component noise_mgr repeats the identity matrix through the real HandshakeManager with its production certVerifier, after a "
                  "genuine tunnel with the victim exists, and re-checks every reported certificate with an independent full trust check).",
    "gens": [],
    "props": ["props/C05.v"],
    "corr": ["corr/Noise_corr.v"],
    "build_comp": "noise",
    "comps": [{"comp": "noise_c05", "n_quick": 200, "n_thorough": 6000},
              # the same identities through the REAL HandshakeManager (beginHandshake / continueHandshake / StartHandshake with the
              # production HandshakeManager.certVerifier), two-step histories: genuine tunnel with the victim first, then handshakes
              # presenting the victim's certificate bytes with another static key, expired / blocklisted / untrusted and genuine ones
              {"comp": "noise_mgr", "n_quick": 40, "n_thorough": 800}],
    "classify": _classify,
    "trusted": ["model/Noise.v, model/Machine.v: hand-written mirrors of flynn/noise v1.1.0 state.go (IX, no psk) and handshake/machine.go",
                "lib/Sym.v: symbolic crypto; the verifier is an oracle (the set of (certificate bytes, public key) pairs it accepts): "
                "cert.CAPool.VerifyCertificate itself is the subject of C01/C02",
                "cert.Recombine is modelled as: parse in the format the payload's version names, refuse bytes carrying a key, install the peer "
                "static as public key, refuse another curve",
                "the overlay shims handshake/verif_noise.go (hs.PeerStatic accessor) and verif_noise_mgr.go (a node made of the real "
                "HandshakeManager, HostMap and PKI; reports what was installed in the main hostmap and what reached the socket)"],
    "assumptions": ["Noise IX guarantee (trusted, not proved): only the holder of the private half of a static key can produce a message 2 that "
                    "authenticates under DH with it, or compute session keys derived from DH with it",
                    "symbolic (Dolev-Yao) model of cryptography: hash / HKDF / AEAD / DH are free constructors up to DH commutativity",
                    "hs.PeerStatic() is the static key of the Noise exchange; the CertVerifier is a function of the recombined certificate",
                    "nebula configures Noise with an empty preshared key (no psk token), pattern IX"],
}

SPEC = {
    "title": "Handshake payload encoding is lossless and wire-compatible",
    "design_ref": "DESIGN.md section 4, C08",
    "technique": "Coq proof (round trip, forward/backward schema compatibility, rejection rules, unknown-field skipping, a cross-decoder agreement "
                 "theorem over all byte strings and the documented disagreement classes) over hand-written models of payload.go and of the "
                 "gogofaster-generated NebulaHandshake codec, both tied by differential correspondence evaluated in Coq (T3)",
    "level_text": "Machine-checked Coq theorems over all payloads (any cert bytes, 32-bit indexes/version, 64-bit time) and all byte strings: "
                  "unmarshal(marshal p) = p; the generated proto3 decoder reads marshal p as the same field values and marshal p is byte-identical to "
                  "the generated encoding; every well-formed schema message (Details present or not, Hmac, Cookie) written by the generated encoder is read "
                  "back field by field; a known field with a wrong wire type (Details fields and the outer Details field), a 32-bit field above 2^32-1, "
                  "input ending inside a varint, a length-delimited field running past the end all reject the message after any valid prefix; well-formed "
                  "unknown fields are skipped; whenever the parser (with a wire-type check on the two schema-only fields Hmac/Cookie) accepts ANY byte string, "
                  "the generated decoder accepts it with the same values; the disagreement classes (range-reject vs truncation, >64-bit varints, field numbers "
                  ">= 2^31, mismatched group ends, wrong wire type on Hmac/Cookie) are theorems with witnesses. The models are tied to handshake.MarshalPayload/"
                  "UnmarshalPayload and to the real generated NebulaHandshake.Marshal/Unmarshal by differential correspondence; panics are recovered and reported.",
    "level_note": "Trusted: Coq kernel; the harness printing Gallina literals; the correspondence is differential testing (valid, mutated, grammar-generated, "
                  "one-violation-per-rule and unknown-field-insertion inputs), so the link model<->Go is as strong as its generators. The generated codec is "
                  "regenerated from handshake/handshake.proto's schema with protoc-gen-gogofaster v1.3.2 (the generator of nebula.pb.go) and kept in the harness, "
                  "because nebula no longer ships it.",
    "gens": [],
    "props": ["props/C08.v"],
    "corr": ["corr/Payload_corr.v"],
    "comps": [{"comp": "payload", "n_quick": 1600, "n_thorough": 40000}],
    "trusted": ["model/Payload.v marshal_payload/unmarshal_payload are hand-written mirrors of handshake/payload.go (tied by correspondence)",
                "model/Payload.v schema_encode/schema_decode mirror go/cmd/harness/c_payload_pb.go, the gogofaster output for the NebulaHandshake schema (tied by correspondence)",
                "lib/Proto.v varint_dec/tag_dec/skip_field_pw mirror google.golang.org/protobuf/encoding/protowire v1.36.11; *_gogo mirror the inline loops and skipNebula of generated gogo code",
                "go/cmd/harness/c_payload_pb.go stands for the codec other nebula versions use (same schema, same generator, not the literal file of an old release)"],
    "assumptions": ["Go slices are shorter than 2^63 bytes (wf_payload / wf_msg and the `details < 2^64 bytes` premises)",
                    "a nil and an empty Cert are identified (both are [] in the model)"],
}

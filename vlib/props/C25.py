SPEC = {
    "title": "Accelerated checksum equals the RFC 1071 checksum",
    "design_ref": "DESIGN.md section 4, C25; Appendix A.6",
    "technique": "Coq proof that an instruction-level arithmetic model of checksumAVX2 (and a model of the gvisor fallback) returns exactly the "
                 "RFC 1071 one's-complement sum for every buffer and seed (one's-complement algebra in lib/Ones.v), tied to the real routines by a "
                 "differential correspondence evaluated in Coq (T3)",
    "level_text": "Machine-checked Coq theorems: for every byte buffer shorter than 2^34 bytes and every uint16 seed the model of the AVX2 routine "
                  "(byte-swapped seed, little-endian u32 loads into sixteen wrapping 64-bit lanes, horizontal reduction, ADDQ/ADCQ end-around adds for "
                  "the 8/4/2/1-byte tails, four fold stages, final byte swap) returns the same VALUE as the RFC 1071 reference - 0 only for all-zero "
                  "input, otherwise the representative in 1..0xffff; the same for the model of gvisor's Checksum at every address alignment and every "
                  "length. The models are tied to checksum.Checksum, checksumAVX2 (called directly) and the gvisor fallback by a differential "
                  "correspondence over all lengths 0..4096, start offsets 0..63, carry-heavy patterns and seeds; every observed value is also compared "
                  "with a textbook 16-bit one's-complement sum computed in Coq.",
    "level_note": "The assembly is modelled, not verified: registers are numbers, memory is a byte list, only the carry flag is represented; the "
                  "link model<->machine code is differential testing on this CPU (AVX2 present). checksum_arm64.s (NEON) is not modelled and cannot run here. "
                  "Beyond 2^34 bytes the 64-bit vector lanes can wrap (the theorem's bound); nebula never sums more than 64 KiB.",
    "gens": [],
    "props": ["props/C25.v"],
    "corr": ["corr/Csum_corr.v"],
    "comps": [{"comp": "csum", "n_quick": 2500, "n_thorough": 60000}],
    "trusted": ["model/Csum.v asm_csum is a hand-written instruction-level mirror of overlay/checksum/checksum_amd64.s (tied by correspondence on an AVX2 CPU)",
                "model/Csum.v gvisor_csum mirrors gvisor.dev/gvisor/pkg/tcpip/checksum (third-party, little-endian path; tied by correspondence)",
                "x86 semantics of VPMOVZXDQ/VPADDQ/VEXTRACTI128/VPSHUFD/ADDQ/ADCQ/XCHGB as written in the model comments"],
    "assumptions": ["buffer length < 2^34 bytes for the AVX2 routine (64-bit lane sums cannot wrap below that)",
                    "seed is a uint16 (init < 65536), buffer elements are bytes"],
}

SPEC = {
    "title": "The DNS responder answers only from authenticated data",
    "design_ref": "DESIGN.md section 4, C44",
    "technique": "Coq proof (record-provenance invariant over all handshake / reload / certificate histories, exact rcode rule for any question list, "
                 "case-insensitivity, TXT gate) on a hand-written model of dns_server.go tied to the code by a differential correspondence evaluated in Coq (T3)",
    "level_text": "Machine-checked Coq theorems over all histories of completed handshakes, config reloads and own-certificate replacements and all question lists "
                  "from all client addresses: every A/AAAA answer belongs to a question of that type and its name (up to case) and address come from one certificate of a "
                  "completed handshake or of the node itself; question lists differing only in case get the same rcode and records; rcode is NXDOMAIN if and only if every "
                  "question was looked at, no record was produced and none of the queried names is known (so NXDOMAIN only for unknown names; a known name lacking the "
                  "requested type gives NOERROR and an empty answer); TXT (certificate) answers only to loopback (127/8, ::1) or the node's own overlay addresses and only "
                  "a certificate of the history carrying the queried address. The model is tied to the real newDnsServerFromConfig / reload / seedSelf / Add (through "
                  "unlockedAddHostInfo) / parseQuery / handleDnsRequest by correspondence with dnsMap4/dnsMap6/selfHost compared after every operation.",
    "level_note": "Trusted: Coq kernel; harness and overlay shim (real dnsServer, real HostMap and certificates, fake dns.ResponseWriter; a done context keeps Start from binding a socket); "
                  "the model is hand-written and tied by differential testing. Names are ASCII byte strings (strings.ToLower on non-ASCII / invalid UTF-8 is outside the model); "
                  "dns.NewRR is assumed to accept the generated names and certificate JSON (observed: it does); the address QueryCert parses out of a TXT name is computed by the "
                  "harness with the same netip.ParseAddr; hostmap eviction beyond MaxHostInfosPerVpnIp tunnels per address and tunnel deletion are not modelled (they only remove "
                  "certificates from TXT lookups). Multi-question rule as implemented: a TXT question from a client that may not ask it ends processing with NOERROR whatever the names "
                  "(stated exactly in C44_rcode); over the wire miekg/dns refuses messages with more than one question and SetReply keeps only the first.",
    "gens": [],
    "build_comp": "dns",
    "props": ["props/C44.v"],
    "corr": ["corr/Dns_corr.v"],
    # dnsnet: the responder inside a network of real nodes (real handshakes in both directions: right host, wrong
    # responder, multi-address certificates, untrusted CA, blocklisted, own-address claim); its oracle (code 2) works on
    # the implementation's observations alone: answered addresses must be certificate addresses of established tunnels
    "comps": [{"comp": "dns", "n_quick": 120, "n_thorough": 3000},
              {"comp": "dnsnet", "n_quick": 60, "n_thorough": 1500}],
    "trusted": ["model/Dns.v (dns_add, seed_self, dstep, query, query_cert, client_ok, pq_loop, handle_request) is a hand-written mirror of dns_server.go / hostmap.go (tied by correspondence)"],
    "assumptions": ["dnsServer.Add is reached only through unlockedAddHostInfo, i.e. with the certificate of a completed handshake (C05/C09)",
                    "certificate and question names are ASCII",
                    "miekg/dns NewRR / Msg behave as documented (third-party library)"],
}

SPEC = {
    "title": "Certificate acceptance equals the documented trust rule",
    "design_ref": "DESIGN.md section 4, C01",
    "technique": "Coq proof (equivalence of the code's check sequence with the documented conjunction for all pools, blocklists, times and "
                 "certificates; invariant of AddCA; equivalence of the cached re-check with a full check) over a hand-written field-level model "
                 "of cert/ca_pool.go, tied to the code by a differential correspondence evaluated in Coq (T3)",
    "level_text": "Machine-checked Coq theorems for all pools, blocklists, evaluation instants (nanoseconds), certificates and signature "
                  "verdicts: VerifyCertificate accepts iff neither fingerprint form is blocklisted, the issuer is present in the pool, curves "
                  "agree, CA and certificate are valid at t (inclusive bounds), the signature verifies, and the certificate lies inside the "
                  "CA's window, group list, networks and unsafe networks (the rule is also given clause by clause as propositions, and "
                  "'inside a network range' is proved to be containment of address sets); AddCA keeps every key equal to the fingerprint of its CA; "
                  "a cached re-check against the same pool (any blocklist, any time) equals a full check with no assumption, and against any "
                  "pool built by AddCA it equals the documented rule in the new state under SHA-256 collision resistance (a premise). "
                  "The model is tied to CAPool.VerifyCertificate / VerifyCachedCertificate / AddCA by correspondence on real pools of 52 CAs "
                  "(v1/v2, Curve25519/P256, open/constrained/zero-length network and unsafe-network constraints of one or both families/expired/sub-second) and real signed leaves crossing every constraint, evaluated at "
                  "the validity boundaries, with fingerprint / twin-fingerprint blocklisting and reloaded pools between full and cached check; "
                  "the documented rule and 'cached = full' are evaluated on every real verdict. Pools with a verification history (a genuine leaf verified full and cached, then certificates that keep its signature bytes and issuer but change one identity field, and other genuine leaves, all on the SAME pool object) are checked for history independence: every verdict equals the documented rule and the verdict of a pool built afresh (C01_history_independent on the model side).",
    "level_note": "Trusted: Coq kernel; the hand-written model (mirrors the order of checks of CAPool.verify, checkCAConstraints, Expired, "
                  "netip.Prefix.Contains); the harness that translates real certificates to model records through the public Certificate interface; "
                  "SHA-256 and the signature primitives are oracles (real fingerprints and real CheckSignature verdicts are supplied as data); the twin fingerprint of a P-256 certificate is computed by the harness itself (ASN.1 (r, s) parsed with math/big, s -> n - s, re-encoded, Fingerprint() of a copy carrying that signature), not taken from CalculateAlternateFingerprint, and both S forms x blocklisting the presented / the other form are swept on the full and the cached check. "
                  "The correspondence is differential testing, bounded by its generators.",
    "gens": [],
    "build_comp": "certverify",
    "props": ["props/C01.v"],
    "corr": ["corr/Cert_corr.v"],
    "comps": [{"comp": "certverify", "n_quick": 3000, "n_thorough": 60000}],
    "trusted": ["model/Cert.v verify / verify_cached / add_ca / check_ca_constraints / covers are hand-written mirrors of cert/ca_pool.go and netip.Prefix.Contains (tied by correspondence)",
                "fingerprints (SHA-256) and signature verdicts enter the model as data supplied by the harness from the real code",
                "overlay shim cert/verif_certverify.go (VerifIssue seals certificates without SignWith's guards so that the verifier sees constraint violations; "
                "VerifCachedInternals / VerifBlocklist read unexported fields)"],
    "assumptions": ["C01_cached: fingerprints determine certificates on the set of existing certificates (SHA-256 collision resistance) - premise of the theorem",
                    "time.Time.After/Before order instants as their Unix nanosecond count (true for |unix seconds| < 2^63 - 62135596800; Go's internal second counter wraps beyond that)",
                    "netip.PrefixFrom strips zones, so certificate networks never carry one"],
}

SPEC = {
    "title": "Completed handshakes agree on keys and indexes",
    "design_ref": "DESIGN.md section 4, C06",
    "technique": "Coq proof by symbolic execution of the whole IX exchange (flynn/noise token interpreter + nebula handshake.Machine) over a "
                 "term algebra with DH commutativity, universally quantified over ciphers, curves, certificate versions, keys and index "
                 "allocators; tied to the code by a differential correspondence on real Machine pairs with real crypto evaluated in Coq (T3)",
    "level_text": "Machine-checked Coq theorem C06_agree for ALL configurations (cipher, curve, which certificate versions either node holds and "
                  "starts in - hence every version negotiation -, key values, allocator values, payload sizes): whenever initiator and responder "
                  "both complete over unmodified messages, each side's sending key equals the other side's receiving key and differs from its own "
                  "receiving key, each remote index is the peer's local index and is what the peer's allocator returned, no local index is zero "
                  "(a zero index cannot complete: the peer refuses it), both message counts are 2, message 1 carries header index 0 / counter 1 and "
                  "message 2 the initiator's index / counter 2, and each side reports a certificate bound to the other's static key. "
                  "All 64 suite x version combinations are shown to complete by computation (C06_nonvacuous).",
    "level_note": "Trusted: Coq kernel; the symbolic model of cryptography (keys are equal iff derived the same way; DH commutativity is the only "
                  "equation); model/Noise.v and model/Machine.v mirror flynn/noise state.go and handshake/machine.go, tied by the correspondence: "
                  "real handshakes for every curve x cipher x version setup plus a concurrent second session, key pairing observed with the real "
                  "noiseutil.CipherState (EncryptDanger with one side, DecryptDanger with every other machine: only the peer's opens it); "
                  "several Machines of one node on ONE shared handshake.Credential, two of them interleaved deterministically inside the window "
                  "between marshalOutgoing and noise WriteMessage (a hooked noise.DHFunc in the credential's cipher suite holds the first "
                  "GenerateKeypair until the other handshakes have marshalled), plus a free-running concurrent variant (supporting evidence). "
                  "Hypotheses of the theorem: both nodes announce the public half of their own private key, and one cipher/curve per network.",
    "gens": [],
    "props": ["props/C06.v"],
    "corr": ["corr/Noise_corr.v"],
    "build_comp": "noise",
    "comps": [{"comp": "noise_c06", "n_quick": 40, "n_thorough": 1500},
              # two REAL HandshakeManagers; the responder's crypto/rand index candidates are scripted to collide with a tunnel, a pending
              # handshake, both, or three times in a row; message 1 is retransmitted until the initiator completes, plus a late duplicate;
              # code 2 = the agreement predicate on the two hostmap dumps and on data packets sealed by either side
              {"comp": "noise_mgr06", "n_quick": 40, "n_thorough": 800}],
    "trusted": ["model/Noise.v, model/Machine.v: hand-written mirrors of flynn/noise v1.1.0 state.go (IX, no psk) and handshake/machine.go",
                "lib/Sym.v: symbolic crypto (free term algebra with DH commutativity)",
                "connection_state.go newConnectionStateFromResult is exercised only through noiseutil.NewCipherState(Result.EKey/DKey, Result.Cipher)"],
    "assumptions": ["symbolic (Dolev-Yao) model of cryptography: two derived keys are equal iff they were derived the same way; "
                    "DH(a, pub b) = DH(b, pub a)",
                    "every credential of a node announces the public key of the node's private key (honest_keys); one cipher and one curve per "
                    "network (same_suite)",
                    "the random source never fails",
                    "noise_mgr06: generateIndex reads exactly 4 bytes from crypto/rand.Reader per candidate (the harness scripts those reads)"],
}

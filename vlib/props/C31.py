SPEC = {
    "title": "Concurrent handshakes converge to one working tunnel",
    "design_ref": "DESIGN.md section 4, C31",
    "technique": "Coq proof (invariant over all schedules of a two-node model) + generated swap-rule table (T2) and constants (T1) + "
                 "differential correspondence of the model with two real nodes driven event by event on the e2e in-memory network (T3, netsim)",
    "level": "partial",
    "level_text": "Machine-checked Coq theorems over ALL schedules (every order, duplication and loss of stage-1, stage-2, data, test and recv_error "
                  "packets of any number of initiations and re-handshakes, with handshake-timer and connection-manager callbacks firing at any "
                  "time) of a two-node model of HandshakeManager / HostMap / connectionManager: (1) a swap decision requires the peer's overlay "
                  "address >= ours, addresses are totally ordered, hence in no reachable state have both nodes decided swapPrimary and the node "
                  "with the larger address never does; (2) any two tunnels on opposite nodes with the same session are each other's ends "
                  "(local = remote, remote = local, opposite roles); an initiator-side tunnel's other end is held by the peer or was removed by "
                  "it; a responder-side tunnel's handshake is the peer's pending one or was finished by the peer; (3) whenever the peer holds "
                  "the other end of a node's primary, an inside packet sent now comes out of the peer's tun when delivered, in both directions; "
                  "(4) PARTIAL: without a handshake packet being delivered no event adds a tunnel and a matched single pair stays matched; "
                  "convergence under fairness is NOT proved - a theorem exhibits a fair schedule (every packet delivered, every tunnel checked "
                  "every round, traffic both ways) that cycles for ever in the model, where the timer wheel is abstracted to 'may fire at any "
                  "time'. The netsim component checks the convergence clause on the real code with the REAL timer wheel driven by a virtual "
                  "clock: quiet loss-free network + traffic both ways => one matching tunnel each within 40 s virtual; and, in the boundary/random "
                  "family 'first data packet on one tunnel lost, swap, peer silent, quiet intervals, then traffic', after the quiet intervals both nodes "
                  "still hold a tunnel, their primaries are each other's ends, and data sent afterwards is delivered.",
    "level_note": "Trusted: Coq kernel; the hand-written two-node model (tied to two real nodes built by nebula.Main - real Interface, HostMap, "
                  "HandshakeManager, connectionManager, firewall, certificates, noise handshakes and AEAD - by replaying each schedule on the "
                  "model inside Coq and comparing pending entry, hostmap order, flags, counters, emitted packets and tun output after EVERY "
                  "event); the harness plays the reader goroutines and timers synchronously (readOutsidePackets / consumeInsidePacket / "
                  "handleOutbound / doTrafficCheck are the real functions). Model scope: one peer, valid certificates, counters far from "
                  "exhaustion, punchy and drop_inactive off, recv_error always, no relays, no roaming; local indexes never reused within a "
                  "run; fewer packets per tunnel than the replay window.",
    "gens": ["gen_converge"],
    "props": ["props/C31.v"],
    "corr": ["corr/Converge_corr.v"],
    "build_comp": "convergenet",
    "comps": [{"comp": "converge", "n_quick": 400, "n_thorough": 6000},
              {"comp": "convergenet", "n_quick": 36, "n_thorough": 400, "e2e": True}],
    "trusted": ["model/Converge.v is a hand-written mirror of handshake_manager.go / hostmap.go / connection_manager.go / outside.go / inside.go "
                "for one peer (tied by the netsim correspondence after every event)",
                "gen/Tab_Converge.v: the real shouldSwapPrimary on all 24 feature rows, 6 concrete situations each (translator by exhaustive "
                "evaluation; soundness of the abstraction sampled, not proved), plus MaxHostInfosPerVpnIp, maxCachedPackets",
                "go/overlay/_root/verif_convergenet.go drives a node built by nebula.Main without starting its reader and timer goroutines; "
                "the harness calls the same functions those goroutines call",
                "timer wheels are abstracted in the model (callbacks may fire at any time); the netsim schedules use the real connection "
                "manager wheel with a virtual clock"],
    "assumptions": ["overlay addresses of the two nodes are distinct (self handshakes are refused, C09)",
                    "a stage-0 packet / a responder completion is identified by a fresh id (ephemeral keys do not repeat)",
                    "AEAD: a packet decrypts exactly under the session it was encrypted for (C05/C15 territory)",
                    "local indexes handed out by generateIndex are not reused while packets naming them are in flight (probability 2^-32 per allocation)"],
}

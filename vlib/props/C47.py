SPEC = {
    "title": "The packet header encoding is exact",
    "design_ref": "DESIGN.md section 4, C47",
    "technique": "Coq proof (round trip, length, prefix-dependence theorems) over a model tied by a generated exhaustive table (T2) and differential correspondence evaluated in Coq (T3)",
    "level_text": "Machine-checked Coq theorems over all field values and all byte strings: encode/parse round trip with reserved=0, "
                  "parse refuses exactly inputs shorter than 16 bytes and depends only on the first 16, and the valid (type, subtype) set equals the "
                  "documented list, the set being regenerated on every run by evaluating the real IsValidSubType on all 65536 pairs. "
                  "The hand-written encode/parse model is tied to header.Encode / H.Parse by a differential correspondence.",
    "level_note": "Trusted: Coq kernel; the harness that enumerates IsValidSubType and prints Gallina literals; the correspondence is differential testing (random + edge-biased), "
                  "so the link model<->Go for Encode/Parse is as strong as its generator.",
    "gens": ["gen_header"],
    "props": ["props/C47.v"],
    "corr": ["corr/Header_corr.v"],
    "comps": [{"comp": "header", "n_quick": 6000, "n_thorough": 120000}],
    "trusted": ["model/Header.v encode/parse are hand-written mirrors of header.Encode/H.Parse (tied by correspondence)",
                "gen/Tab_Header.v is produced by evaluating header.IsValidSubType on all 256x256 inputs (translator by exhaustive evaluation)"],
    "assumptions": ["encoding/binary.BigEndian behaves as big-endian fixed-width encoding"],
}

SPEC = {
    "title": "Tunnel teardown decisions follow the liveness policy",
    "design_ref": "DESIGN.md section 4, C30",
    "technique": "Coq proof by reflection over a complete decision table generated from the real code on every run (T2), lifted to all "
                 "histories of checks by induction; constants via T1; table-driven model tied to doTrafficCheck by a differential "
                 "correspondence evaluated in Coq (T3), with the property's clauses evaluated on the implementation's own outputs",
    "level_text": "Machine-checked Coq theorems. Per check, for ALL combinations of (peer certificate none/valid/blocklisted/invalid, "
                  "disconnect_invalid, counter exhausted, primary, inbound, outbound, pendingDeletion, drop_inactive, idle >= timeout, swap "
                  "eligible): blocklisted => closed; invalid => closed iff disconnect_invalid (otherwise treated exactly as valid); exhausted => "
                  "dropped; pendingDeletion and no inbound => dropped; closed for idleness only if primary, drop_inactive and idle >= timeout; "
                  "inbound traffic with a good certificate and counter => kept, unmarked, re-armed with the check interval; removed exactly when "
                  "one of the four reasons holds; re-handshake attempted exactly on checks of a primary with inbound traffic and started exactly "
                  "when the own certificate is gone / re-issued / older than the initiating version, the peer's version is higher and held, or "
                  "the counter passed the rekey threshold. For ALL histories (induction): traffic since the previous check => the tunnel "
                  "survives the check; probe sent and nothing received => deleted at the next check; an idle primary is closed only with "
                  "drop_inactive and no earlier than the inactivity timeout after every earlier check that saw traffic. The decision table "
                  "(1536 + 24 + 12 rows) is regenerated on every run by calling the real makeTrafficDecision, doTrafficCheck, tryRehandshake "
                  "and shouldSwapPrimary on >= 3 different concrete situations per row (real HostMap, CAPool, signed certificates, config "
                  "reload path, recording sockets); rows whose situations disagree fail the run.",
    "level_note": "Trusted: Coq kernel; the generator and shim that build the situations and abstract the effects; the abstraction (the listed "
                  "features are all the function reads) is tested by >= 3 situations per row, not proved. The per-tunnel state threading between "
                  "checks (pendingDeletion, in/out flags, lastUsed, hostmap membership, primary order) is hand-written and tied by differential "
                  "testing of random histories through the real doTrafficCheck. Hostinfos in the hostmap are assumed to carry a ConnectionState; "
                  "a counter of exactly RejectAfterMessages-1 (not exhausted, next send refused) is not sampled.",
    "gens": ["gen_connmgr"],
    "props": ["props/C30.v"],
    "corr": ["corr/ConnMgr_corr.v"],
    "build_comp": "connmgr",
    "comps": [{"comp": "connmgr", "n_quick": 100, "n_thorough": 1500}],
    "trusted": ["gen/Tab_ConnMgr.v is produced by evaluating the real makeTrafficDecision / doTrafficCheck / tryRehandshake / shouldSwapPrimary "
                "on every abstract row, >= 3 concrete situations each (translator by exhaustive evaluation); soundness of the abstraction is "
                "sampled, not proved",
                "model/ConnMgr.v step/wstep (state carried between checks, primary order) are hand-written and tied by the history correspondence",
                "go/overlay/_root/verif_connmgr.go replaces the AEAD by a stand-in cipher and the sockets by recorders; certificates, CA pool, "
                "hostmap, punchy, config reload and the connection manager are the real ones"],
    "assumptions": ["every HostInfo in HostMap.Indexes has a non-nil ConnectionState (set by handshake completion before insertion)",
                    "the message counter never exceeds RejectAfterMessages by 2^40 or more (NextMessageCounter pins it), so counter+1 does not wrap",
                    "cert.CAPool.VerifyCachedCertificate decides validity/blocklisting of the recorded peer certificate (exercised for real, not modelled)"],
}

SPEC = {
    "title": "Stopping a node at any point releases everything",
    "design_ref": "DESIGN.md section 4, C49",
    "technique": "Coq proof over all operation sequences of a model of the Control state machine plus the activity table (goroutine classes "
                 "with exit guards, resources with closers) as data; the table and the state machine are tied to the code by (a) random "
                 "operation sequences on the real Control/Interface over recording device and sockets and (b) a goroutine census by creation "
                 "site and stop observations on real multi-node scenarios (netsim), both evaluated in Coq",
    "level": "partial",
    "level_text": "Machine-checked Coq theorems for EVERY configuration (any number of readers, lighthouse workers, conntrack tickers, DNS responder, "
                  "sshd; any number of configured routines = udp listeners, any number of queues the device really opens, udp backend readable by "
                  "several goroutines or not) and EVERY sequence of Start (succeeding or failing in activation), Stop (atomic or split where it releases the state "
                  "lock, so other calls interleave), RebindUDPServer and fatal reader errors: whenever the state is Stopped every goroutine's exit "
                  "guard holds and every resource ever opened is closed (context cancelled, sockets, tun, construction token, DNS server, sshd "
                  "listener); a Stop from any reachable state ends Stopped and released (a Stop racing a half-way Stop returns at once and the "
                  "first one's completion releases); a second Stop is a no-op and nothing restarts, reopens or re-closes afterwards; a Start "
                  "whose activation fails releases what Main acquired; every udp listener Main opened is closed once Stopped, also those that "
                  "never got a reader because activate clamped the routines (ledger: each listener and device queue the node was given is tracked "
                  "by the harness itself, independent of what the interface still references, over routines 1-4 x device queues 1..routines x "
                  "multi-reader yes/no x stop before Start / right after / after use, and on real nodes with routines 1-4); Stop's tunnel-closing phase (context already cancelled, interface not yet closed) "
                  "performs no channel send that only a cancelled goroutine could serve: the one such channel is the lighthouse query channel, and a "
                  "table regenerated on every run from the real Interface.send (every message type x rebind state x node kind) shows a CloseTunnel "
                  "never queues a lighthouse query, while in state Stopping such a send would have no live receiver. PARTIAL by design: the theorems are about the lifecycle logic and the "
                  "table; that a goroutine really returns when its guard holds is the modelling assumption the netsim validates: at each phase of "
                  "9 scenario families (stop before start, right after start, mid-handshake, live tunnel under traffic, relayed tunnel, during "
                  "config reloads, queued lighthouse work, failed start, rebind + more idle tunnels than handshakes.query_buffer + stop with its three "
                  "controls, random configurations) the goroutines found running, by creation "
                  "site, must equal the model's activity set, and after Stop + Wait no goroutine of the node may remain, context, sockets and "
                  "tun must be closed, Stop and Wait must return within 5 s (observed: milliseconds).",
    "level_note": "Trusted: Coq kernel; the hand-written state machine (tied by differential testing of operation sequences on the real Control, "
                  "including concurrent Stop/Start rounds checked for the final state) and the hand-written activity table (validated by the "
                  "census at every phase: a goroutine class missing from or wrongly described in the table fails the census); the Go runtime "
                  "(scheduler, channel and context semantics) and the in-memory udp/tun doubles of the e2e build (the tun double is replaced by one "
                  "that does not panic when written to while closing). Not covered: the real Linux tun/udp backends, stats and pprof servers.",
    "gens": ["gen_lifecycle"],
    "props": ["props/C49.v"],
    "corr": ["corr/Lifecycle_corr.v"],
    "build_comp": "lifecyclenet",
    "comps": [{"comp": "lifecycle", "n_quick": 250, "n_thorough": 4000},
              {"comp": "lifecyclenet", "n_quick": 1, "n_thorough": 6, "e2e": True, "timeout": 900}],
    "trusted": ["gen/Tab_Lifecycle.v: entries put into LightHouse.queryChan by the real Interface.send on 28 situations (translator by exhaustive evaluation)",
                "model/Lifecycle.v: Control.Start/Stop/RebindUDPServer, Interface.Close and onFatal written by hand (tied by the lifecycle correspondence)",
                "model/Lifecycle.v table: goroutine classes, multiplicities, guards and closers written by hand from main.go, control.go, interface.go, "
                "lighthouse.go, connection_manager.go, firewall/cache.go, dns_server.go, ssh.go, sshd/server.go (validated by the census)",
                "runtime.Stack parsing and goroutine attribution in go/cmd/harness/c_lifecyclenet.go"],
    "assumptions": ["a goroutine whose exit guard holds (context cancelled, socket closed, tun closed, server shut down) returns: validated on the running "
                    "code within 3 s after every Stop, not proved",
                    "udp.Conn.Close / Device.Close unblock their readers (true of the e2e doubles; the production backends are outside the check)"],
}

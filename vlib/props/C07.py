SPEC = {
    "title": "A rejected handshake message never wedges the handshake",
    "design_ref": "DESIGN.md section 4, C07 (and Appendix A.7)",
    "technique": "Coq proof over a symbolic (Dolev-Yao term algebra) model of flynn/noise ReadMessage/WriteMessage, including where the "
                 "library does and does not roll back, with nebula's handshake.Machine on top; tied to the code by a differential "
                 "correspondence on real Machine pairs with real crypto, evaluated in Coq (T3)",
    "level_text": "Machine-checked Coq theorems for ALL packets (any header, any term as noise message: every prefix, truncation, corruption, "
                  "splice, substitution, invalid or low-order ephemeral) and all reachable machine states: a packet that is rejected while "
                  "Failed() stays false leaves the machine equal on everything a later call reads (C07_unchanged; the fields excluded - re, and "
                  "k/n/hasK while waiting for message 2 - are overwritten by every IX message before being read, lemma read_canon); equivalent "
                  "machines answer every later packet identically, same output packet and same Result (C07_equiv_indistinguishable); hence after "
                  "any number of such rejections the genuine message is processed exactly as if they had never arrived (C07_as_if); a failed "
                  "machine refuses every input (C07_failed_refuses); the transcript-hash test of the F5 repair is exact (C07_hash_test_sound). "
                  "Non-vacuity and the two reproduced F5 inputs (40-byte prefix, small-order ephemeral) are checked by computation.",
    "level_note": "Trusted: Coq kernel; the symbolic-model assumption (hash/HKDF/AEAD/DH are free constructors: no collisions, AEAD opens only "
                  "under its own key/nonce/ad); that model/Noise.v mirrors flynn/noise v1.1.0 state.go and model/Machine.v mirrors "
                  "handshake/machine.go - tied by the correspondence (every truncation length of both messages on both curves and ciphers, "
                  "region flips, low-order / off-curve ephemerals, splices, replays, payload rewrites), which is differential testing and as "
                  "strong as its generator. The model holds the code as repaired by F5; without the repair C07_unchanged is false "
                  "(witness in C07Ex.wedged_noise_state).",
    "gens": [],
    "props": ["props/C07.v"],
    "corr": ["corr/Noise_corr.v"],
    "build_comp": "noise",
    "comps": [{"comp": "noise_c07", "n_quick": 110, "n_thorough": 4000},
              # the pending handshake of a REAL HandshakeManager: rejected stage-2 packets arrive from a foreign underlay address (or
              # through a foreign relay) carrying the right initiator index; everything observable about the pending HandshakeHostInfo
              # (remote, relays, remote list, retry counter, stored packets, index) must be identical before and after each of them, and
              # the genuine answer must complete towards the genuine address / relay; responder variant: manipulated message 1s
              {"comp": "noise_mgr07", "n_quick": 80, "n_thorough": 1500}],
    "trusted": ["model/Noise.v is a hand-written mirror of flynn/noise v1.1.0 HandshakeState.ReadMessage/WriteMessage, symmetricState "
                "(MixHash, MixKey, EncryptAndHash, DecryptAndHash, Split, Checkpoint, Rollback) for the IX pattern without psk",
                "model/Machine.v is a hand-written mirror of handshake/machine.go (NewMachine, Initiate, ProcessPacket, processPayload, "
                "validateCert, requireComplete, completed, marshalOutgoing, buildResponse)",
                "lib/Sym.v: symbolic crypto (free term algebra with DH commutativity, byte lengths, cutting at arbitrary offsets)",
                "the overlay shim handshake/verif_noise.go (PeerStatic accessor) and the harness' description of real packets as model pieces"],
    "assumptions": ["symbolic (Dolev-Yao) model of cryptography: SHA-256 / HKDF / AEAD / DH outputs collide only when built the same way; "
                    "an AEAD ciphertext opens only under the key, nonce and associated data it was made with",
                    "X25519 refuses exactly the small-order points; crypto/ecdh P-256 accepts only encodings of curve points; bytes that are "
                    "not a key somebody generated are never a valid P-256 point",
                    "nebula configures Noise with an empty preshared key and placement 0 (no psk token), pattern IX",
                    "the random source never fails (GenerateKeypair errors are not modelled)"],
}

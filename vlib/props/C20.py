EXT = (0, 43, 44, 51, 60)


def classify(rec):
    """Known finding F18: an accepted NON-first IPv6 fragment reported with an extension header number as protocol."""
    c = rec.get("case") or {}
    if c.get("v") == 6 and c.get("ok") and c.get("frag") and c.get("proto") in EXT:
        return "v6-nonfirst-fragment-names-extension-header"
    return None


SPEC = {
    "title": "Packet classification matches what the host will process",
    "design_ref": "DESIGN.md section 4, C20",
    "technique": "Coq proof over all byte strings and both directions: the model of newPacket/parseV4/parseV6/IPv6FindUpperProtocol "
                 "(offset based, bounded walk, every read bounds-checked) is proved equal to an independent list-consuming reference parser "
                 "with an unbounded extension header walk, up to the walker's limit; the walker's limit and its set of extension headers are "
                 "measured on the compiled function on every run (T1/T2); the model is tied to the real newPacket by a differential "
                 "correspondence evaluated in Coq (T3), where the reference parser is also run against the implementation's output",
    "level_text": "Machine-checked Coq theorems for every byte string: the model never fails a bounds check (returns a classification or an error); "
                  "an accepted packet carries exactly the addresses, protocol, ports / ICMP identifier, fragment flags and header length the reference "
                  "parser finds, oriented for the direction; everything the reference parser resolves is accepted unless its IPv6 chain exceeds the "
                  "walker's limit; unresolvable packets (truncated anywhere, extension header running past the end, chain longer than the limit) are "
                  "rejected; for IPv6 the reported protocol is never one of the extension headers {0,43,44,51,60} outside the region of known "
                  "finding F18 (a NON-first fragment whose fragment header itself names an extension header), for which the refutation is proved "
                  "with a concrete witness; TCP/UDP ports are the big-endian words at the reported header length. The model is tied to newPacket by "
                  "correspondence on truncation sweeps of base packets at every length, every IHL / protocol / version / next-header / fragment-bit / "
                  "ICMPv6-type value, chains of 0..12 headers of every kind, and random structured and unstructured packets.",
    "level_note": "Trusted: Coq kernel; the hand-written model (mirrors each length check and read of the Go code); the reference parser's rules as "
                  "listed in model/IpParse.v (RFC 791 / 8200 / 4302; the IPv4 total-length and IPv6 payload-length fields are not consulted, by either side; "
                  "IPv4 reports the first four payload bytes as ports for every non-ICMP protocol and the identifier word for every ICMP type, as the code does); "
                  "the harness/overlay shim; the correspondence is differential testing. Panic freedom of the Go code itself is observed by the harness "
                  "(recover(), slices with cap == len) and proved for the model.",
    "gens": ["gen_ipparse"],
    "build_comp": "ipparse",
    "props": ["props/C20.v"],
    "corr": ["corr/IpParse_corr.v"],
    "comps": [{"comp": "ipparse", "n_quick": 4000, "n_thorough": 120000}],
    "trusted": ["model/IpParse.v parse/parse_v4/parse_v6/find_upper are hand-written mirrors of newPacket/parseV4/parseV6/IPv6FindUpperProtocol (tied by correspondence)",
                "gen/Consts_IpParse.v: walker limit (probed with chains of 0..40 headers of every walked kind), set of walked next-header values (all 256 probed), minFwPacketLen"],
    "assumptions": ["packet bytes are below 256 (bytes_ok)",
                    "Go ints do not overflow: offsets stay below 40 + limit*2048",
                    "netip.AddrFromSlice keeps the 4 or 16 address bytes unchanged"],
    "classify": classify,
}

SPEC = {
    "title": "Tampered certificates are rejected",
    "design_ref": "DESIGN.md section 4, C02",
    "technique": "Coq proof (injectivity of the signed bytes of both certificate versions on everything signing issues and the decoders return, "
                 "disjointness of v1 and v2 signed messages, the tamper theorem under an explicit unforgeability premise, involution of the "
                 "P-256 low/high-S twin on DER signature encodings, the blocklist rule for the two fingerprints) over the codec models of C03 "
                 "plus a model of cert/p256 Swap, tied to the code by a differential correspondence evaluated in Coq (T3)",
    "level_text": "Machine-checked Coq theorems, closed under the global context: the bytes a v2 certificate's signature covers "
                  "(rawDetails, curve byte, public key) and the bytes a v1 certificate's signature covers (the re-marshalled details) each "
                  "determine name, networks, unsafe networks, groups, CA flag, validity, issuer, curve and public key, for every certificate "
                  "SignWith issues and every certificate any decoder returns (the premises wf_v2 / fields_v1_ok are proved of both); a v1 signed "
                  "message is never a v2 signed message. Hence, under the premise that the only (message, signature) pairs valid under the CA "
                  "key are issued messages with their signature or its P-256 twin, ANY bytes that decode through any entry point, in the standard "
                  "or the handshake encoding, to a certificate on the CA's curve whose signature verifies carry the identity of an issued "
                  "certificate and that certificate's signature or its twin. The twin s -> n - s is an involution without fixed point on "
                  "0 < s < n and p256.Swap is an involution on the DER encodings of such signatures; the alternate fingerprint of a certificate "
                  "is the fingerprint of its twin-signed form and vice versa, so either fingerprint on the blocklist fails both. "
                  "Tie: real v1/v2 leaves on both curves under real CAs, tampered (byte flip/set/insert/delete/truncate/extend/duplicate, tolerated and "
                  "content-changing re-encodings with repaired lengths, protobuf-structured tampering of v1 (a swept extra occurrence of the outer Details field "
                  "setting each identity field alone and all together, in front / after / after the signature, in both encodings; extra scalar, repeated, "
                  "Signature and unknown fields; the model mirrors proto.Unmarshal's merge, so such input decodes to the MERGED identity whose re-marshalled "
                  "details are the signed bytes) and the DER analogues for v2 (second details / field / key / signature element, swapped elements), twin and foreign signatures, foreign key and curve) in both encodings, "
                  "through UnmarshalCertificateFromPEM / Recombine / CAPool.VerifyCertificate and VerifyCachedCertificate on three pools per tampered input: a fresh "
                  "pool, the leaf's ONE long-lived pool (which verified the genuine certificate first and every earlier tampered encoding), and the CA's shared "
                  "pool interleaved with other genuine leaves of that CA; verdicts must not depend on verification history (C02_history_independent, trivial in "
                  "the stateless model, checked on the implementation: the three verdicts must agree and genuine certificates must stay accepted); the model decoders agree "
                  "with the implementation on every tampered input, and 'accepted => identity unchanged and signature in {issued, twin}, and either "
                  "fingerprint on the blocklist refuses it' is evaluated on the implementation's verdicts of all three pools (code 2).",
    "level_note": "Trusted: Coq kernel; the codec models (tied by the C03 correspondence as well); unforgeability of Ed25519 / ECDSA-P256 with SHA-256 "
                  "and 'the CA key signs only through SignWith' are premises of C02_tamper, not proved; SHA-256 is a parameter; the group order "
                  "n is written into the model (checked against p256.Swap by the correspondence). The correspondence is differential testing, "
                  "bounded by its generators.",
    "gens": [],
    "build_comp": "certtamper",
    "props": ["props/C02.v"],
    "corr": ["corr/CertTamper_corr.v"],
    "comps": [{"comp": "certtamper", "n_quick": 1600, "n_thorough": 40000}],
    "trusted": ["model/CertTamper.v parse_sig / swap_s / encode_sig / twin mirror cert/p256/p256.go (tied by correspondence on p256.Swap); check_signature / fp2 / "
                "blocklist_pass mirror CheckSignature, CalculateAlternateFingerprint and the blocklist tests of ca_pool.go",
                "model/CertCodec.v tbs_v1 / tbs_v2 are the bytes marshalForSigning hands to the signer (compared byte for byte in the C03 correspondence)",
                "overlay shim cert/verif_certcodec.go VerifCodecWithSignature (a copy of a certificate carrying another signature) and VerifCodecRawDetails"],
    "assumptions": ["C02_tamper, premise Unforgeable: the only (message, signature) pairs that verify under the CA key on the CA's curve are issued messages with "
                    "the signature issued for them or, on P-256, its low/high-S twin",
                    "C02_tamper, premise issued_signed: every certificate the CA key signed came out of SignWith on the CA's curve",
                    "C02_tamper / C02_tbs_v1_injective: the re-marshalled v1 details are shorter than 2^63 bytes (a Go slice)",
                    "C02_twin_involutive: the signature is a byte string of at most 65536 bytes (real ones have about 72)",
                    "the premises are satisfiable: Example C02_nonvacuous"],
}

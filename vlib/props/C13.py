def classify(case):
    return None


SPEC = {
    "title": "Nonces are never reused and the counter ceiling is enforced",
    "design_ref": "DESIGN.md section 4, C13; Appendix A.5",
    "technique": "Coq proof over every interleaving (invariants by induction over arbitrary schedules of an atomic-step model of the "
                 "message counter, write lock and send paths) with constants generated from the code (T1) and a differential "
                 "correspondence of the model with the real send paths, evaluated in Coq (T3)",
    "level_text": "Machine-checked Coq theorems for every schedule, every number of threads and every list of sends per thread, from any "
                  "state with no send in flight, under the stated headroom assumption (the run is shorter than the 2^40 gap between the "
                  "ceiling and the uint64 wrap): nonces that reach the AEAD are pairwise distinct, strictly above the starting counter "
                  "(hence above the handshake's message index) and strictly below RejectAfterMessages; once the counter has reached the "
                  "ceiling every later reservation is at or above it and only counters reserved earlier can still be encrypted; with the "
                  "write lock the nonces reach the cipher in strictly increasing order. RejectAfterMessages (nebula and noiseutil), "
                  "RejectHeadroom, RehandshakeAfterMessages and ReplayWindow are regenerated from the code on every run and pinned to their "
                  "documented values. The model is tied to connection_state.go / inside.go / noiseutil by scripted interleavings of the real "
                  "sendInsideEncrypt, sendNoMetrics and prepareSendVia on one ConnectionState (granularity: reserve | encrypt), in normal "
                  "and FIPS mode, and the property's executable specification is evaluated on every nonce the real code handed to the cipher. "
                  "System level (component sysmon_C13): in seeded event histories of four real nodes built by nebula.Main the message counters of all encrypted datagrams a node puts on the wire are pairwise distinct per sending tunnel (relay packets are counted on the tunnel whose key signs them).",
    "level_note": "Trusted: Coq kernel; the harness, the overlay shim and the recording cipher wrapper. The interleaving between the Add and "
                  "the Store inside NextMessageCounter cannot be scripted on the real code (no hook) and is covered by the proof and by the "
                  "concurrent stress runs only. The correspondence is differential testing (boundary sweep + random), so the link model<->Go "
                  "is as strong as its generator. The theorems assume Go's atomic.Uint64 Add/Store/Load are linearizable and sync.Mutex gives "
                  "mutual exclusion.",
    "build_comp": "nonce",   # build tag comp_nonce (used when some other component's files stop compiling)
    "gens": ["gen_nonce"],
    "props": ["props/C13.v"],
    "corr": ["corr/Nonce_corr.v"],
    "comps": [{"comp": "nonce", "n_quick": 500, "n_thorough": 20000},
              {"comp": "nonce_fips", "n_quick": 150, "n_thorough": 6000}, {"comp": "sysmon_C13", "e2e": True, "n_quick": 12, "n_thorough": 150}],
    "trusted": ["model/Nonce.v is a hand-written mirror of NextMessageCounter and of the three shapes of send path in inside.go "
                "(every caller of eKey.EncryptDanger), tied by the correspondence",
                "gen/Consts_Nonce.v is printed by the harness from the constants compiled in from /repo",
                "the FIPS configuration is reached by re-executing the harness with GODEBUG=fips140=on"],
    "assumptions": ["sync/atomic Uint64.Add/Store/Load are atomic (linearizable) and wrap modulo 2^64",
                    "sync.Mutex provides mutual exclusion (write lock)",
                    "headroom: max(start, ceiling) + number of atomic steps in the run < 2^64 (fewer than 2^40 steps after the ceiling); "
                    "C13_headroom_needed shows it cannot be dropped",
                    "one ConnectionState = one key: uniqueness is per tunnel; handshake messages use the handshake's own keys"],
    "classify": classify,
}

SPEC = {
    "title": "Local tunnel indexes are unique and never zero",
    "design_ref": "DESIGN.md section 4, C28 / C29",
    "technique": "Coq proof over all operation histories and all index candidate streams on the hand-written model of the pending and main "
                 "index maps and the relay index map, tied to the code by differential correspondence over operation histories with a scripted "
                 "crypto/rand (T3) and a generated constant (T1)",
    "level_text": "Machine-checked Coq theorems: in every state and for every candidate stream (zeros, repeats, collisions) an index handed out by "
                  "allocateIndex, by the responder path (generateIndex + CheckAndComplete) or by AddRelay is non-zero and not held in its namespace "
                  "(C29_handed_out_*); after every history 0 is in no index map, the pending and main maps are disjoint, every entry is keyed by "
                  "the local index of the tunnel it points to and relay indexes of live tunnels map to them (C29_unique_nonzero), so two tunnels "
                  "held at the same time never share a local index (C29_distinct_tunnels_distinct_indexes); in every step an index leaves the "
                  "pending+main namespace or the relay namespace only together with its owner, and a RemoteIndexes entry disappears only together "
                  "with the tunnel it pointed to (C29_release_only_owner). The executable predicates evaluated on the implementation's dumps are "
                  "implied by these propositions (C29_exec). "
                  "System level (component sysmon_C29): the canonical dumps of the main hostmap, relay indexes and pending maps of four real nodes built by nebula.Main, taken after every driver call of seeded event histories, are evaluated in Coq with the same executable predicates (idxb on every dump, releaseb between successive dumps).",
    "level_note": "Trusted: Coq kernel; the overlay shim (real allocateIndex / generateIndex / CheckAndComplete / Complete / AddRelay / delete "
                  "paths with crypto/rand.Reader replaced by a scripted stream for the duration of a call) and the harness; the model<->Go link is "
                  "differential testing. Concurrency is not modelled: each entry point is atomic under the hostmap and handshake-manager locks. "
                  "The model holds the code as repaired by fix F16.",
    "gens": ["gen_hostmap"],
    "props": ["props/C29.v"],
    "corr": ["corr/HostMap_corr.v"],
    "comps": [{"comp": "hostmap_idx", "n_quick": 300, "n_thorough": 6000}, {"comp": "hostmap_rx", "n_quick": 160, "n_thorough": 3000}, {"comp": "sysmon_C29", "e2e": True, "n_quick": 12, "n_thorough": 150}],
    "build_comp": "hostmap",
    "trusted": ["the component hostmap_rx runs the same histories on a node with a real PKI, the pending operations going through the timer routine's handleOutbound (handshake.Machine -> allocateIndex; timeout), HandleIncoming -> beginHandshake, and continueHandshake called with the handshake pointer the rx routine resolved earlier (authenticated replies for current, timed-out, abandoned and re-issued handshakes), so continueHandshake's own still-tracked test is under test instead of a guard in the harness",
                "model/HostMap.v mirrors allocateIndex (32 tries, pending and main map checked), generateIndex (zero skipped), CheckAndComplete's "
                "ErrLocalIndexCollision checks, Complete, AddRelay (32 tries, promotion first) and both unlockedDeleteHostInfo functions; tied by "
                "the correspondence",
                "a second allocateIndex for the same pending hostinfo (handshake.Machine.Initiate failing after the allocation) is not modelled: "
                "it cannot be forced without breaking noise, and would leave the first index in the pending map",
                "the candidate stream of the model is the sequence of 32-bit values the implementation actually consumed (recorded by the shim)"],
    "assumptions": ["crypto/rand.Read delivers the bytes of crypto/rand.Reader",
                    "operations are atomic under the hostmap and handshake-manager locks"],
}

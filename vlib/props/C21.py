SPEC = {
    "title": "Reject replies are well formed and never answer errors or fragments",
    "design_ref": "DESIGN.md section 4, C21",
    "technique": "Coq proof over all packets and all output buffer capacities on a hand-written model of iputil.CreateRejectPacket and its helpers "
                 "(every read bounds-checked, checksums through the RFC 1071 library lib/Ones.v), against an independent validator that decodes the "
                 "reply and recomputes every checksum; the documented maximum size is regenerated from the code (T1); the model is tied to the real "
                 "CreateRejectPacket by a differential correspondence evaluated in Coq (T3), where the validator is also run on the implementation's replies",
    "level_text": "Machine-checked Coq theorems for every byte string and every capacity: the model never fails a bounds check; every reply it produces "
                  "passes the validator - IPv4: 0x45, total length = byte length, unfragmented, valid header checksum, addresses swapped; IPv6: zero "
                  "class/flow, payload length = byte length - 40, addresses swapped; to TCP a 20-byte reset with swapped ports, valid checksum over the "
                  "pseudo header, and netfilter's numbers (ACK set: RST, seq = incoming ack; otherwise RST|ACK, ack = seq + SYN + FIN + segment length "
                  "mod 2^32); to anything else ICMP 3/13 carrying the original header + 8 bytes, resp. ICMPv6 1/1 carrying up to 1000 bytes of the packet, "
                  "with valid checksums - and fits both the buffer and MaxRejectPacketSize (= 1048, pinned); no reply is produced for non-first fragments "
                  "(IPv4 offset <> 0, IPv6 fragment header with offset <> 0 anywhere in the chain), ICMP error messages (ICMPv4 3,4,5,11,12; ICMPv6 1..4) "
                  "and buffers smaller than the reply. The model is tied to CreateRejectPacket by correspondence on every TCP flag byte, data offset, "
                  "ICMP type, protocol, IHL, fragment pattern, extension header chains, every capacity 0..1100 and truncation at every offset.",
    "level_note": "Trusted: Coq kernel; the hand-written model; the validator's reading of the RFCs (RFC 792/4443 error types: the ICMPv6 set is the "
                  "assigned error types 1..4, as in the code, not all of 0..127; the TCP segment length is taken from the byte count, not from the IP "
                  "total-length field, as the code does); the harness; the correspondence is differential testing. A reply is also produced for IPv4 "
                  "packets whose IHL is below 5 (CreateRejectPacket does not validate it; its callers only pass packets newPacket accepted).",
    "gens": ["gen_ipparse", "gen_reject"],
    "build_comp": "reject",
    "props": ["props/C21.v"],
    "corr": ["corr/Reject_corr.v"],
    "comps": [{"comp": "reject", "n_quick": 1000, "n_thorough": 80000},
              {"comp": "rejcall", "n_quick": 120, "n_thorough": 3000}],
    "trusted": ["model/Reject.v reject_inside / reject_outside mirror Interface.rejectInside / rejectOutside (inside.go), driven through the real methods on a minimal Interface with a recording tun queue, tunnel cipher and underlay writer (overlay verif_reject.go, component rejcall), packets up to 9000 bytes",
                "model/Reject.v create_reject and helpers are hand-written mirrors of CreateRejectPacket, ipv4/ipv6CreateReject{ICMP,TCP}Packet, tcpipChecksum, "
                "ipv4/ipv6PseudoheaderChecksum (tied by correspondence); the extension header walk is model/IpParse.v find_upper (C20)",
                "gen/Consts_Reject.v: iputil.MaxRejectPacketSize; gen/Consts_IpParse.v: walker limit and walked header set"],
    "assumptions": ["packet bytes are below 256 (bytes_ok)",
                    "cap(out) is the capacity CreateRejectPacket sees; the reply is written into out[:n] and every byte of it is overwritten",
                    "uint32 checksum accumulators do not overflow for blocks of at most 1100 bytes (proved from the byte bounds)"],
}

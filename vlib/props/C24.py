SPEC = {
    "title": "Superpacket segmentation yields valid original segments",
    "design_ref": "DESIGN.md section 4, C24",
    "technique": "Coq proof over an executable model of SegmentTCP/SegmentUDP that carries the code's incremental checksum arithmetic "
                 "(one's-complement algebra of lib/Ones.v): the incremental segments equal a from-scratch reference, whose segments are "
                 "proved valid; a second model replays the in-place buffer manipulation and is proved equal; tied to the real segmenters "
                 "and to tio's decodeRead + SegmentSuperpacket by a differential correspondence evaluated in Coq (T3)",
    "level_text": "Machine-checked Coq theorems for ALL well-formed TCP/UDP superpackets (IPv4 with any IHL and options, IPv6 incl. extension "
                  "headers before L4, any TCP data offset, any segment size, any payload length incl. header-only and odd tails, all flag "
                  "bytes, any ID and sequence number): the incremental per-segment computation (base header sums computed once, length / ID / "
                  "sequence number / flags / payload sum added per segment, 32- and 64-bit folds) equals the from-scratch reference; payloads are "
                  "the consecutive gso-sized pieces of the original payload (concatenate in order, each <= gso, all but the last = gso); every "
                  "segment has consistent version/IHL/total-length (payload-length) fields, a valid IPv4 header checksum and a valid TCP/UDP "
                  "checksum over pseudo-header ++ L4 (UDP: a computed 0 is stored as 0xffff, the field is never 0); TCP sequence numbers advance "
                  "by the delivered payload mod 2^32, CWR only on the first, FIN/PSH only on the last segment, other bits copied; IPv4 IDs "
                  "increment mod 2^16; every other header byte is copied; the in-place stamping never overwrites undelivered payload; and "
                  "everything decodeRead + the segmenters accept is well formed (given IPv6 csum_start >= 40 and 16-bit segment lengths). "
                  "The model is tied to virtio.SegmentTCP/SegmentUDP (direct) and to tio.decodeRead + tio.SegmentSuperpacket (with a "
                  "virtio_net_hdr) by a bytewise differential correspondence; every yielded segment is additionally validated in Coq by an "
                  "executable specification that does not use the model (checksums recomputed, payload concatenation, flag/seq/ID rules).",
    "level_note": "checksum.Checksum is modelled as the RFC 1071 sum (that the assembly returns exactly that value is property C25). The link "
                  "model<->Go is differential testing and as strong as its generator (sweep of all 256 flag bytes, every IHL and data offset, "
                  "header-only payloads, computed-zero checksums, 65535-byte superpackets; then random geometry). Inputs and every observed segment "
                  "are complete byte literals (packed seven bytes per primitive-integer literal, unpacked in Coq).",
    "gens": [],
    "props": ["props/C24.v"],
    "corr": ["corr/Segment_corr.v"],
    "comps": [{"comp": "segment", "n_quick": 160, "n_thorough": 3000}],
    "trusted": ["model/Segment.v is a hand-written mirror of overlay/tio/virtio/segment_linux.go and of decodeRead/SegmentSuperpacket in overlay/tio (tied by correspondence)",
                "checksum.Checksum(buf, init) = fold16 (init + sum16 buf) (property C25; also exercised here through the real segmenters)",
                "case literals are packed into Coq primitive 63-bit integers (PrimInt63 land/lsr/eqb under vm_compute unpack them)"],
    "assumptions": ["well-formed superpacket: bytes < 256, gso >= 1, hdr_len <= |pkt|, hdr_len <= 120, IPv4 with 20 <= IHL*4 <= csum_start or IPv6 with csum_start >= 40, "
                    "L4 header = hdr_len - csum_start bytes (TCP data offset >= 5; UDP 8), hdr_len + min(gso, payload) <= 65535",
                    "C24_pipeline_wellformed derives these from decodeRead's checks except: IPv6 csum_start >= 40 and the 16-bit length bound (kernel-guaranteed, not checked by nebula)"],
}

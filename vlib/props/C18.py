def classify(case):
    return None


SPEC = {
    "title": "Tracked flows are per-tuple and expire when idle",
    "design_ref": "DESIGN.md section 4, C18",
    "technique": "Coq proof (simulation between a model of Firewall.Drop / inConns / addConn / evict on top of the timer wheel "
                 "model of C33 and a per-flow history-level specification, by induction over arbitrary timed histories) with "
                 "constants generated from the code (T1) and a differential correspondence with the real Drop under the "
                 "testing/synctest virtual clock, evaluated in Coq (T3)",
    "level_text": "Machine-checked Coq theorems over ALL timed histories of packets (any peers, directions, tuples), sleeps and "
                  "reloads, for EVERY rule semantics (rule matching and the address checks are arbitrary functions): the verdict "
                  "sequence satisfies the per-flow specification (a packet passes iff a rule allows it, or an earlier packet of the "
                  "same tuple passed and the flow has not been idle past its protocol's timeout: honoured while now <= Expires, not "
                  "while now > Expires); the verdicts of a flow are a function of that flow's "
                  "own packets, hence independent of any churn on other tuples, on all histories; from any reachable state a flow idle for at most "
                  "its timeout is honoured and one idle for more is refused whatever other traffic happened in between; a refused "
                  "flow stays refused until a rule allows a new packet; a packet and its reply are one tuple. The exact instant "
                  "idle = timeout is honoured, with or without churn (F24 repair: evict and the lookup use the same boundary). "
                  "TCP/UDP/default timeouts of an unconfigured firewall "
                  "and the protocol numbers are regenerated from the code on every run and pinned to 12/3/10 min, 6/17/1. "
                  "With a routine-local conntrack cache (firewall/cache.go, modelled: a hit passes without touching the table, "
                  "entries enter only on a non-expired, revalidated table hit, emptied at every tick of the cache ticker): the "
                  "verdicts satisfy the specification with a cache on all histories; a packet no rule allows passes only if the table "
                  "honours its flow now or honoured it since the last tick (bounded staleness: idle <= timeout + one cache period), "
                  "and never after a refused packet of the same flow. "
                  "The model is tied to firewall.go/timeout.go/outside.go/firewall/cache.go by histories of allow/deny/sleep over 3-5 flows and 4 "
                  "peers with gaps just below/at/above each timeout, with and without churn, with a nil conntrack cache and with the real "
                  "ConntrackCacheTicker (1 s period, its goroutine inside the synctest bubble; expired flows asked twice inside one "
                  "tick, stale flows riding on the cache until the tick), real "
                  "certificates and real rule tables; the specification is evaluated on every verdict the real Drop returned.",
    "level_note": "Trusted: Coq kernel; the harness, the overlay shim, Go's testing/synctest virtual clock (all time.Now() reads "
                  "inside one Drop return the same instant). Rule matching (C16) and the address checks (C17) are taken from the "
                  "real code per (rule set, peer, tuple) and are abstract in the theorems. A tick of the cache ticker due at the very "
                  "instant of a packet is counted before the packet (synctest.Wait). The correspondence is differential "
                  "testing (boundary sweep + random), so the link model<->Go is as strong as its generator. time.Time.Sub "
                  "saturation (instants ~292 years apart) is not modelled.",
    "build_comp": "conntrack",
    "gens": ["gen_conntrack"],
    "props": ["props/C18.v"],
    "corr": ["corr/Conntrack_corr.v"],
    "comps": [{"comp": "conntrack", "n_quick": 220, "n_thorough": 6000}],
    "trusted": ["model/Conntrack.v is a hand-written mirror of Firewall.Drop, inConns (incl. the F4 idle-expiry check), addConn, "
                "evict (incl. the F24 boundary) and of newPacket's orientation; model/Wheel.v (C33) is the timer wheel; tied by the correspondence",
                "gen/Consts_Conntrack.v is printed by the harness from the constants compiled in from /repo and from a firewall "
                "built by NewFirewallFromConfig from an empty configuration",
                "allowed / addr_ok are tabulated per case by the real FirewallTable.match and the real address lookups"],
    "assumptions": ["sync.Mutex provides mutual exclusion on the conntrack table (Drop is modelled as atomic)",
                    "the clock read by time.Now() never goes backwards (sleeps are >= 0); one instant per Drop",
                    "the nil-cache theorems are about Drop with a nil routine cache; the cache theorems about one routine with its own "
                    "cache and ticker"],
    "classify": classify,
}

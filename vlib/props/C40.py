def classify(case):
    return None


SPEC = {
    "title": "Multipath routing is deterministic and weight-proportional",
    "design_ref": "DESIGN.md section 4, C40",
    "technique": "Coq proof (exactness of the 128-bit bucket arithmetic, monotonicity, cover, rounding-error bound, for every gateway "
                 "list) over a hand-written model tied to routing.CalculateBucketsForGateways / BalancePacket / hashPacket by a "
                 "differential correspondence evaluated in Coq (T3)",
    "level_text": "Machine-checked Coq theorems for every gateway list of 1..2^32 gateways with weights 1..2^31-1 (the only remaining "
                  "limit is Go's int sum of the weights), every port pair and every value of the other packet fields: the bucket "
                  "computation never panics and bound_i is exactly round-half-up(running weight * 2^31 / total) - 1; bounds never "
                  "decrease and a gateway whose exact share is at least one hash value has a non-empty bucket; the last bound is "
                  "2^31-1 and the hash is below 2^31, so exactly one bucket (bound_{i-1}, bound_i] contains each hash and "
                  "BalancePacket returns that bucket's gateway with ok = true; |width_i * total - weight_i * 2^31| < total (each "
                  "share is within strictly less than one hash value of the exact proportion); the choice depends only on "
                  "(LocalPort, RemotePort) and the gateway list. The executable form of monotone+cover+proportional and of "
                  "'exactly the owning bucket's gateway is returned' is evaluated on the implementation's own bounds, hashes and "
                  "choices, and the harness checks on the real code that changing addresses, protocol or the fragment flag "
                  "changes neither hash nor gateway.",
    "level_note": "Trusted: Coq kernel; the harness and the one-line overlay shim exposing hashPacket. The correspondence is differential "
                  "testing (corpus + 33x33 port grid + random), so the link model<->Go is as strong as its generator. Strictly "
                  "increasing bounds do NOT hold for every list (C40_empty_share_possible: weight 1 beside three gateways of "
                  "weight 2^31-1 gets an empty bucket); that is within 'proportional up to rounding'. Negative weights "
                  "(impossible from configuration, possible through NewGateway) are outside the model.",
    "build_comp": "routing",
    "gens": [],
    "props": ["props/C40.v"],
    "corr": ["corr/Routing_corr.v"],
    "comps": [{"comp": "routing", "n_quick": 1500, "n_thorough": 60000}],
    "trusted": ["model/Routing.v is a hand-written mirror of hashPacket, scaleDivideAndRound (math/bits Mul64/Add64/Div64 modelled as "
                "exact 128-bit operations), CalculateBucketsForGateways and BalancePacket, tied by the correspondence"],
    "assumptions": ["math/bits.Mul64, Add64, Div64 compute the exact 128-bit product, sum with carry and quotient",
                    "Go int is 64 bits (weights are summed in int)"],
    "classify": classify,
}

SPEC = {
    "title": "Certificate reload never changes a node's identity",
    "design_ref": "DESIGN.md section 4, C42",
    "technique": "Coq proof by reflection over a complete decision table generated from the real code on every run (T2), lifted to all "
                 "sequences of reloads by induction; the table-driven model is tied to the real PKI by a differential correspondence "
                 "evaluated in Coq (T3: a sweep over every feasible feature combination plus random reload histories), with the "
                 "property's clauses evaluated on the implementation's own states",
    "level_text": "Machine-checked Coq theorems. For ALL states in use and ALL new files (old has v1/v2 x new has v1/v2, networks equal or not "
                  "per version and across versions, curve, key pairing, v1/v2 agreement, load errors): the reload is accepted exactly when "
                  "the documented rule holds (files load, the key pairs with every certificate, v1 and v2 share key, curve and first network, "
                  "and networks and curve are those in use - including v1-only -> v2-only and every transition to v1-only, the F7 repair); a "
                  "refused reload leaves the previous certificates in use; an accepted one keeps curve and primary network, keeps the overlay "
                  "network list unless a v2 certificate is added next to the v1 certificate (which then keeps exactly the old networks - "
                  "upstream's migration route, witnessed by C42_add_v2_changes_networks), and drops a v2 certificate only if a v1 "
                  "certificate with its networks and curve stays. For ALL sequences of reloads from any start-up (induction): every step is "
                  "defined, the certificates in use always share the private key's public key, one curve and one primary network, and curve "
                  "and primary network are those of start-up; the network list is constant over histories that never add a v2 next to a v1. "
                  "An unreadable CA bundle (missing file, malformed PEM, empty setting, non-CA certificate, trailing garbage) or one whose "
                  "authorities have all expired keeps the previous trust store, independently of the certificate half. Newly blocklisted "
                  "or untrusted peers: by reference to the C30 table - the peer's status against the trust store in use is the certificate "
                  "feature of the next connection-manager check, which closes the tunnel (untrusted: when disconnect_invalid is on). "
                  "The table (256 + 5 rows) is regenerated on every run by driving NewPKIFromConfig / ReloadConfigString -> PKI.reload with "
                  "inline PEM and freshly signed certificates, >= 3 different concrete situations per row; rows whose situations disagree "
                  "fail the run.",
    "level_note": "Trusted: Coq kernel; the generator/shim that build the situations and name what the PKI holds; the abstraction (the listed "
                  "features are all the reload reads) is tested by >= 3 situations per row and by the random histories, not proved. "
                  "PKCS#11 keys (no key/certificate pairing check in the code) and FIPS mode are outside the model. The disconnect clause "
                  "composes with C30's table and inherits its trust. A readable CA file without any certificate is taken into use as an "
                  "empty trust store (recorded in the table; not 'unreadable').",
    "gens": ["gen_pkireload"],
    "props": ["props/C42.v"],
    "corr": ["corr/PkiReload_corr.v"],
    "build_comp": "pkireload",
    "comps": [{"comp": "pkireload", "n_quick": 150, "n_thorough": 3000}],
    "trusted": ["gen/Tab_PkiReload.v is produced by evaluating the real NewPKIFromConfig / ReloadConfigString -> PKI.reload on every feasible "
                "feature combination, >= 3 concrete situations each (translator by exhaustive evaluation); soundness of the abstraction is "
                "sampled, not proved",
                "model/PkiReload.v features / state_of / peer_status / the threading of state between reloads are hand-written and tied by the "
                "history correspondence",
                "go/overlay/_root/verif_pkireload.go only builds a config.C from a string, calls NewPKIFromConfig / ReloadConfigString and reads "
                "PKI.getCertState / GetCAPool",
                "gen/Tab_ConnMgr.v (C30's table) for the disconnect clause: used as it stands in coq/gen (written by bin/setup and refreshed "
                "by every check of C30); C42 does not regenerate it, so that C42 still builds from the single-component harness when "
                "another component's shim is broken"],
    "assumptions": ["the private key is not PKCS#11-backed (newCertState skips the key/certificate pairing check for HSM keys)",
                    "FIPS 140-only mode is off",
                    "pki.cert holds at most one well-formed block per certificate version after any leading malformed block (encoding/pem skips "
                    "malformed blocks that are followed by a well-formed one)",
                    "the connection manager's check reads the trust store in use at the time of the check (C30)"],
}

def classify(case):
    """Known finding F23: the signer certificate's curve differs from the curve of the key handed to Sign/SignWith."""
    d = case.get("case", case) if isinstance(case, dict) else None
    if not isinstance(d, dict) or d.get("op") != "sign":
        return None
    signer = d.get("signer")
    if isinstance(signer, dict) and "curve" in signer and "key_curve" in d and signer["curve"] != d["key_curve"]:
        return "signer-curve-mismatch"
    return None


SPEC = {
    "title": "Issuance never exceeds the signing CA",
    "design_ref": "DESIGN.md section 4, C04",
    "technique": "Coq proof over a hand-written field-level model of TBSCertificate.Sign/SignWith, checkCAConstraints, the v1/v2 validate rules and "
                 "p256 Normalize/Swap (for all requests, signers, pools, times), with the P-256 group order, low-S threshold and enum values "
                 "regenerated from the code (T1), tied to the code and to the built nebula-cert binary by a differential correspondence evaluated in Coq (T3)",
    "level_text": "Machine-checked Coq theorems for all TBS certificates, signers, key curves, pools, blocklists and instants: a certificate issued "
                  "under a signer with the signer's own key verifies against every pool holding that signer at every instant of its validity window "
                  "(unless blocklisted); signing under a signer succeeds only inside the signer's validity window, group list, networks and unsafe "
                  "networks, never yields a CA, and records the signer's fingerprint; a CA request with a signer is refused; self-signing succeeds only "
                  "for CA requests; the key's curve must equal the request's curve (and Sign accepts only the two known curves); Normalize maps every "
                  "0 < S < n to a value <= n/2 equal to S or n - S, Swap is an involution and exactly one of the two forms is low, with n the real "
                  "P-256 group order regenerated from the code and pinned to the FIPS 186 constant. Re-issue: the outcome of signing under a signer does not depend on earlier signings of the same "
                  "TBSCertificate object (C04_resign_independent, with and without a signer; the object's unexported issuer field is modelled, incl. its reset when self-signing - F30). "
                  "The model is tied to Sign / SignWith / "
                  "p256.Normalize / Swap / IsNormalized and to `nebula-cert ca` / `nebula-cert sign` by correspondence; every issued certificate is "
                  "verified by the real VerifyCertificate against a pool of its signer and every P-256 signature is checked with p256.IsNormalized.",
    "level_note": "Trusted: Coq kernel; the hand-written model (mirrors the order of guards of SignWith, checkCAConstraints, certificateV1/V2.validate); "
                  "the harness and its translation of certificates; signatures and SHA-256 are oracles. 'The private key is the signer's own' is a "
                  "hypothesis of C04_sign_implies_verify: SignWith compares the key's curve with the request, not with the signer certificate "
                  "(C04_signer_curve_refuted = known finding F23, reproduced on the code by the corpus cases of kind signer-curve-mismatch and reported as KNOWN-FINDING); nebula-cert enforces it with VerifyPrivateKey. SignWith does not require the signer to be a CA; such "
                  "certificates name an issuer no pool can hold (AddCA refuses non-CAs). The correspondence is differential testing.",
    "classify": classify,
    "gens": ["gen_certsign"],
    "build_comp": "certsign",
    "props": ["props/C04.v"],
    "corr": ["corr/CertSign_corr.v"],
    "comps": [{"comp": "certsign", "n_quick": 900, "n_thorough": 30000}],
    "trusted": ["model/Cert.v sign / sign_with / validate_v1 / validate_v2 / check_ca_constraints / normalize_s / swap_s are hand-written mirrors of cert/sign.go, "
                "cert_v1.go, cert_v2.go, ca_pool.go, p256/p256.go (tied by correspondence); the v2 duplicate test (sort + compare neighbours) is modelled as 'two equal entries'",
                "gen/Consts_CertSign.v: P-256 order and low-S threshold read from the p256 package (overlay shim cert/p256/verif_certsign.go), curve / version enum values, MaxNameLength",
                "fingerprints and signature verdicts enter the model as data supplied by the harness from the real code",
                "nebula-cert is built from the working tree by the harness (go build) and driven with temporary files under work/"],
    "assumptions": ["the signing key handed to Sign/SignWith is the signer certificate's own key (hypothesis of C04_sign_implies_verify; checked by nebula-cert via VerifyPrivateKey)",
                    "ECDSA verification accepts both S forms and the signer lambda returns a valid signature (crypto/ecdsa, crypto/ed25519 are oracles)",
                    "time.Time.After/Before order instants as their Unix nanosecond count (no wrap of Go's internal second counter)"],
}

TWO64 = 1 << 64


def classify(case):
    """'wrap-region' exactly when the failing history contains a counter >= 2^64 - L (known finding F11)."""
    c = case.get("case") if isinstance(case, dict) else None
    if not isinstance(c, dict) or "ops" not in c or "L" not in c:
        return None
    try:
        L = int(c["L"])
        for o in c["ops"]:
            if int(o[1]) >= TWO64 - L:
                return "wrap-region"
    except (TypeError, ValueError, IndexError):
        return None
    return None


SPEC = {
    "title": "The replay window accepts each counter exactly once when in range",
    "design_ref": "DESIGN.md section 4, C11; Appendix A.1",
    "technique": "Coq proof (word-level model of bits.go refined to a bit-level circular window and then to the abstract "
                 "specification 'highest accepted counter + accepted set', by a simulation relation and induction over the whole "
                 "history) with constants generated from the code (T1) and a differential correspondence evaluated in Coq (T3)",
    "level_text": "Machine-checked Coq theorems for every window length 2^k (k = 0..63, including windows shorter than one 64-bit word) "
                  "and every history of Check/Update operations whose counters are below 2^64 - L: each Check and Update of the word-level "
                  "model of bits.go (uint64 words, every wrapping operation modelled as wrapping) returns exactly the verdict of the "
                  "specification (accept iff not accepted before and above the highest accepted counter or inside the window of L counters "
                  "below it; the initial window covers the first counters; counter 0 is never accepted), the simulation relation is preserved, "
                  "Check predicts Update and changes nothing, a counter is accepted at most once, every slice index is in range, and "
                  "clearRange clears exactly the circular range it is asked to clear. ReplayWindow, RejectAfterMessages and bitsPerWord are "
                  "regenerated from the code on every run; RejectAfterMessages <= 2^64 - ReplayWindow is re-proved, so honest senders stay in "
                  "range. The model is tied to bits.go by histories run on the real NewBits/Check/Update (all windows 1..8192, scripted "
                  "boundary patterns, all short sequences for small windows, random mixes), comparing every verdict and the final current and "
                  "bitmap words, and the executable specification is evaluated on the implementation's verdicts.",
    "level_note": "Known finding F11 (C11_wrap_refuted, proved on the word-level model and reproduced on the real code on every run): for "
                  "counters within one window length of 2^64 the window arithmetic wraps and earlier counters are accepted again; the theorems "
                  "exclude exactly that region. Trusted: Coq kernel; the harness and overlay shim; the correspondence is differential testing, "
                  "so the link model<->Go is as strong as its generator. Metrics counters and log lines are not modelled.",
    "build_comp": "bits",
    "gens": ["gen_bits"],
    "props": ["props/C11.v"],
    "corr": ["corr/Bits_corr.v"],
    "comps": [{"comp": "bits", "n_quick": 250, "n_thorough": 6000}],
    "trusted": ["model/Bits.v is a hand-written word-level mirror of bits.go (NewBits, get, set, clearRange, strictlyWithinWindow, Check, "
                "Update, updateSlow), tied by the correspondence on verdicts, current and bitmap words",
                "gen/Bits_consts.v is printed by the harness from the constants compiled in from /repo"],
    "assumptions": ["every counter of the history is below 2^64 - L (for the production window: below RejectAfterMessages, which an honest "
                    "sender never reaches); C11_wrap_refuted shows the hypothesis cannot be dropped",
                    "Go uint64 arithmetic wraps modulo 2^64 and shifts by >= 64 give 0 (as modelled)"],
    "classify": classify,
}

SPEC = {
    "title": "Relays never see or alter end-to-end traffic",
    "design_ref": "DESIGN.md section 4, C15",
    "technique": "Coq proof in a symbolic (Dolev-Yao) model of the relay path over the term algebra lib/Sym.v: the relay is the adversary "
                 "(its own tunnel keys, every datagram it ever received, arbitrary public material; closure under concatenation, slicing at "
                 "any byte offset, encryption/decryption with derivable keys, hashing, DH), secrecy and integrity by invariants over every "
                 "derivation; tied to the code by a malicious relay between real nodes (netsim) whose manipulations have symbolic "
                 "counterparts evaluated by the model inside Coq (T3)",
    "level": "partial",
    "level_text": "Machine-checked Coq theorems, for ANY set of end-to-end keys, ANY number of relayed sessions and packets (any indexes and "
                  "counters, relay tunnels re-established under new keys) and ANY additional public knowledge. C15_no_plaintext / "
                  "_plaintext_underivable / _key_underivable: nothing the relay can derive exposes a plaintext, a slice of a plaintext or an "
                  "end-to-end key - they occur in its view at most under an AEAD keyed end to end. C15_integrity: whatever bytes the relay "
                  "hands on (any rewrite, splice, truncation, fabrication), if the endpoint accepts them on an end-to-end tunnel then key, "
                  "counter, header and plaintext are those of a packet that tunnel's peer sent. C15_attribution: a plaintext delivered out of "
                  "a relay packet is attributed to the peer of the tunnel that owns the INNER index, whose key authenticated it, and that peer "
                  "sent it; C15_claim_irrelevant: the peer address the relay record claims plays no part. The model mirrors sendInsideEncrypt "
                  "+ prepareSendVia (inner AEAD under the end-to-end key with the header as AD; outer = header, payload in clear, tag-only AEAD "
                  "under the relay tunnel key) and readOutsidePackets -> VerifyRelay -> handleOutsideRelayPacket -> readOutsidePackets. "
                  "PARTIAL: the AEAD is ideal in the symbolic model (a ciphertext is opened only with its key and made only by a key holder); "
                  "no computational secrecy is proved. The netsim component runs three relay sessions between real nodes with a malicious "
                  "relay: every byte the relay received is searched for the plaintext markers; rewritten, truncated, spliced, re-encrypted, "
                  "replayed payloads re-wrapped in valid relay packets are injected (rejected, receiver state unchanged), genuine payloads are "
                  "forwarded under the other peer's relay record (delivered, attributed to the inner index's owner), relay tunnels are torn "
                  "down and re-established and old-session packets replayed; sessions of end-to-end frames are delivered in adversarial orders mixing "
                  "the relay path and the direct path (the bare inner frame, outer header and tag stripped, from an arbitrary address): each "
                  "end-to-end counter is delivered at most once whatever the path, attributed to the sender, and a refused copy does not roam.",
    "level_note": "Trusted: Coq kernel; lib/Sym.v's deduction relation as the adversary's power; the harness and the overlay shim "
                  "verif_outside.go; the malicious relay is played by the harness with the key the real relay shares with the endpoint. "
                  "Replay protection is C11/C12 (the case carries the real window's verdict). Handshake messages passing through the relay and "
                  "traffic analysis (lengths, timing, who talks to whom) are outside the property.",
    "props": ["props/C15.v"],
    "corr": ["corr/RelayE2E_corr.v"],
    "build_comp": "outside",
    "comps": [{"comp": "relaynet15", "n_quick": 2, "n_thorough": 12, "e2e": True}],
    "trusted": ["model/RelayE2E.v is a hand-written symbolic mirror of inside.go sendInsideEncrypt / prepareSendVia / SendVia and outside.go "
                "readOutsidePackets / VerifyRelay / handleOutsideRelayPacket; tied by the malicious-relay network component",
                "lib/Sym.v (term algebra, derives) is the handshake author's library"],
    "assumptions": ["ideal AEAD (symbolic model): a term Aead k n ad p is derivable only with k or if it was sent; it is opened only with k; "
                    "distinct terms are distinct byte strings",
                    "end-to-end tunnel keys are known only to the two endpoints (C05/C06: the handshake binds them to the certified peers)",
                    "the relay does not hold an endpoint's tunnel key (it is not one of the endpoints of that tunnel)"],
}

SPEC = {
    "title": "Lighthouse information is accepted only from authorized senders",
    "design_ref": "DESIGN.md section 4, C35",
    "technique": "Coq proof over all message/handshake histories on a model of LightHouseHandler.HandleRequest whose gate is a finite table "
                 "generated on every run by evaluating the real HandleRequest on the whole gating feature space (T2), plus a differential "
                 "correspondence of the hand-written effects evaluated in Coq (T3)",
    "level_text": "Machine-checked Coq theorems for every configuration, sender and decoded message: the gate the code implements (table of 672 rows: "
                  "am_lighthouse x sender-is-configured-lighthouse x every NebulaMeta type incl. unknown x claimed address absent/first/other/foreign in v1 and "
                  "v2 encoding/details missing x multi-address sender, each row evaluated on >= 4 random concretisations through the real HandleRequest) equals "
                  "the documented rule; whatever a host update changes is cache[sender's first address] of the list registered for the sender, on a lighthouse, "
                  "claiming only the sender's certified addresses, and (in every state reachable by histories of tunnels whose certificates do not share "
                  "addresses) every overlay address registered to that list is certified for the sender; only lighthouses send replies, a query answer only "
                  "for a query; on a non-lighthouse only query replies and punch requests from configured lighthouses have any effect; punches only on request "
                  "of a configured lighthouse; history invariant: every cache entry under owner o was written by the tunnel whose first address is o (handshake, "
                  "accepted update) or by a configured lighthouse's reply. The effects (unlockedGetRemoteList, cache setters, answers, punch filter) are tied to "
                  "the code by correspondence: every table row once, then random histories with complete addrMap dumps after each operation.",
    "level_note": "Trusted: Coq kernel; the harness and overlay shim (real LightHouse from real config, recording EncWriter, jobs captured where the real "
                  "Punchy scheduler takes them); the claim that HandleRequest's gate depends only on the enumerated features (checked by >= 4 concretisations per row "
                  "and by the random histories); hand-written effects tied by differential testing. Messages are decoded fields (decoding by the real generated "
                  "Unmarshal). No remote_allow_list is configured (admission filter = not inside own networks; the allow list is C36/C38). EncWriter.GetHostInfo "
                  "returns nil (the punch notification's version is the node's initiating version). The address theorem excludes two certificates sharing an overlay "
                  "address; C35_update_addr_shared_refuted shows that region differs (the entry still sits under the sender's own key and is not served for the other address).",
    "gens": ["gen_lighthouse"],
    "build_comp": "lighthouse",
    "props": ["props/C35.v"],
    "corr": ["corr/Lighthouse_corr.v"],
    "comps": [{"comp": "lighthouse", "n_quick": 120, "n_thorough": 3000}],
    "trusted": ["gen/Tab_Lighthouse.v is produced by evaluating the real HandleRequest on every row of the feature space (translator by exhaustive evaluation)",
                "model/Lighthouse.v effects (get_rl, upd_entry, do_update, do_reply, do_query, do_punch, learn) are hand-written mirrors of lighthouse.go / remote_list.go (tied by correspondence)"],
    "assumptions": ["fromVpnAddrs handed to HandleRequest are the certified addresses of the authenticated tunnel (C05/C09)",
                    "C35_update_addr: no two certificates in the history share an overlay address unless they carry the same addresses",
                    "protobuf decoding (gogo generated Unmarshal) is outside the model: the model starts from decoded fields"],
}

SPEC = {
    "title": "Hostmap indexes stay consistent",
    "design_ref": "DESIGN.md section 4, C28 / C29",
    "technique": "Coq proof of a state invariant over all operation histories (induction over the history, ghost life-cycle per hostinfo) "
                 "on a hand-written model of HostMap / HandshakeManager pending maps / AddRelay, tied to the code by a generated constant (T1) "
                 "and a differential correspondence over operation histories evaluated in Coq (T3)",
    "level_text": "Machine-checked Coq theorems for ALL histories of start / allocate / complete / responder-add / delete (of live, pending or "
                  "already removed hostinfos) / promote / add-relay / pending-delete with arbitrary multi-address certificates and index candidate "
                  "streams: every address maps to a primary heading its list; the list holds at most MaxHostInfosPerVpnIp (= 5, generated from the "
                  "code) distinct live tunnels that own the address; every tunnel referenced from Hosts, moreHosts, Indexes, RemoteIndexes or Relays "
                  "is live and RemoteIndexes/Relays point to their owners (C28_wf, C28_at_most_five); a delete erases every reference "
                  "(C28_delete_total) and returns true exactly when no other tunnel is in the list of any of its addresses (C28_final_iff); a tunnel "
                  "that stopped being live is never live or referenced again (C28_no_resurrect) and promoting a non-live tunnel is a no-op "
                  "(C28_promote_removed_noop). The executable predicate evaluated on the implementation's map dumps is proved equivalent to WF "
                  "(C28_wf_exec). "
                  "System level (component sysmon_C28): the canonical dumps of the main hostmap, relay indexes and pending maps of four real nodes built by nebula.Main, taken after every driver call of seeded event histories, are evaluated in Coq with the same executable predicates (wfb, unreachableb for every tunnel that stopped being live).",
    "level_note": "Trusted: Coq kernel; the overlay shim (drives the real StartHandshake, allocateIndex, generateIndex, CheckAndComplete, Complete, "
                  "handleOutbound timeout, DeleteHostInfo, MakePrimary, AddRelay and dumps every map) and the harness; the model<->Go link is "
                  "differential testing over random histories and is as strong as its generator. The model holds the code as repaired by fix F16 "
                  "(ownership test on Indexes/Relays/pending-index deletes); before that repair the invariant was refuted by a stale delete "
                  "after index reuse.",
    "gens": ["gen_hostmap"],
    "props": ["props/C28.v"],
    "corr": ["corr/HostMap_corr.v"],
    "comps": [{"comp": "hostmap", "n_quick": 300, "n_thorough": 6000}, {"comp": "hostmap_rx28", "n_quick": 100, "n_thorough": 3000}, {"comp": "sysmon_C28", "e2e": True, "n_quick": 12, "n_thorough": 150}],
    "trusted": ["the component hostmap_rx28 runs the same histories on a node with a real PKI, the pending operations going through the timer routine's handleOutbound (handshake.Machine -> allocateIndex; timeout), HandleIncoming -> beginHandshake, and continueHandshake called with the handshake pointer the rx routine resolved earlier (authenticated replies for current, timed-out, abandoned and re-issued handshakes), so continueHandshake's own still-tracked test is under test instead of a guard in the harness",
                "model/HostMap.v is a hand-written mirror of hostmap.go (unlockedAddHostInfo, unlockedInnerAddHostInfo, unlockedDeleteHostInfo, "
                "unlockedSetHostsForAddr, unlockedMakePrimary), relay_manager.go AddRelay and handshake_manager.go (StartHandshake, allocateIndex, "
                "generateIndex, CheckAndComplete, Complete, unlockedDeleteHostInfo), tied by the correspondence",
                "gen/Consts_HostMap.v (MaxHostInfosPerVpnIp) is printed from the compiled-in constant",
                "the loop bound 32 of allocateIndex/AddRelay is a function-local literal: modelled as alloc_tries and probed at 31/32/33 collisions",
                "CheckAndComplete's ErrAlreadySeen / ErrExistingHostInfo refusals are not exercised (distinct handshake packets, increasing handshake "
                "time): they belong to C09/C10; relay State rewriting (unlockedDisestablishVpnAddrRelayFor) is not modelled (C39)"],
    "assumptions": ["crypto/rand.Read delivers the bytes of crypto/rand.Reader (the harness scripts the reader)",
                    "operations are atomic (each nebula entry point holds the hostmap / handshake-manager locks for its whole critical section)"],
}

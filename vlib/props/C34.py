def classify(case):
    """The signature of a reported lock-order cycle: 'lock-inversion:<class><-><class>...' with the class names sorted
    (written by the harness from the translator's class names; known inversions are F28 and F29)."""
    c = case.get("case") if isinstance(case, dict) else None
    if isinstance(c, dict) and isinstance(c.get("signature"), str) and c["signature"].startswith("lock-inversion:"):
        return c["signature"]
    return None


SPEC = {
    "title": "The packet engine is free of data races and deadlocks",
    "design_ref": "DESIGN.md section 4, C34",
    "technique": "translator (go/packages + go/ssa + callgraph/vta over the source of /repo) emitting the lock-class order graph as a Coq "
                 "file on every run; acyclicity by reflection with a proved-sound checker; Coq theorem that threads respecting an acyclic "
                 "class order never reach a wait-for cycle",
    "level": "partial",
    "level_text": "DATA RACES ARE NOT COVERED: freedom from data races is a property of the Go memory model over all executions of pointer-"
                  "manipulating code; there is no executable Gallina model of that and nothing is claimed about it. Covered: DEADLOCK BY LOCK-CLASS "
                  "ORDER only. On every run a translator re-derives from the source the lock classes of the module (struct type + sync.Mutex / "
                  "sync.RWMutex field, 21 classes) and every edge 'class b may be acquired while class a is held' (intra-procedural may-held "
                  "dataflow with deferred unlocks + call-graph closure; 44 edges), and Coq re-checks by reflection that the graph minus the two "
                  "inversions listed as known findings (F28 HandshakeManager<->HostMap, F29 HostMap<->RemoteList: both are real nestings in the "
                  "code) is acyclic, same-class nesting included. Machine-checked theorems: the acyclicity checker is sound (no path from a class "
                  "back to itself), and in any system of threads in which every acquisition-while-holding follows an edge of an acyclic graph no "
                  "thread is part of a wait-for cycle. A new nesting that closes a cycle fails the reflection and is reported with the classes "
                  "and source positions. Channels, WaitGroups, condition variables, atomics and livelock are not covered.",
    "level_note": "Trusted: Coq kernel; the translator go/lockgraph (go/ssa, VTA call graph; sound-by-design over-approximation inside the module: "
                  "may-held sets, every call-graph target; precision only from consistently followed start-up flags, nil-constant parameters and "
                  "closures bound at their call site) - the translator itself is not verified; code outside the module is opaque (its locks are "
                  "not classes; it is assumed to call back only through function values passed directly and through formatting methods of values "
                  "boxed for logging); a lock whose receiver cannot be traced to a field or package variable gets a site-local class; class-level "
                  "order is stricter than instance-level order, so an edge may be spurious (none of the 44 was found to be after refinement) and "
                  "RLock is treated like Lock (a recursive read lock can deadlock behind a queued writer).",
    "gens": ["gen_lockorder"],
    "props": ["props/C34.v"],
    "corr": ["corr/LockOrder_corr.v"],
    "build_comp": "lockorder",
    "comps": [{"comp": "lockorder", "n_quick": 1, "n_thorough": 1, "timeout": 1500}],
    "trusted": ["gen/LockGraph.v is produced by go/lockgraph from /repo's source on every run (translator, not verified)",
                "the mapping 'every blocking acquisition in the module happens at a Lock/RLock call the translator saw' (sync.Mutex / sync.RWMutex "
                "only; sync.Cond, channels and other blocking primitives are outside the model)"],
    "assumptions": ["code outside the module does not hold module locks and calls back into the module only through function values passed as "
                    "arguments and formatting methods of logged values",
                    "no lock is acquired through reflection, unsafe or a mutex copied by value"],
    "classify": classify,
    "coqchk": True,
}

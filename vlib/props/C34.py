def classify(case):
    """The signature of a reported lock-order cycle: 'lock-inversion:<class><-><class>...' with the class names sorted
    (written by the harness from the translator's class names; known inversions are F28 and F29), or of a write site
    that breaks the write discipline: 'write-discipline:<kind>:<type or field>:<function>' (none is known)."""
    c = case.get("case") if isinstance(case, dict) else None
    if isinstance(c, dict) and isinstance(c.get("signature"), str) and \
            (c["signature"].startswith("lock-inversion:") or c["signature"].startswith("write-discipline:")):
        return c["signature"]
    return None


SPEC = {
    "title": "The packet engine is free of data races and deadlocks",
    "design_ref": "DESIGN.md section 4, C34",
    "technique": "translator (go/packages + go/ssa + callgraph/vta over the source of /repo) emitting, on every run, (1) the lock-class order "
                 "graph and (2) the table of write sites (stores into Relay structs with freshness; writes to map/slice fields of mutex-carrying "
                 "structs with their must-held lock classes) as Coq files; acyclicity and the write discipline by reflection on the regenerated "
                 "tables; Coq theorems that threads respecting an acyclic class order never reach a wait-for cycle, that guarded writes of "
                 "different threads never overlap, and that an object only written before publication is read-only afterwards",
    "level": "partial",
    "level_text": "DATA RACES ARE PARTLY COVERED - exactly the WRITE DISCIPLINE that is a syntactic property of the source: (a) every write (map "
                  "update, delete/clear, element store, store to the field) to the documented lock-guarded containers HostMap.{Indexes, Relays, "
                  "RemoteIndexes, Hosts, moreHosts} (HostMap.RWMutex), RelayState.{relays, relayForByAddr, relayForByIdx} (RelayState.RWMutex), "
                  "HandshakeManager.{vpnIps, indexes} (HandshakeManager.RWMutex), LightHouse.addrMap (LightHouse.RWMutex) and RemoteList.{vpnAddrs, "
                  "addrs, relays, cache, badRemotes} (RemoteList.RWMutex) and HandshakeHostInfo.packetStore (HandshakeManager.RWMutex: the packet cache of a pending handshake, finding F31) holds that lock class IN WRITE MODE on every control-flow path from every "
                  "caller in the call graph (intra-procedural must-held dataflow, entry sets = intersection over all call sites, go/defer/external "
                  "callers and closures handed to code outside the module contribute nothing; a function literal whose only use is as the argument for a call-only func parameter is entered with what its one call site holds), or happens while the owning struct is a not-yet-escaped allocation of the same function; (b) a "
                  "Relay object ('treat the pointed-to Relay struct as immutable', hostmap.go) is never written after publication: every store "
                  "into a *Relay goes to an allocation of the same function that cannot have escaped yet. The translator lists 130 write sites "
                  "(15 Relay stores, 73 writes to the 17 documented containers, 42 to other mutex-carrying structs' containers that are listed "
                  "but not judged); Coq re-checks the hand-written rule on the regenerated table by reflection and on every site reported by the "
                  "harness; a site that breaks it is reported with file:line, function and must-held set. Machine-checked general theorems: at "
                  "any instant at which write-mode locks are mutually exclusive and every write in progress holds the guard of its location, two "
                  "writes to one location are by the same thread; if no write to an object follows its publication, every later access is a read. "
                  "NOT COVERED (nothing is claimed): READS (whether a reader holds the lock, in read or write mode, is not examined), writes to any other field or "
                  "variable, the contents of the objects the maps point to (HostInfo, ConnectionState, ...), atomics, channel hand-offs, slices "
                  "and buffers shared between routines, writes through an alias of a map (map value passed to another function), instance-level "
                  "(as opposed to class-level) lock identity, and the link between this discipline and the Go memory model. "
                  "DEADLOCK BY LOCK-CLASS ORDER: on every run a translator re-derives from the source the lock classes of the module (struct type + "
                  "sync.Mutex / sync.RWMutex field, 21 classes) and every edge 'class b may be acquired while class a is held' (intra-procedural "
                  "may-held dataflow with deferred unlocks + call-graph closure; 40 edges at the time of writing), and Coq re-checks by reflection that the graph minus the "
                  "two inversions listed as known findings (F28 HandshakeManager<->HostMap, F29 HostMap<->RemoteList: both are real nestings in the "
                  "code) is acyclic, same-class nesting included. Machine-checked theorems: the acyclicity checker is sound (no path from a class "
                  "back to itself), and in any system of threads in which every acquisition-while-holding follows an edge of an acyclic graph no "
                  "thread is part of a wait-for cycle. A new nesting that closes a cycle fails the reflection and is reported with the classes "
                  "and source positions. Channels, WaitGroups, condition variables, atomics and livelock are not covered.",
    "level_note": "Trusted: Coq kernel; the translator go/lockgraph (go/ssa, VTA call graph; sound-by-design over-approximation inside the module: "
                  "may-held sets, every call-graph target; precision only from consistently followed start-up flags, nil-constant parameters and "
                  "closures bound at their call site) - the translator itself is not verified; code outside the module is opaque (its locks are "
                  "not classes; it is assumed to call back only through function values passed directly and through formatting methods of values "
                  "boxed for logging); a lock whose receiver cannot be traced to a field or package variable gets a site-local class; class-level "
                  "order is stricter than instance-level order, so an edge may be spurious (none of them was found to be after refinement) and "
                  "RLock is treated like Lock (a recursive read lock can deadlock behind a queued writer). Write discipline: the same translator "
                  "(go/lockgraph/guards.go) is trusted for the enumeration of write sites (SSA Store / MapUpdate / delete / clear whose address is "
                  "syntactically a field path of the struct; a write through an alias is not seen), for freshness (an ssa.Alloc of the same function "
                  "with no escaping use on a path from the allocation to the store) and for the must-held sets (a callee removes every class it may "
                  "net-release: an unlock not matched by a lock of the same receiver value in the same function); which fields are guarded by "
                  "which class and which types are immutable is hand-written in coq/model/WriteDiscipline.v from the quoted source comments; the "
                  "abstract theorems are about an event model, their link to the sites is the stated reading of the table, not a proof about Go.",
    "gens": ["gen_lockorder"],
    "props": ["props/C34.v"],
    "corr": ["corr/LockOrder_corr.v", "corr/Guards_corr.v"],
    "build_comp": "lockorder",
    "comps": [{"comp": "lockorder", "n_quick": 1, "n_thorough": 1, "timeout": 1500},
              {"comp": "guards", "n_quick": 1, "n_thorough": 1, "timeout": 1500}],
    "trusted": ["gen/LockGraph.v is produced by go/lockgraph from /repo's source on every run (translator, not verified)",
                "gen/WriteSites.v is produced by go/lockgraph/guards.go from the same SSA program and call graph on every run (translator, not "
                "verified): completeness of the site enumeration for direct field-path writes, freshness flags, must-held sets",
                "the guard map and the list of immutable types in coq/model/WriteDiscipline.v (hand-written from the source comments)",
                "the mapping 'every blocking acquisition in the module happens at a Lock/RLock call the translator saw' (sync.Mutex / sync.RWMutex "
                "only; sync.Cond, channels and other blocking primitives are outside the model)"],
    "assumptions": ["code outside the module does not hold module locks and calls back into the module only through function values passed as "
                    "arguments and formatting methods of logged values",
                    "no lock is acquired through reflection, unsafe or a mutex copied by value",
                    "write discipline: whole-program view (a module function is entered only from the call sites in the call graph, from `go` / "
                    "`defer`, or from outside the module with nothing held); guarded containers are not written through aliases, reflection or unsafe"],
    "classify": classify,
    "coqchk": True,
}

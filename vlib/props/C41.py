def classify(case):
    return None


SPEC = {
    "title": "Route configuration parses exactly",
    "design_ref": "DESIGN.md section 4, C41",
    "technique": "Coq proof (the loaders accept exactly the well-formed lists; decimal strings and integers are the same value; "
                 "inside / outside the overlay networks) over a hand-written model of parseIntValue / parseRoutes / "
                 "parseUnsafeRoutes tied to /repo/overlay/route.go by a differential correspondence evaluated in Coq (T3), "
                 "configurations going through yaml.v3",
    "level_text": "Machine-checked Coq theorems for every YAML value of tun.routes / tun.unsafe_routes, every set of overlay networks "
                  "and every behaviour of netip.ParsePrefix / ParseAddr (oracles): a list loads if and only if every entry is well "
                  "formed (declarative route_wf / unsafe_wf), and then MTU, metric, gateway weights, gateways, prefix and install "
                  "flag are exactly the stated ones, defaults appearing only when a key is absent; a decimal string (optional "
                  "sign, leading zeros, and in particular the canonical rendering of any integer) is the same value as the integer "
                  "it denotes; a value is a number only if it is an int or such a string - bools, floats (even integral), null, "
                  "lists, maps, malformed strings and integers outside int are refused, never replaced; out-of-range mtu / metric "
                  "/ weight are refused; every address of an accepted route lies in one of the overlay networks and the base "
                  "address of an accepted unsafe route lies in none. The model is tied to the real loaders on generated "
                  "configurations (ints, decimal strings, malformed strings, bools, floats, nulls, lists, maps, uint64; v4/v6 "
                  "network sets), loaded through config.LoadString / yaml.v3; a checker of each accepted Route against the "
                  "configuration it came from is evaluated on the implementation's output and panics are recovered and reported.",
    "level_note": "Trusted: Coq kernel; the harness and the overlay shims; netip.ParsePrefix / ParseAddr / Prefix.Contains (the harness "
                  "evaluates the first two on every string of a case and hands the results to the model as tables; Contains is "
                  "modelled as 'same family and equal leading bits'). The correspondence is differential testing (corpus + "
                  "random), so the link model<->Go is as strong as its generator. Observations, not violations of the statement: "
                  "`via: []` (an empty gateway list) is accepted and yields a Route without gateways; the outside test looks at "
                  "the base address only; mtu has no upper bound; an IPv4-mapped IPv6 route is never inside an IPv4 network.",
    "build_comp": "routecfg",
    "gens": [],
    "props": ["props/C41.v"],
    "corr": ["corr/RouteCfg_corr.v"],
    "comps": [{"comp": "routecfg", "n_quick": 1500, "n_thorough": 40000}],
    "trusted": ["model/RouteCfg.v is a hand-written mirror of parseIntValue, parseRoutes and parseUnsafeRoutes (strconv.Atoi and "
                "strconv.ParseBool modelled; fmt.Sprintf(\"%v\") of non-strings modelled by cases), tied by the correspondence",
                "a float64 configuration value is represented by its Go %v text; an integer outside int by a YInt outside the int range "
                "(yaml.v3 yields uint64)"],
    "assumptions": ["netip.ParsePrefix / netip.ParseAddr are deterministic functions of the string (oracles pp / pa, universally quantified)",
                    "netip.Prefix.Contains(addr) holds iff the families agree and the leading Bits() bits agree",
                    "Go int is 64 bits; yaml.v3 decodes integers that fit int to int and larger ones to uint64",
                    "map keys are unique (Go map)"],
    "classify": classify,
}

SPEC = {
    "title": "Firewall verdicts follow the rule semantics",
    "design_ref": "DESIGN.md section 4, C16; Appendix A.2",
    "technique": "Coq refinement proof (nested rule table = exists-a-matching-rule, one monotone-or lemma per layer, induction over the rule "
                 "list) over a hand-written model tied to firewall.go by a differential correspondence evaluated in Coq (T3); constants generated (T1)",
    "level_text": "Machine-checked Coq theorems for ALL rule lists, configurations (unsafe networks, default_local_cidr_any), directions, packets, "
                  "peer certificates and CA pools: the table AddRule builds (protocol table -> port map incl. any/fragment buckets and per-port range "
                  "insertion -> CA node any/sha/name -> rule node any/groups/hosts/cidr -> local-cidr node) matches a packet iff some added rule matches "
                  "under the documented one-rule semantics; AddRule fails exactly on the invalid rules; Drop on an untracked tuple with accepted "
                  "addresses allows iff a rule of that direction matches; allowed packets are tracked. The model is tied to the real "
                  "NewFirewall/AddRule/Drop by generated rule sets and packets at rule boundaries. "
                  "System level (component sysmon_C16): in seeded event histories of four real nodes built by nebula.Main with allow/deny rule sets that are reloaded, an inner packet that no rule of the node allows (reference evaluation of the configured rules against the sender's certificate) and whose flow was never allowed is neither delivered to a tun nor put on the wire.",
    "level_note": "Trusted: Coq kernel; gaissmai/bart is modelled as prefix-set / longest-prefix-match (lib/Ip.v), netip.ParsePrefix classifies cidr strings "
                  "for the harness; the correspondence is differential testing (generated, boundary-biased), so the link model<->Go is as strong as its "
                  "generator. AddRule with endPort = MaxInt32 (non-terminating loop in Go) is outside the model. Conntrack timing/reload: C18/C19.",
    "gens": ["gen_fwrules"],
    "build_comp": "fwrules",
    "props": ["props/C16.v"],
    "corr": ["corr/Firewall_corr.v"],
    "comps": [{"comp": "fwrules", "n_quick": 500, "n_thorough": 20000}, {"comp": "sysmon_C16", "e2e": True, "n_quick": 12, "n_thorough": 150}],
    "trusted": ["model/Firewall.v add_rule/table_match/drop_ct are hand-written mirrors of Firewall.AddRule/FirewallTable.match/Firewall.Drop (tied by correspondence)",
                "lib/Ip.v models bart.Lite / bart.Table as prefix sets with contains / longest-prefix-match / supernets semantics",
                "gen/Consts_Firewall.v is printed from firewall/packet.go constants by the harness"],
    "assumptions": ["gaissmai/bart implements insert-masked / exact get / contains / supernets / longest-prefix lookup",
                    "cert.CAPool.GetCAForCert is a map lookup by issuer fingerprint that fails on an empty issuer (exercised with a real CAPool)"],
}

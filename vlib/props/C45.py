SPEC = {
    "title": "SSH debug file paths stay inside the sandbox",
    "design_ref": "DESIGN.md section 4, C45",
    "technique": "Coq proof over all byte-string paths and all absolute sandbox directories, on a hand-written model of "
                 "sshSanitizeFilePath and of go1.26 path/filepath (IsAbs, Join, Clean with its lazybuf/dotdot index), against an "
                 "independent component-wise resolution; tied to the code by a differential correspondence evaluated in Coq (T3)",
    "level_text": "Machine-checked Coq theorems for ALL paths (arbitrary bytes, relative and absolute, any number of '.', '..', repeated or trailing "
                  "separators) and ALL absolute sandbox directories (any spelling): an accepted path is the clean absolute spelling of the location the "
                  "user's path resolves to lexically, and that location is strictly inside the sandbox (the sandbox itself is refused); every path "
                  "that does not resolve strictly inside is refused; for a sandbox other than '/' acceptance is exactly strict insideness (a sandbox "
                  "resolving to '/' refuses everything); similar-prefix siblings (/sb vs /sbx) are refused; trailing/repeated separators in the sandbox "
                  "spelling change nothing; filepath.Clean's byte-level algorithm equals component-wise normalisation for rooted and relative paths. "
                  "The model is tied to sshSanitizeFilePath, to filepath.Clean and to the three file-writing SSH commands by correspondence "
                  "(exhaustive short paths, random long ones, a real directory tree).",
    "level_note": "Trusted: Coq kernel; the hand-written model of sshSanitizeFilePath and of path/filepath's Clean/Join/IsAbs on Unix (mirrors "
                  "go1.26 internal/filepathlite byte for byte; compared with the real filepath.Clean on every run); the harness/overlay shim; the "
                  "correspondence is differential testing. 'Resolves' is lexical (as the property says): symbolic links inside the sandbox are outside "
                  "the model. Relative sandbox directories are outside the theorems (a sandbox consisting only of '..' components accepts '../x': "
                  "recorded as Example C45_relative_dotdot_sandbox_note); an empty sandbox_dir disables the check by design.",
    "gens": [],
    "build_comp": "sshpath",
    "props": ["props/C45.v"],
    "corr": ["corr/SshPath_corr.v"],
    "comps": [{"comp": "sshpath", "n_quick": 2000, "n_thorough": 60000}],
    "trusted": ["model/SshPath.v sanitize/clean/join2/is_abs are hand-written mirrors of sshSanitizeFilePath and go1.26 path/filepath (unix), tied by correspondence "
                "(sanitize verdict + returned path, filepath.Clean output, files created by start-cpu-profile/save-heap-profile/save-mutex-profile)"],
    "assumptions": ["the sandbox directory is an absolute path (nebula's default is os.TempDir()/nebula-debug)",
                    "path resolution is lexical: no symbolic links below the sandbox directory",
                    "the node runs on a Unix build of Go (separator '/', no volume names)"],
}

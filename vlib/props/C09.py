SPEC = {
    "title": "Tunnels are bound to the certified overlay address",
    "design_ref": "DESIGN.md section 4, C09 / C10",
    "technique": "Coq proof of a state invariant over all operation histories of a hand-written model of the handshake manager "
                 "(beginHandshake, validatePeerCert, continueHandshake self check / correctHostResponded / restart, CheckAndComplete, "
                 "Complete) layered on the C28 hostmap model - every hostmap mutation goes through HostMap.step, so the C28 invariant "
                 "(WF) holds in every reachable state - with a ghost log of completed handshakes; tied to the code by a differential "
                 "correspondence over operation histories evaluated in Coq (T3) on a real HandshakeManager + HostMap driven with real "
                 "Noise IX messages and real signed v1/v2 certificates",
    "level_text": "Machine-checked Coq theorems for ALL histories of handshake-manager operations (stage-1 deliveries and replays with "
                  "arbitrary certificates, initiator handshakes answered by the right host, a wrong host or a host claiming one of my "
                  "addresses, index allocations, deletes, promotions, timeouts) on a node with any set of own addresses. C09_bound / "
                  "C09_primary / C09_live: every tunnel in a per-address list, every primary Hosts[a] and every tunnel in Indexes comes "
                  "from a completed handshake of the log whose verified certificate lists a; the recorded peer addresses are exactly the "
                  "certificate's addresses; none of them is an address of the node (so no own address is ever a key of the main map); a "
                  "tunnel the node initiated was started for one of the certificate's addresses. C09_log_sound: a log entry is written "
                  "exactly when a stage 1 or stage 2 completes, with that message's certificate addresses. C09_self_refused_responder / "
                  "_initiator: a certificate naming one of my addresses is refused on both sides (responder: state unchanged, nothing "
                  "sent; initiator: main hostmap and all records unchanged, pending handshake dropped). C09_wrong_responder: when the "
                  "responder's certificate does not list the address the initiator was trying to reach, the main hostmap is unchanged, "
                  "nothing is logged as completed, the pending handshake is dropped and restarted with the sender's underlay address "
                  "blocked, and the only packet sent is a close-tunnel to the host that answered. "
                  "System level (component sysmon_C09): in seeded event histories of four real nodes built by nebula.Main (lighthouse, relay, v1/v2 certificates, wrong responders, simultaneous handshakes, reloads) every tunnel in every main hostmap records, after every event, exactly the addresses of a certificate of the node whose handshake message created it, and no node holds a tunnel keyed by one of its own addresses.",
    "level_note": "A 'completed handshake' on the responder side of Noise IX is a stage 1 that passed certificate verification; the "
                  "initiator has not yet proved possession of its key then (known finding F27, see C05/C10): a tunnel installed from a "
                  "replayed or altered stage 1 is still bound to the genuine certificate's addresses, which is what C09 states. "
                  "Modelled, not verified: Noise and certificate verification sit above the model (an operation is a message that already "
                  "passed handshake.Machine with a verified certificate; that the certificate addresses handed to the manager are those of "
                  "the authenticated peer is C05/C01); relayed deliveries, the remote allow list and lighthouse notifications are outside "
                  "the model; the blocked-remote list is modelled per pending handshake (the harness gives each fresh handshake its own "
                  "remote list; in the node it is the lighthouse cache entry of the address, C36/C37). The multi-node e2e component "
                  "(netsim) of the plan was not built: peers are played by the shim with flynn/noise. The link model<->Go is differential "
                  "testing and as strong as its generator.",
    "gens": ["gen_hsmgr"],
    "props": ["props/C09.v"],
    "corr": ["corr/HsMgr_corr.v"],
    "build_comp": "hsmgr",
    "comps": [{"comp": "hsmgr09", "n_quick": 150, "n_thorough": 4000}, {"comp": "sysmon_C09", "e2e": True, "n_quick": 12, "n_thorough": 150}],
    "trusted": ["model/HsMgr.v is a hand-written mirror of handshake_manager.go (StartHandshake, handleOutbound first attempt and timeout, "
                "beginHandshake, validatePeerCert, CheckAndComplete, handleCheckAndCompleteError, continueHandshake, Complete) and "
                "hostmap.go SetRemoteIfPreferred, over model/HostMap.v (C28); tied by the correspondence",
                "the overlay shim verif_hsmgr.go plays the peers with flynn/noise (so peer time, peer index and certificate are chosen by "
                "the harness), names hostinfos / payloads / underlay addresses by numbers and classifies the packets that reached the "
                "recording socket; it gives each fresh pending handshake its own empty remote list",
                "gen/Consts_HostMap.v (MaxHostInfosPerVpnIp) is printed from the compiled-in constant",
                "the node's own-address tables (myVpnAddrsTable, myVpnNetworksTable) are built by the real pki.go newCertState from generated "
                "certificate material (v1 only, v2 only, v1+v2 with equal networks, v1+v2 where v2 certifies extra addresses; "
                "initiating_version 1 and 2); the model's own-address set is every address of every certificate the node holds"],
    "assumptions": ["the certificate addresses the handshake.Machine hands to the manager are those of the verified peer certificate (C01, C05)",
                    "crypto/rand.Read delivers the bytes of crypto/rand.Reader (the harness scripts the 4-byte index reads)",
                    "operations are atomic (each entry point holds the hostmap / handshake-manager locks for its critical section; "
                    "interleavings are the subject of C31/C34)"],
}

SPEC = {
    "title": "Firewall configuration parses exactly",
    "design_ref": "DESIGN.md section 4, C22",
    "technique": "Coq proof: characterisation of the ParseUint loop and of parsePort for all strings, soundness of the per-rule checks, and composition "
                 "with the C16 refinement theorem; model tied to firewall.go by a differential correspondence evaluated in Coq (T3) on YAML text "
                 "run through nebula's own config loader, a recording FirewallInterface and a real Firewall",
    "level_text": "Machine-checked Coq theorems for ALL strings and ALL YAML rule values (arbitrary field types): parsePort accepts exactly `any`, `fragment`, "
                  "a decimal in 0..65535, or lo-hi (split at the first dash, blanks trimmed) of such, with the stated result (0 and 0-x are any); a rule "
                  "list reaches AddRule only if every rule is a map with a known protocol, a valid port text (unless icmp), not both code and port, at least "
                  "one selector and parseable cidrs, and the AddRule arguments are the ones the text denotes; the real firewall loads iff additionally every "
                  "range has lo <= hi, and then its table admits exactly the packets the textual rules describe (composition with C16_refine); the loader "
                  "never panics. Tied to parsePort / AddFirewallRulesFromConfig by a table of port strings, generated strings and generated YAML "
                  "configurations that are loaded and then probed with Drop, and by whole firewalls built through the real NewFirewallFromConfig "
                  "(default_local_cidr_any true/false/absent x unsafe networks x rules with/without local_cidr in both directions) probed in both directions.",
    "level_note": "Trusted: Coq kernel; netip.ParsePrefix is a parameter of the theorems (the harness supplies its real results for the strings of each case); "
                  "fmt %v and yaml.v3 typing are modelled for nil/string/int/bool/float/list/map values (floats carried as their %v text); bart as in C16. "
                  "The correspondence is differential testing, so the link model<->Go is as strong as its generator. Found and repaired through this check: F21.",
    "gens": ["gen_fwrules"],
    "build_comp": "fwconfig",
    "props": ["props/C22.v"],
    "corr": ["corr/FwConfig_corr.v"],
    "comps": [{"comp": "fwconfig", "n_quick": 450, "n_thorough": 20000}],
    "trusted": ["model/FwConfig.v parse_port_value/parse_port/convert_rule/check_rule/load_list are hand-written mirrors of parsePortValue, parsePort, convertRule and "
                "AddFirewallRulesFromConfig (tied by correspondence)",
                "netip.ParsePrefix results are oracle inputs of the correspondence cases",
                "model/Firewall.v and lib/Ip.v as for C16"],
    "assumptions": ["strconv.ParseUint(s, 10, 16) behaves as documented (the model mirrors its loop)",
                    "netip.ParsePrefix is a function of its argument string"],
}

SPEC = {
    "title": "Relays forward only for the pair they were set up for",
    "design_ref": "DESIGN.md section 4, C39",
    "technique": "Coq proof by induction over all histories (invariant of the relay node model) with the two control handlers given by "
                 "complete decision tables that are regenerated from the real HandleControlMsg on every run (T2) and checked by reflection; "
                 "hand-written state threading, forward lookup and tunnel churn tied to the code by a differential correspondence evaluated "
                 "in Coq (T3), with the documented rules evaluated on the implementation's own dumps and forwards",
    "level_text": "Machine-checked Coq theorems over ALL histories of tunnel insertions/deletions (per-address cap, index collisions, dead "
                  "tunnels), am_relay reloads, control messages on any tunnel with arbitrary addresses, indexes, types and v1/v2 encodings, "
                  "StartRelays and InsertRelayTo. C39_forward_sound / C39_receive_path: whenever the lookups of handleOutsideRelayPacket forward "
                  "a packet from tunnel h with relay index idx to tunnel t under record r, then the record under idx on h is a forwarding "
                  "record created while this node had am_relay, naming an address that is not this node's; t is a live tunnel in the address "
                  "list of exactly that address and certified for it; r is an Established forwarding record of t (created while am_relay) "
                  "for one of h's certified addresses; the source is the live tunnel that owns the index in HostMap.Relays. "
                  "C39_request_gates / C39_response_gates (every row of the tables): forwarding state is created, the target leg touched "
                  "and a request passed on only with am_relay, for a target and source that are not this node, towards a known peer with a "
                  "direct address; a response completes only the record it names and never creates anything. C39_no_reflection: never back "
                  "to the sender, in histories where no tunnel asks for a relay to one of its own addresses; C39_reflection_needs_own_address "
                  "in general; C39_reflection_refuted: otherwise the relay does send a tunnel's packets back to it (reproduced on the code). "
                  "C39_transitions: every step keeps every record and moves its state only as the kind of step allows (message: into "
                  "Requested/Established; StartRelays: Disestablished->Requested; tunnel loss: into Disestablished), i.e. along "
                  "Requested->Established, PeerRequested->Established, Established<->Disestablished, Disestablished->Requested or the "
                  "conservative PeerRequested/Established->Requested, Requested/PeerRequested->Disestablished; never into PeerRequested; "
                  "Established only by control messages; C39_table_transitions_pinned: the tables perform exactly the listed message "
                  "transitions. C39_cleanup: after a tunnel is deleted, and forever after, no Relays/Indexes entry and no address list "
                  "refers to it and it is neither source nor target of a forward; C39_peer_legs_disestablished. The tables "
                  "(2376 + 270 rows) are regenerated on every run on >= 3 concrete situations per row (real HostMap, relayManager, "
                  "Interface with recording sockets, scripted crypto/rand); rows whose situations disagree or that touch anything "
                  "outside the two designated records fail the run.",
    "level_note": "Trusted: Coq kernel; the generator and shim that build the situations and abstract the effects; that the listed features "
                  "are all the handlers read is sampled (>= 3 situations per row), not proved. How features are read off the state, how "
                  "actions are applied (order, AddRelay with its retry loop and liveness check, create-if-absent), message contents, the "
                  "forward lookup, tunnel insertion/deletion with disestablishment and StartRelays are hand-written and tied by differential "
                  "testing of histories (state dump, wire messages, forward probes for every (tunnel, index) pair and the real receive "
                  "path readOutsidePackets after every step). The ghost fields r_am / r_org / t_alive are set by the model at record "
                  "creation / tunnel deletion. connection_manager.migrateRelayUsed (copies used relays to a new primary tunnel without "
                  "re-checking am_relay) and concurrent handler runs are outside the model. am_relay switched off by a reload leaves "
                  "existing forwarding records in place (they still forward) - noted, outside the property's quantifier. "
                  "Finding candidate (low severity): a tunnel may request a relay to its own address and confirm it itself; the relay "
                  "then reflects that tunnel's packets back to it (kind self-relay; C39_reflection_refuted).",
    "gens": ["gen_relay"],
    "props": ["props/C39.v"],
    "corr": ["corr/Relay_corr.v"],
    "build_comp": "relay",
    "comps": [{"comp": "relay", "n_quick": 80, "n_thorough": 1200}],
    "trusted": ["gen/Tab_Relay.v is produced by driving the real relayManager.HandleControlMsg over every abstract row, >= 3 concrete "
                "situations each (translator by exhaustive evaluation); soundness of the abstraction is sampled, not proved",
                "model/Relay.v qrow_of/xrow_of, step_request/step_response (application of the tabulated action), forward, add_tunnel, "
                "delete_tunnel, start_relays, deliver_to are hand-written mirrors tied by the history correspondence",
                "go/overlay/_root/verif_relay.go replaces the AEAD by a stand-in cipher, the sockets by recorders and crypto/rand by a "
                "scripted stream; hostmap, relay manager, handshake manager, connection manager and the receive path are the real ones"],
    "assumptions": ["control messages of one node are handled one at a time (no interleaving of two HandleControlMsg runs)",
                    "a tunnel's certified addresses (HostInfo.vpnAddrs) and this node's own addresses do not change during a history",
                    "no reflection: no tunnel requests a relay to one of its own addresses and none is named as source towards itself "
                    "(hypothesis reach_wf of C39_no_reflection; refuted otherwise)"],
}

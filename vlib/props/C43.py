SPEC = {
    "title": "Encrypted private keys open only with the right passphrase",
    "design_ref": "DESIGN.md section 4, C43",
    "level": "partial",
    "technique": "Coq proof over a wire-level model of the encrypted-key container (protobuf framing, banners, every check of "
                 "DecryptAndUnmarshalSigningPrivateKey) with AES-256-GCM and Argon2id as parameters under stated assumptions; constants "
                 "generated from the code (T1); the model tied to the real encrypt/decrypt and to the PEM key functions by a differential "
                 "correspondence evaluated in Coq (T3) that runs the real code on every single-byte mutation of real containers",
    "level_text": "PARTIAL (cryptography assumed). Machine-checked Coq theorems, for every kdf/enc/dec meeting the premises aead_correct, "
                  "aead_integrity (whatever opens under (key, nonce) is the sealing of its plaintext under exactly that key and nonce) and "
                  "kdf_injective: round trip with the right passphrase returns the curve and exactly the key (both curves, all keys of the "
                  "curve's length, all parameters in range, all salts >= 16 bytes); any other passphrase is refused; BINDING: any block "
                  "whatsoever (any banner, any bytes) that carries the honest ciphertext and opens under any passphrase has the right "
                  "passphrase and the original banner and decodes to exactly the original algorithm name, Argon2 version, memory, "
                  "parallelism, iterations, salt and nonce - so any alteration of those, including the other curve's banner (told apart "
                  "by the key length), is refused under every passphrase; whatever opens with an altered ciphertext carries a genuine "
                  "sealing under a key derived from the presented passphrase. Without assumptions: the container written for any field "
                  "values is read back exactly at the protobuf wire level; what opens is completely well formed; plain key PEM blocks "
                  "round-trip for every curve and kind and each unmarshal function accepts only its own two banners at the documented "
                  "length (acceptance matrix over all 10 key banners + certificate banners swept completely); banners, algorithm name, "
                  "Argon2 version, GCM sizes are generated from the code and pinned to the documented values. The assumptions are shown "
                  "satisfiable by a concrete instance.",
    "level_note": "Trusted/assumed: AES-256-GCM (Go crypto/aes, crypto/cipher) and Argon2id (x/crypto/argon2) meet the three premises - "
                  "idealisations (perfect integrity, key-committing sealing, collision-free derivation), NOT proved; encoding/pem (text "
                  "armour: base64, text around the block) is outside the model - a PEM block is (banner, bytes); google.golang.org/protobuf "
                  "is modelled at the wire level and tied by the correspondence. In the correspondence the model's decrypt runs in the "
                  "ideal world (symbolic key derivation, an oracle that opens only the real ciphertext under the honest key and nonce), so "
                  "what is compared with the real code is the framing and every check, not the cipher. 'Any alteration of the encrypted "
                  "data is refused' holds for alterations of a FIELD; byte changes that leave every field as it was (text around the PEM "
                  "block, unknown protobuf fields, field order, non-minimal varints, a repeated field whose last value is the original) "
                  "still open - the harness checks that they do. Trials whose unauthenticated Argon2 parameters would cost > 32 MiB or "
                  "> 64 passes are not executed (the code derives the key before anything is verified).",
    "gens": ["gen_keycrypt"],
    "props": ["props/C43.v"],
    "corr": ["corr/KeyCrypt_corr.v"],
    "build_comp": "keycrypt",
    "comps": [{"comp": "keycrypt", "n_quick": 4, "n_thorough": 80}],
    "trusted": ["gen/Consts_KeyCrypt.v: banners from the exported constants of cert/pem.go; algorithm name, Argon2 version, salt/nonce/tag "
                "sizes probed on a real EncryptAndMarshalSigningPrivateKey output",
                "model/KeyCrypt.v is a hand-written mirror of cert/crypto.go and the key functions of cert/pem.go (tied by correspondence: "
                "layout equality on real outputs, verdict equality on every mutation)",
                "the harness's independent decoder (encoding/pem + protowire primitives) that names the field a mutation hit",
                "documented constants not reachable from an overlay (function-local): minimum salt length 16, key lengths 64 / 32 / 65 "
                "(exercised by the length sweeps of the correspondence)"],
    "assumptions": ["aead_correct: gcm.Open(k, n, gcm.Seal(k, n, m)) = m",
                    "aead_integrity: dec k n c = Some m -> c = enc k n m, and enc is injective in (key, nonce, plaintext) - AES-256-GCM "
                    "authenticity idealised (it is not key-committing in general; honest ciphertexts do not open under an unrelated key "
                    "except with negligible probability)",
                    "kdf_injective: argon2.IDKey is collision-free in (passphrase, salt, iterations, memory, parallelism)",
                    "the ciphertext is non-empty and shorter than 2^32 bytes (GCM appends a 16-byte tag; checked on every real output)",
                    "encoding/pem decodes what it encodes"],
}

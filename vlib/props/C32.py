SPEC = {
    "title": "Pending handshakes retry, give up, and release queued packets correctly",
    "design_ref": "DESIGN.md section 4, C32 (timer wheel: C33, Appendix A.4)",
    "technique": "Coq proof over all operation histories of a hand-written model of the retry side of the handshake manager "
                 "(handleOutbound, cachePacket, NextOutboundHandshakeTimerTick, completion / restart in continueHandshake) built on the "
                 "C33 timer-wheel model with a ghost trace of wheel operations, so that the C33 timing theorems apply to every timer "
                 "entry; maxCachedPackets and the handshake defaults are generated from the code (T1); tied to the code by a "
                 "differential correspondence over operation histories evaluated in Coq (T3) on a real HandshakeManager with an explicit "
                 "clock, a recording socket, a real outbound Firewall and real Noise completions",
    "level_text": "Machine-checked Coq theorems for ALL histories (starts, queued packets, remote-list updates, lighthouse triggers, timer "
                  "ticks at any instants, completions, wrong-responder restarts), ALL tryInterval >= 2 ns, ALL retries >= 0, ALL outbound "
                  "rule sets. Queue: every queue holds at most maxCachedPackets (= 100, pinned to the generated constant) packets; a "
                  "packet is appended at the end or, when the queue is full, dropped (C32_queue_bound, C32_cache). Release: on completion "
                  "the packets sent are exactly the queued packets the outbound firewall oracle allows, each once, in order, and the "
                  "pending entry and its index are removed (C32_release); on a wrong-responder restart the queue moves intact to the new "
                  "attempt (C32_restart_keeps_queue); the same with the tun reader interleaved - a packet that goes through GetOrHandshake + "
                  "cachePacket while continueHandshake is between the receipt of the stage 2 and Complete / the restart is part of the "
                  "queue that is replayed / moved (C32_release_interleaved, C32_restart_interleaved; the harness produces this "
                  "interleaving deterministically from inside the node's log handler at the 'Handshake message received' and "
                  "'Incorrect host responded' log lines of continueHandshake and at the 'Handshake message received' line of "
                  "beginHandshake, case kinds interleave-at-*). Attempts: each handleOutbound call raises the counter by exactly one; a "
                  "timer-driven call sends stage 0 to every remote and re-arms the timer with tryInterval * counter; a lighthouse-"
                  "triggered call never touches the timer wheel and sends only when the remote list changed (C32_attempt); a pending "
                  "handshake survives exactly `retries` calls and the next one removes the entry and its index without sending or "
                  "re-arming (C32_survives, C32_gives_up_after, C32_gives_up). Timing: every Timer.Add asks for tryInterval * c, which the "
                  "wheel turns into exactly c ticks (C32_entry_timeout), and with a clock that never steps back the entry added after the "
                  "tick at instant t is still waiting while no tick is beyond t + c * tryInterval and has been handed to handleOutbound "
                  "once a tick is at or beyond t + (c + 1) * tryInterval - at most one tick late (C32_entry_timing, from the C33 theorems "
                  "through the trace invariant C32_trace). "
                  "System level (component sysmon_C32): in seeded event histories of four real nodes built by nebula.Main (an unsafe network reachable through two gateways with equal and unequal ECMP weights, gateways without a tunnel while traffic flows, then their handshakes completing) every inner packet handed to a tun is sealed for the wire at most once in total whichever gateway carries it, is delivered at most once in total across all gateways, and a packet that was queued on a pending handshake is sent exactly once when that handshake completes if the outbound firewall allows it.",
    "level_note": "Two deviations of the code from the plain reading of the property are proved as witnesses and reproduced on the real "
                  "code by the correspondence corpus: (1) a lighthouse-triggered handleOutbound counts as an attempt even when it sends "
                  "nothing (C32_trigger_consumes_attempts_refuted), so `retries` bounds timer-driven plus triggered calls; (2) the timer "
                  "wheel has no removal, so after a wrong-responder restart (or a new StartHandshake for an address whose old entry is "
                  "still in the wheel) two timer entries drive one handshake and transmissions come early "
                  "(C32_stale_entry_doubles_refuted). The timing theorem is therefore stated per timer entry; the statement 'the k-th "
                  "transmission follows the previous one by tryInterval * k' for a handshake follows from it only while the address has a "
                  "single timer entry and no triggers - that corollary is checked by the executable specification on the real traces, "
                  "not proved (partial). Modelled, not verified: Noise / certificates / hostmaps (C05-C10, C28), the remote list order "
                  "(C37; the list CopyAddrs returns is an input), the firewall verdict (C16; an oracle on the destination port here), "
                  "buildStage0Packet always succeeds. The link model<->Go is differential testing and as strong as its generator.",
    "gens": ["gen_hsmgr"],
    "props": ["props/C32.v"],
    "corr": ["corr/HsRetry_corr.v"],
    "build_comp": "hsmgr",
    "comps": [{"comp": "hsretry", "n_quick": 80, "n_thorough": 800}, {"comp": "sysmon_C32", "e2e": True, "n_quick": 12, "n_thorough": 150}],
    "trusted": ["model/HsRetry.v is a hand-written mirror of handshake_manager.go (StartHandshake, cachePacket, handleOutbound, "
                "NextOutboundHandshakeTimerTick, hsTimeout, the completion and restart branches of continueHandshake) over model/Wheel.v "
                "(C33); tied by the correspondence",
                "gen/Consts_HsMgr.v (maxCachedPackets, DefaultHandshakeRetries, DefaultHandshakeTryInterval) is printed from the "
                "compiled-in constants",
                "the overlay shim verif_hsmgr.go drives StartHandshake / GetOrHandshake + cachePacket / handleOutbound / "
                "NextOutboundHandshakeTimerTick / HandleIncoming of a real HandshakeManager, plays the answering peers with flynn/noise, "
                "reads released packets with the peer's receive key and reports the pending handshakes (counter, ready, queue) and the "
                "owners of the pending index map"],
    "assumptions": ["the clock handed to NextOutboundHandshakeTimerTick never steps back (time.Now of the ticker: monotonic reading) - "
                    "only for C32_entry_timing",
                    "int64 arithmetic of tryInterval * counter and hsTimeout does not overflow (retries * tryInterval far below 2^63 ns)",
                    "operations are atomic (handleOutbound and continueHandshake hold the HandshakeHostInfo lock)"],
}

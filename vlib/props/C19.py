def classify(case):
    """reload-version-wrap (known finding F25) exactly for histories in which some installed reload takes
    rulesVersion from 65535 to 0 (the conntrack reset at the wrap cuts flows the rules still allow)."""
    c = (case or {}).get("case") or {}
    try:
        v = int(c.get("v0", 0))
        for e in c.get("events", []):
            if e and e[0] == "reload":
                v = (v + 1) % 65536
                if v == 0:
                    return "reload-version-wrap"
    except Exception:
        return None
    return None


SPEC = {
    "title": "Tracked flows are revalidated after a rule reload",
    "design_ref": "DESIGN.md section 4, C19",
    "technique": "Coq proof (invariants and a simulation with a per-flow history-level specification, by induction over arbitrary "
                 "histories of packets, sleeps and reloads of a model of Interface.reloadFirewall + Firewall.Drop) and a "
                 "differential correspondence through the real Interface.reloadFirewall under the testing/synctest virtual "
                 "clock, evaluated in Coq (T3)",
    "level_text": "Machine-checked Coq theorems over ALL sequences of reloads interleaved with traffic and sleeps, for every rule "
                  "semantics: a packet passes only if a rule now loaded allows it or its flow is tracked, not idle past its timeout, "
                  "and the flow's ORIGINAL direction is allowed by the rules now loaded (re-checked by the first packet after the "
                  "reload); otherwise the flow is deleted and stays forgotten; a reload that decides a flow the same way never cuts "
                  "it as long as rulesVersion does not wrap; at the uint16 wrap the conntrack is reset, so for any number of reloads "
                  "an entry carrying the current version was validated against the current rules (a stale entry never looks "
                  "current). The reset at the wrap does cut established flows under unchanged rules once per 65 536 reloads "
                  "(C19_same_rules_wrap_refuted, reproduced on the real code: known finding F25, signature reload-version-wrap); "
                  "the specification as the property states it (no reset) is proved for every history without a wrap and is "
                  "the one evaluated on the implementation, so the wrap witness reproduces on every run. With a routine-local conntrack cache a reload does not empty the cache: a cached flow skips "
                  "revalidation until the next tick and no longer (C19_cache_staleness_bounded; specification with a cache on all "
                  "histories). The model is tied to interface.go/firewall.go by "
                  "histories driven through the real reloadFirewall (config.C reload callback) with generated rule sets including "
                  "reverted rules, rules saying the same in other words, timeout-only changes, unchanged configurations and "
                  "unsafe-network changes of our certificate, with rulesVersion preset near 65535 through the overlay; the "
                  "specification is evaluated on every verdict the real Drop returned.",
    "level_note": "Trusted: Coq kernel; the harness, the overlay shim (it builds Interface{pki, firewall, l} and registers "
                  "reloadFirewall as the reload callback, as RegisterConfigChangeCallbacks does), Go's testing/synctest clock. "
                  "Rule matching (C16) and the address checks (C17) are taken from the real code per (rule set, peer, tuple) and "
                  "are abstract in the theorems. About a third of the histories run with the real ConntrackCacheTicker (1 s period), the rest with a nil cache. Whether a reload "
                  "detects a change (config.C.HasChanged on the YAML text) is an input of the model, checked against the "
                  "implementation. The correspondence is differential testing (sweep + random).",
    "build_comp": "conntrack",
    "gens": ["gen_conntrack"],
    "props": ["props/C19.v"],
    "corr": ["corr/Conntrack_corr.v"],
    "comps": [{"comp": "fwreload", "n_quick": 200, "n_thorough": 5000}],
    "trusted": ["model/FwReload.v is a hand-written mirror of Interface.reloadFirewall (version +1 in uint16, conntrack inherited, "
                "reset at 0); model/Conntrack.v mirrors the revalidation in inConns; tied by the correspondence",
                "allowed / addr_ok are tabulated per case by the real FirewallTable.match and the real address lookups, per loaded "
                "rule set (rules text + unsafe networks of our certificate)"],
    "assumptions": ["reloadFirewall holds the conntrack lock while swapping the firewall (reload is atomic w.r.t. Drop)",
                    "C19_same_rules_never_cut: each remote address passes the address checks for one peer only, and the reload "
                    "does not wrap rulesVersion",
                    "the nil-cache theorems are about Drop with a nil routine cache"],
    "classify": classify,
}

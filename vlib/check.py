"""bin/check <ID> [--tier quick|thorough] [--seed N] [--replay FILE]"""
import argparse
import json
import os
import sys
import time

from . import core
from .registry import PROPS

COMMON_TRUSTED = [
    "Coq 8.16.1 kernel and vm_compute (no native_compute); full .vo build via coq_makefile",
    "the Go harness, overlay shims, Gallina literal printer and this driver (vlib/), which tie the model to /repo",
    "cases are evaluated inside Coq (cases_*.v + Eval vm_compute): no extraction in the trusted base",
]


def main(argv=None):
    ap = argparse.ArgumentParser()
    ap.add_argument("pid")
    ap.add_argument("--tier", default=os.environ.get("VERIF_TIER", "quick"))
    ap.add_argument("--seed", type=int, default=int(os.environ.get("VERIF_SEED", "1") or 1))
    ap.add_argument("--replay")
    a = ap.parse_args(argv)
    if a.tier not in ("quick", "thorough"):
        a.tier = "quick"
    if a.pid not in PROPS:
        print("unknown property %s" % a.pid)
        return 2
    return Check(a.pid, a.tier, a.seed, a.replay).run()


class Check:
    def __init__(self, pid, tier, seed, replay=None):
        self.pid, self.tier, self.seed, self.replay = pid, tier, seed, replay
        self.spec = PROPS[pid]
        self.t0 = time.time()
        self.viol = []        # (payload, has_input)
        self.known = []       # text lines
        self.broken = []      # broken obligations / correspondences (no input yet)
        self.cov = {"evaluations": 0, "distinct_nontrivial": 0, "samples": [], "traces_validated_against_impl": 0,
                    "distribution": {}, "components": {}}
        self.rules = []
        self.obligations = 0
        self.discharged = 0
        self.axioms = []
        self.theorems = []
        self.notes = []

    # -- steps ----------------------------------------------------------------------------------
    def run(self):
        only_index = None
        if self.replay:
            with open(self.replay) as f:
                rp = json.load(f)
            self.seed = rp.get("seed", self.seed)
            self.tier = rp.get("tier", self.tier)
            only_index = rp.get("index")
            self.replay_comp = rp.get("component")
            self.replay_n = rp.get("n")
        try:
            self.step_obligations()
            self.step_components(only_index)
        except Exception as e:  # a crash of the machinery must not look like a pass
            import traceback
            self.broken.append({"kind": "machinery-error", "name": "bin/check", "detail": traceback.format_exc()[-4000:]})
        return self.finish()

    def step_obligations(self):
        sp = self.spec
        # 1. harness (needed for the generated files)
        comps = sp.get("comps", [])
        need_plain = bool(sp.get("gens")) or any(not c.get("e2e") for c in comps)
        need_e2e = any(c.get("e2e") for c in comps) or bool(sp.get("gens_e2e"))
        self.bins = {}
        first = (comps[0]["comp"] if comps else None) or (sp.get("gens") or [None])[0]
        for e2e in ([False] if need_plain else []) + ([True] if need_e2e else []):
            b, err = core.build_harness(comp=sp.get("build_comp", first), e2e=e2e)
            if b is None:
                self.broken.append({"kind": "broken-tie", "name": "harness build (overlay shims no longer match /repo)",
                                    "detail": err[-4000:]})
            self.bins[e2e] = b
        # 2. generated Coq files (T1/T2): regenerated from the working tree on every run
        self.rundir = os.path.join(core.WORK, "run_%s_%d" % (self.pid, os.getpid()))
        os.makedirs(self.rundir, exist_ok=True)
        gdir = os.path.join(self.rundir, "gen")
        for g, e2e in [(g, False) for g in sp.get("gens", [])] + [(g, True) for g in sp.get("gens_e2e", [])]:
            b = self.bins.get(e2e)
            if b is None:
                continue
            rc, log = core.harness(b, g, gdir, seed=self.seed, n=0, tier=self.tier)
            if rc != 0:
                self.broken.append({"kind": "broken-tie", "name": "generator " + g, "detail": log[-4000:]})
                continue
        if os.path.isdir(gdir):
            with core.Lock("coqmake"):
                for fn in sorted(os.listdir(gdir)):
                    if fn.endswith(".v"):
                        with open(os.path.join(gdir, fn)) as f:
                            core.write_if_changed(os.path.join(core.COQ, "gen", fn), f.read())
        # 3. proof obligations
        targets = [v[:-2] + ".vo" for v in sp.get("props", [])]
        corr_targets = [v[:-2] + ".vo" for v in sp.get("corr", [])]
        ok, log = core.coq_make(targets + corr_targets)
        for pv in sp.get("props", []):
            ths = core.theorems_of(os.path.join(core.COQ, pv))
            self.theorems += ths
            self.obligations += len(ths)
        if not ok:
            errs = core.coq_error_summary(log)
            self.broken.append({"kind": "broken-obligation", "name": "coq build of " + ", ".join(targets),
                                "detail": "\n".join(errs) if errs else log[-4000:]})
            # the models and correspondence files hold no proofs: build them alone so the search can run
            ok2, log2 = core.coq_make(corr_targets)
            if not ok2:
                self.broken.append({"kind": "broken-tie", "name": "coq build of " + ", ".join(corr_targets),
                                    "detail": "\n".join(core.coq_error_summary(log2)) or log2[-3000:]})
        else:
            for pv in sp.get("props", []):
                rc, closed, axioms, out = core.print_assumptions(pv)
                n = len(core.theorems_of(os.path.join(core.COQ, pv)))
                bad = [x for x in axioms if x.split(".")[-1] not in {s.split(".")[-1] for s in core.STD_AXIOMS}]
                self.axioms += axioms
                if rc != 0 or bad or closed + (1 if axioms else 0) < 1:
                    self.broken.append({"kind": "broken-obligation", "name": "Print Assumptions of " + pv,
                                        "detail": "non-standard axioms: %s\n%s" % (bad, out[-2000:])})
                else:
                    self.discharged += n
        hits = core.forbidden_scan(targets + corr_targets)
        if hits:
            self.broken.append({"kind": "broken-obligation", "name": "forbidden token in coq/", "detail": "\n".join(hits[:20])})
        if self.tier == "thorough" and ok and not self.replay and self.spec.get("coqchk", True):
            t = time.time()
            with core.Lock("coqchk"):
                mods = ["NV." + pv[:-2].replace("/", ".") for pv in sp.get("props", [])]
                rc, out = core.run(["coqchk", "-silent", "-o", "-Q", ".", "NV"] + mods, cwd=core.COQ, timeout=7200)
            self.cov["coqchk"] = {"rc": rc, "wall_s": round(time.time() - t, 1), "tail": out[-1500:]}
            if rc != 0:
                self.broken.append({"kind": "broken-obligation", "name": "coqchk", "detail": out[-3000:]})

    def step_components(self, only_index=None):
        for c in self.spec.get("comps", []):
            if self.replay and getattr(self, "replay_comp", None) not in (None, c["comp"]):
                continue
            b = self.bins.get(bool(c.get("e2e")))
            if b is None:
                continue
            self.obligations += 1
            n = c.get("n_thorough", c.get("n_quick", 1000) * 10) if self.tier == "thorough" else c.get("n_quick", 1000)
            if self.replay and getattr(self, "replay_n", None):
                n = self.replay_n
            out = os.path.join(self.rundir, c["comp"])
            if os.path.isdir(out):
                for fn in os.listdir(out):
                    if fn.startswith("cases_") or fn in ("meta.json", "cases.jsonl"):
                        os.remove(os.path.join(out, fn))
            t = time.time()
            rc, log = core.harness(b, c["comp"], out, seed=self.seed, n=n, tier=self.tier, timeout=c.get("timeout", 600 if self.tier == "quick" else 3000))
            if rc != 0 or not os.path.exists(os.path.join(out, "meta.json")):
                self.broken.append({"kind": "broken-tie", "name": "harness component %s exited %d" % (c["comp"], rc),
                                    "component": c["comp"], "detail": log[-4000:]})
                continue
            with open(os.path.join(out, "meta.json")) as f:
                meta = json.load(f)
            mism, errs = core.run_cases(out)
            for fl in meta.get("failures", []):   # failures the harness established directly on the implementation
                mism.append((fl["i"], fl.get("code", 2)))
            wall = time.time() - t
            self.cov["evaluations"] += meta.get("evaluations", 0)
            self.cov["distinct_nontrivial"] += meta.get("distinct_nontrivial", 0)
            self.cov["traces_validated_against_impl"] += meta.get("evaluations", 0)
            self.cov["samples"] += meta.get("samples", [])[:4]
            self.cov["components"][c["comp"]] = {k: v for k, v in meta.items() if k not in ("samples", "failures")}
            self.cov["components"][c["comp"]]["wall_s"] = round(wall, 1)
            self.rules.append("%s: %s" % (c["comp"], meta.get("rule", "")))
            if errs:
                self.broken.append({"kind": "broken-tie", "name": "cases of %s do not evaluate in Coq" % c["comp"],
                                    "component": c["comp"], "detail": "\n".join(errs)[-4000:]})
                continue
            if only_index is not None:
                mism = [m for m in mism if m[0] == only_index]
            classify = self.spec.get("classify")
            kf = core.known_findings(self.pid)
            seen_sig = set()
            comp_ok = True
            by_index = {}
            for i, code in mism:
                by_index.setdefault(i, set()).add(code)
            for i in sorted(by_index):
                codes = by_index[i]
                case = core.load_case(out, i) or {"i": i}
                sig = classify(case) if classify else None
                # A known finding is behaviour the faithful model reproduces: the property's spec rejects it (code 2)
                # while model and implementation agree. A case where the implementation ALSO differs from the model
                # (code 1) is a different violation, even inside a known finding's region, and is reported.
                hit = next((e for e in kf if sig is not None and e.get("signature") == sig and 1 not in codes), None)
                if hit:
                    line = "KNOWN-FINDING: property=%s %s (%s)" % (self.pid, hit.get("what", sig), hit.get("id", ""))
                    if line not in self.known:
                        self.known.append(line)
                    continue
                comp_ok = False
                has_input = any(cd != 1 for cd in codes)
                key = (sig, has_input, case.get("kind"))
                if key in seen_sig or len(seen_sig) >= 5:
                    continue
                seen_sig.add(key)
                payload = {"property": self.pid, "kind": "failing-input" if has_input else "broken-correspondence",
                           "component": c["comp"], "index": i, "codes": sorted(codes), "seed": self.seed, "tier": self.tier,
                           "n": n, "signature": sig, "case": case.get("case"), "case_kind": case.get("kind"),
                           "name": "correspondence %s vs /repo (%s)" % (", ".join(self.spec.get("corr", [])), c["comp"]),
                           "codes_meaning": "1 = model output differs from implementation; 2 = the property's executable spec rejects the implementation's output; >=3 component specific",
                           "rerun": "bin/check %s --replay <this file>" % self.pid}
                self.viol.append((payload, has_input))
            if comp_ok:
                self.discharged += 1

    def finish(self):
        rc = 0
        lines = []
        any_input = any(h for _, h in self.viol)
        for payload, has_input in self.viol:
            path = core.write_replay(self.pid, payload)
            if any_input and not has_input:
                # a concrete failing input exists; further model-only disagreements are listed, not reported as separate violations
                lines.append("NOTE property=%s additional model/implementation disagreement: %s" % (self.pid, path))
                continue
            lines.append("VIOLATION property=%s replay=%s%s" % (self.pid, path, "" if has_input else " no-failing-input-found"))
        if self.broken and not any_input:
            payload = {"property": self.pid, "kind": "broken-obligation", "broken": self.broken, "seed": self.seed,
                       "tier": self.tier, "theorems": self.theorems,
                       "note": "no concrete failing input was found by the search (correspondence cases, boundary generators)"}
            path = core.write_replay(self.pid, payload)
            lines.append("VIOLATION property=%s replay=%s no-failing-input-found" % (self.pid, path))
        elif self.broken:
            payload = {"property": self.pid, "kind": "broken-obligation", "broken": self.broken}
            path = core.write_replay(self.pid, payload)
            lines.append("NOTE property=%s additionally broken obligations: %s" % (self.pid, path))
        for l in self.known:
            print(l)
        nviol = len([l for l in lines if l.startswith("VIOLATION")])
        if nviol:
            rc = 1
        sp = self.spec
        cov = self.cov
        cov.update({
            "obligations": self.obligations, "discharged": self.discharged,
            "checker_cmd": "make -C coq %s && coqc -Q . NV <props> (Print Assumptions) && harness <component> | coqc cases_*.v%s"
                           % (" ".join(v[:-2] + ".vo" for v in sp.get("props", [])),
                              " && coqchk -silent -o" if self.tier == "thorough" else ""),
            "trusted_base": COMMON_TRUSTED + sp.get("trusted", []) +
                            ["axioms reported by Print Assumptions: %s" % (", ".join(sorted(set(self.axioms))) or "none (Closed under the global context)")],
            "rule": " | ".join(self.rules) or sp.get("rule", ""),
            "theorems": self.theorems,
            "known_findings_reproduced": self.known,
            "broken": [b.get("name") for b in self.broken],
        })
        if not cov["samples"]:
            cov["samples"] = [{"theorem": t} for t in self.theorems[:5]]
        ev = {"property_id": self.pid, "tier": self.tier, "seed": self.seed, "level": sp.get("level") if sp.get("level") in ("exploration", "fault_enumeration", "model_checking", "proof", "translation_validation", "other") else "proof",
              "coverage": cov, "assumptions": sp.get("assumptions", []), "wall_s": round(time.time() - self.t0, 2),
              "violations": nviol}
        core.write_evidence(self.pid, ev)
        for l in lines:
            print(l)
        if os.environ.get("VERIF_KEEP") != "1" and getattr(self, "rundir", None):
            import shutil
            shutil.rmtree(self.rundir, ignore_errors=True)
        if rc == 0:
            print("OK property=%s tier=%s obligations=%d/%d cases=%d wall=%.1fs" % (
                self.pid, self.tier, self.discharged, self.obligations, cov["evaluations"], time.time() - self.t0))
        return rc


if __name__ == "__main__":
    sys.exit(main())

"""Core of the /verif check driver: builds, generated Coq files, proof obligations, correspondence,
failing-input search, known findings, evidence."""
import concurrent.futures as cf
import fcntl
import hashlib
import json
import os
import re
import shutil
import subprocess
import sys
import time

ROOT = os.path.dirname(os.path.dirname(os.path.abspath(__file__)))
REPO = os.environ.get("VERIF_REPO", "/repo")
WORK = os.path.join(ROOT, "work")
COQ = os.path.join(ROOT, "coq")
GO = os.path.join(ROOT, "go")
NPROC = os.cpu_count() or 4

FORBIDDEN = re.compile(
    r"\b(Admitted|Axiom|Axioms|Parameter|Parameters|Conjecture|Conjectures|Admit Obligations|give_up|"
    r"Unset Guard Checking|Unset Positivity Checking|Unset Universe Checking|bypass_check|native_compute)\b"
    r"|(?<![\w.'])admit\s*[.;)\]|]|-type-in-type|-impredicative-set")

# axioms of the Coq standard library that may appear under Print Assumptions (each is named in evidence)
STD_AXIOMS = {
    "functional_extensionality_dep", "propositional_extensionality", "proof_irrelevance", "classic",
    "JMeq_eq", "eq_rect_eq", "Eqdep.Eq_rect_eq.eq_rect_eq", "FunctionalExtensionality.functional_extensionality_dep",
    "ClassicalDedekindReals.sig_forall_dec", "ClassicalDedekindReals.sig_not_dec", "constructive_indefinite_description",
}


def goenv():
    e = dict(os.environ)
    e["GOFLAGS"] = "-mod=mod"
    e["GOPROXY"] = "off"
    # the repo needs go1.26.0, which the default go only reaches by auto-switching to the cached toolchain
    for k in ("GOTOOLCHAIN", "GOSUMDB", "GONOSUMDB", "GONOSUMCHECK", "GOFLAGS_EXTRA"):
        e.pop(k, None)
    return e


class Lock:
    def __init__(self, name):
        os.makedirs(WORK, exist_ok=True)
        self.path = os.path.join(WORK, "." + name + ".lock")

    def __enter__(self):
        self.f = open(self.path, "w")
        fcntl.flock(self.f, fcntl.LOCK_EX)
        return self

    def __exit__(self, *a):
        fcntl.flock(self.f, fcntl.LOCK_UN)
        self.f.close()


def run(cmd, cwd=None, env=None, timeout=None, stdin=None):
    p = subprocess.run(cmd, cwd=cwd, env=env, timeout=timeout, stdout=subprocess.PIPE, stderr=subprocess.STDOUT,
                       text=True, errors="replace", input=stdin)
    return p.returncode, p.stdout


def write_if_changed(path, content):
    try:
        with open(path) as f:
            if f.read() == content:
                return False
    except FileNotFoundError:
        pass
    os.makedirs(os.path.dirname(path), exist_ok=True)
    tmp = path + ".tmp%d" % os.getpid()
    with open(tmp, "w") as f:
        f.write(content)
    os.replace(tmp, path)
    return True


# ---------------------------------------------------------------------------------------------
# Go harness
# ---------------------------------------------------------------------------------------------

def _overlay_json(tags):
    """Every file under go/overlay/<pkg path>/ is injected into /repo/<pkg path>/ (root package: _root)."""
    repl = {}
    base = os.path.join(GO, "overlay")
    for d, _, files in os.walk(base):
        for fn in files:
            if not fn.endswith(".go"):
                continue
            rel = os.path.relpath(d, base)
            pkg = "" if rel == "_root" else (rel[6:] if rel.startswith("_root/") else rel)
            repl[os.path.join(REPO, pkg, fn)] = os.path.join(d, fn)
    path = os.path.join(WORK, "overlay.json")
    write_if_changed(path, json.dumps({"Replace": repl}, indent=1, sort_keys=True))
    return path


def build_harness(comp=None, e2e=False):
    """Build the harness against /repo's working tree. Returns (binary, None) or (None, error text).
    First the all-components binary; if that does not compile (an overlay shim of some other component no
    longer matches the code), a binary holding only `comp`."""
    os.makedirs(os.path.join(WORK, "bin"), exist_ok=True)
    with Lock("gobuild"):
        shutil.copyfile(os.path.join(REPO, "go.sum"), os.path.join(GO, "go.sum"))
        ov = _overlay_json(None)
        base_tags = ["verif"] + (["e2e_testing"] if e2e else [])
        suffix = "_e2e" if e2e else ""
        out = os.path.join(WORK, "bin", "harness" + suffix)
        rc, log = run(["go", "build", "-tags", ",".join(base_tags + ["comp_all"]), "-overlay", ov, "-o", out,
                       "./cmd/harness"], cwd=GO, env=goenv(), timeout=1500)
        if rc == 0:
            return out, None
        if comp is None:
            return None, log
        out1 = os.path.join(WORK, "bin", "harness%s_%s" % (suffix, comp))
        rc1, log1 = run(["go", "build", "-tags", ",".join(base_tags + ["comp_" + comp]), "-overlay", ov, "-o", out1,
                         "./cmd/harness"], cwd=GO, env=goenv(), timeout=1500)
        if rc1 == 0:
            return out1, None
        return None, log1


def harness(binary, comp, out, seed=1, n=1000, tier="quick", extra=(), timeout=3000):
    os.makedirs(out, exist_ok=True)
    cmd = [binary, "-out", out, "-seed", str(seed), "-n", str(n), "-tier", tier] + list(extra) + [comp]
    return run(cmd, cwd=GO, env=goenv(), timeout=timeout)


# ---------------------------------------------------------------------------------------------
# Coq
# ---------------------------------------------------------------------------------------------

def mkcoqproject():
    rc, log = run([os.path.join(ROOT, "bin", "mkcoqproject")])
    if rc != 0:
        raise RuntimeError("mkcoqproject failed: " + log)


def coq_make(targets, timeout=3000):
    """make the given .vo targets (full .vo build). Returns (ok, log)."""
    with Lock("coqmake"):
        mkcoqproject()
        rc, log = run(["make", "-j%d" % NPROC, "-k"] + list(targets), cwd=COQ, timeout=timeout)
    return rc == 0, log


def coq_error_summary(log):
    """Pull 'File "...", line N ... Error: ...' blocks out of a make log."""
    out = []
    lines = log.splitlines()
    for i, l in enumerate(lines):
        if l.startswith("File ") and i + 1 < len(lines) and "Error" in "\n".join(lines[i + 1:i + 4]):
            out.append("\n".join(lines[i:i + 8]))
    return out[:5]


def dep_closure(targets):
    """The .v files the given .vo targets depend on (from coq_makefile's .Makefile.d), incl. themselves."""
    deps = {}
    try:
        with open(os.path.join(COQ, ".Makefile.d")) as f:
            for line in f.read().replace("\\\n", " ").splitlines():
                if ":" not in line:
                    continue
                lhs, rhs = line.split(":", 1)
                vo = [x for x in lhs.split() if x.endswith(".vo")]
                ds = [x for x in rhs.split() if x.endswith(".vo") and not x.startswith("/")]
                for v in vo:
                    deps.setdefault(v, set()).update(ds)
    except FileNotFoundError:
        return None
    seen, todo = set(), list(targets)
    while todo:
        t = todo.pop()
        if t in seen:
            continue
        seen.add(t)
        todo += list(deps.get(t, ()))
    return {t[:-1] for t in seen}


def forbidden_scan(targets=None):
    """No admits, axioms or switched-off checks in the development this property depends on
    (whole coq/ tree when no targets are given)."""
    hits = []
    only = dep_closure(targets) if targets else None
    for d, _, files in os.walk(COQ):
        for fn in files:
            if fn.endswith(".v"):
                p = os.path.join(d, fn)
                if only is not None and os.path.relpath(p, COQ) not in only:
                    continue
                with open(p, errors="replace") as f:
                    txt = f.read()
                txt = re.sub(r"\(\*.*?\*\)", "", txt, flags=re.S)
                for m in FORBIDDEN.finditer(txt):
                    hits.append("%s: %s" % (os.path.relpath(p, ROOT), m.group(0)))
    for fn in ("_CoqProject",):
        p = os.path.join(COQ, fn)
        if os.path.exists(p):
            with open(p) as f:
                for m in FORBIDDEN.finditer(f.read()):
                    hits.append("%s: %s" % (fn, m.group(0)))
    return hits


def theorems_of(vfile):
    with open(vfile) as f:
        txt = f.read()
    txt = re.sub(r"\(\*.*?\*\)", "", txt, flags=re.S)
    return re.findall(r"^\s*Theorem\s+([A-Za-z0-9_']+)", txt, flags=re.M)


def print_assumptions(prop_v):
    """Re-run coqc on the property file and collect what Print Assumptions printed for each theorem."""
    rc, out = run(["coqc", "-Q", ".", "NV", "-w", "-notation-overridden", prop_v], cwd=COQ, timeout=1200)
    closed = len(re.findall(r"Closed under the global context", out))
    axioms = []
    for blk in re.findall(r"Axioms:\n((?:.+\n?)+?)(?:\n|$)", out):
        for l in blk.splitlines():
            m = re.match(r"^([A-Za-z0-9_.']+)\s*:", l)
            if m:
                axioms.append(m.group(1))
    return rc, closed, sorted(set(axioms)), out


def _run_cases_file(path):
    d = os.path.dirname(path)
    t0 = time.time()
    rc, out = run(["coqc", "-Q", COQ, "NV", "-w", "-notation-overridden", os.path.basename(path)], cwd=d, timeout=3000)
    return path, rc, out, time.time() - t0


def run_cases(dirpath, workers=None):
    """Evaluate every cases_*.v with vm_compute inside Coq. Returns (mismatches [(index, code)], errors [text])."""
    files = sorted(f for f in os.listdir(dirpath) if re.match(r"cases_\d+\.v$", f))
    mism, errs = [], []
    with cf.ThreadPoolExecutor(max_workers=workers or NPROC) as ex:
        for path, rc, out, dt in ex.map(_run_cases_file, [os.path.join(dirpath, f) for f in files]):
            if rc != 0:
                errs.append("%s: coqc failed:\n%s" % (os.path.basename(path), out[-3000:]))
                continue
            flat = " ".join(out.split())
            m = re.search(r"M = (.*?) : list \(N \* N\)", flat)
            if not m:
                errs.append("%s: unparsable output: %s" % (os.path.basename(path), flat[:500]))
                continue
            for a, b in re.findall(r"\(\s*(\d+)\s*,\s*(\d+)\s*\)", m.group(1)):
                mism.append((int(a), int(b)))
    return sorted(set(mism)), errs


def load_case(dirpath, index):
    with open(os.path.join(dirpath, "cases.jsonl")) as f:
        for line in f:
            if line.startswith('{"case"') or '"i":%d,' % index in line or '"i": %d,' % index in line:
                d = json.loads(line)
                if d.get("i") == index:
                    return d
    return None


# ---------------------------------------------------------------------------------------------
# Known findings, replays, evidence
# ---------------------------------------------------------------------------------------------

def known_findings(pid):
    p = os.path.join(ROOT, "KNOWN_FINDINGS.json")
    if not os.path.exists(p):
        return []
    with open(p) as f:
        data = json.load(f)
    return [e for e in data.get("findings", []) if e.get("property") == pid and e.get("status") == "known"]


def write_replay(pid, payload):
    d = os.path.join(ROOT, "replays", pid)
    os.makedirs(d, exist_ok=True)
    body = json.dumps(payload, indent=1, sort_keys=True, default=str)
    h = hashlib.sha1(body.encode()).hexdigest()[:12]
    path = os.path.join(d, h + ".json")
    with open(path, "w") as f:
        f.write(body)
    return path


def write_evidence(pid, ev):
    d = os.path.join(ROOT, "evidence")
    os.makedirs(d, exist_ok=True)
    path = os.path.join(d, pid + ".json")
    with open(path + ".tmp", "w") as f:
        json.dump(ev, f, indent=1, sort_keys=True, default=str)
    os.replace(path + ".tmp", path)
    return path

"""Property registry: one module per property under vlib/props/Cxx.py, each defining SPEC (a dict)."""
import importlib
import os
import pkgutil

PROPS = {}
_here = os.path.join(os.path.dirname(os.path.abspath(__file__)), "props")
for m in sorted(pkgutil.iter_modules([_here]), key=lambda m: m.name):
    if m.name.startswith("C"):
        mod = importlib.import_module("vlib.props." + m.name)
        PROPS[m.name] = mod.SPEC

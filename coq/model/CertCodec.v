(* CertCodec: executable model of nebula's certificate codecs (definitions only, no proofs).

     cert/cert_v2.go   detailsV2.Marshal, certificateV2.Marshal / MarshalForHandshakes / Fingerprint / validate,
                       unmarshalCertificateV2, unmarshalDetails            (ASN.1 DER through cryptobyte: lib/Der.v)
     cert/asn1.go      readOptionalASN1Boolean, readOptionalASN1Byte
     cert/cert_v1.go   getRawDetails, Marshal / MarshalForHandshakes / Fingerprint / validate, unmarshalCertificateV1
                       (protobuf through google.golang.org/protobuf's table-driven codec: lib/Proto.v)
     cert/cert.go      Recombine
     cert/pem.go       UnmarshalCertificateFromPEM / MarshalPEM (encoding/pem is an abstract injective wrapper)
     cert/sign.go      comparePrefix, findDuplicatePrefix, the guards of SignWith that concern the codec

   Conventions
     bytes / strings    list N (each < 256); the issuer is carried as the 0..n raw bytes whose lower-case hex form is
                        Certificate.Issuer()
     netip.Prefix       (is4, addr, bits): is4 = Addr().Is4(); a 4-in-6 address is (false, 0xffff_xxxxxxxx, _).
                        Zones cannot be expressed: signing refuses them, decoding never produces them.
                        A prefix is valid when addr fits the family and bits <= 32 / 128 (netip.PrefixFrom makes every
                        other prefix invalid and validate() refuses invalid prefixes on every path).
     times              whole seconds since the epoch as Z in the int64 range: what Unix() gives and all that is encoded
     curve              v2: 0..255 (one byte on the wire, byte(c.curve) in the signed bytes); v1: the int32 enum as its
                        32-bit two's complement 0..2^32-1
     sort               slices.SortFunc(comparePrefix) is modelled by insertion sort: comparePrefix is a total order whose
                        0 means equal (zones are refused first), validate() refuses any list with two equal elements,
                        and a duplicate-free list has exactly one sorted arrangement, so verdict and result do not depend
                        on the sorting algorithm. *)
From Coq Require Import List NArith ZArith Bool.
Import ListNotations.
From NV Require Import lib.Bytes lib.Proto lib.Der.
Open Scope N_scope.

Notation "'let?' p ':=' c 'in' k" := (match c with Some p => k | None => None end)
  (at level 200, p pattern, c at level 100, k at level 200, only parsing).

Definition is_nil {A} (l : list A) : bool := match l with [] => true | _ => false end.

(* ------------------------------------------------------------------------------------------------ *)
(* Certificates                                                                                       *)
(* ------------------------------------------------------------------------------------------------ *)

Definition pfx := (bool * N * N)%type.
Definition p_is4 (p : pfx) : bool := fst (fst p).
Definition p_addr (p : pfx) : N := snd (fst p).
Definition p_bits (p : pfx) : N := snd p.

Record cert := mkCert {
  c_name : list N;
  c_nets : list pfx;
  c_unsafe : list pfx;
  c_groups : list (list N);
  c_isca : bool;
  c_nb : Z;
  c_na : Z;
  c_issuer : list N;
  c_curve : N;
  c_pub : list N;
  c_sig : list N
}.

(* a v2 certificate keeps the DER bytes of its details as received / as signed *)
Record cert2 := mkCert2 { c2 : cert; c2_raw : list N }.

Inductive anycert := V1 (c : cert) | V2 (c : cert2).

Definition with_sig (c : cert) (s : list N) : cert :=
  mkCert (c_name c) (c_nets c) (c_unsafe c) (c_groups c) (c_isca c) (c_nb c) (c_na c) (c_issuer c) (c_curve c) (c_pub c) s.
Definition with_pub (c : cert) (k : list N) : cert :=
  mkCert (c_name c) (c_nets c) (c_unsafe c) (c_groups c) (c_isca c) (c_nb c) (c_na c) (c_issuer c) (c_curve c) k (c_sig c).
Definition with_nets (c : cert) (n u : list pfx) : cert :=
  mkCert (c_name c) n u (c_groups c) (c_isca c) (c_nb c) (c_na c) (c_issuer c) (c_curve c) (c_pub c) (c_sig c).

(* ---- netip.Prefix ---- *)

Definition two32 : N := 4294967296.
Definition two128 : N := 340282366920938463463374607431768211456.

Definition pfx_valid (p : pfx) : bool :=
  if p_is4 p then (p_addr p <? two32) && (p_bits p <=? 32) else (p_addr p <? two128) && (p_bits p <=? 128).
Definition pfx_unspecified (p : pfx) : bool := p_addr p =? 0.
Definition pfx_4in6 (p : pfx) : bool := negb (p_is4 p) && (p_addr p / two32 =? 65535).

(* comparePrefix: Addr.Compare (bit length first: v4 before v6, then the address), then Bits *)
Definition pfx_ltb (p q : pfx) : bool :=
  match p_is4 p, p_is4 q with
  | true, false => true
  | false, true => false
  | _, _ => (p_addr p <? p_addr q) || ((p_addr p =? p_addr q) && (p_bits p <? p_bits q))
  end.
Definition pfx_eqb (p q : pfx) : bool :=
  Bool.eqb (p_is4 p) (p_is4 q) && (p_addr p =? p_addr q) && (p_bits p =? p_bits q).

Fixpoint pfx_insert (p : pfx) (l : list pfx) : list pfx :=
  match l with
  | [] => [p]
  | q :: r => if pfx_ltb q p then q :: pfx_insert p r else p :: l
  end.
Definition pfx_sort (l : list pfx) : list pfx := fold_right pfx_insert [] l.

(* findDuplicatePrefix on the sorted slice *)
Fixpoint adjacent_dup (l : list pfx) : bool :=
  match l with
  | p :: ((q :: _) as r) => pfx_eqb p q || adjacent_dup r
  | _ => false
  end.

(* strictly increasing = sorted and duplicate free: the state validate() leaves a v2 certificate in *)
Fixpoint strictly_sorted (l : list pfx) : bool :=
  match l with
  | p :: ((q :: _) as r) => pfx_ltb p q && strictly_sorted r
  | _ => true
  end.

(* ------------------------------------------------------------------------------------------------ *)
(* Version 2                                                                                          *)
(* ------------------------------------------------------------------------------------------------ *)

Definition max_certificate_size : N := 65536.
Definition max_name_length : N := 253.
Definition max_network_length : N := 17.

Definition lenN {A} (l : list A) : N := N.of_nat (length l).

(* certificateV2.validate, the accept/refuse part *)
Definition net_ok_v2 (p : pfx) : bool := pfx_valid p && negb (pfx_unspecified p) && negb (pfx_4in6 p).
Definition unsafe_ok_v2 (isca has4 has6 : bool) (p : pfx) : bool :=
  pfx_valid p && (isca || (if p_is4 p then has4 else has6)).

Definition check_v2 (c : cert) : bool :=
  negb (is_nil (c_name c)) && (lenN (c_name c) <=? max_name_length) &&
  forallb (fun g => negb (is_nil g)) (c_groups c) &&
  negb (is_nil (c_pub c)) &&
  (c_isca c || negb (is_nil (c_nets c))) &&
  forallb net_ok_v2 (c_nets c) &&
  negb (adjacent_dup (pfx_sort (c_nets c))) &&
  forallb (unsafe_ok_v2 (c_isca c) (existsb p_is4 (c_nets c)) (existsb (fun p => negb (p_is4 p)) (c_nets c))) (c_unsafe c) &&
  negb (adjacent_dup (pfx_sort (c_unsafe c))).

(* validate(): refuse, or accept and leave both lists sorted *)
Definition validate_v2 (c : cert) : option cert :=
  if check_v2 c then Some (with_nets c (pfx_sort (c_nets c)) (pfx_sort (c_unsafe c))) else None.

(* the structural rules a signed v2 certificate obeys *)
Definition valid_v2 (c : cert) : bool :=
  check_v2 c && strictly_sorted (c_nets c) && strictly_sorted (c_unsafe c).

(* netip.Prefix.MarshalBinary / UnmarshalBinary (+ IsValid, which validate() demands of every element) *)
Definition pfx_bin (p : pfx) : list N :=
  (if p_is4 p then be_enc 4 (p_addr p) else be_enc 16 (p_addr p)) ++ [p_bits p].
Definition pfx_unbin (bs : list N) : option pfx :=
  if (length bs =? 5)%nat then
    let p := (true, be_dec (firstn 4 bs), nth 4 bs 0) in if pfx_valid p then Some p else None
  else if (length bs =? 17)%nat then
    let p := (false, be_dec (firstn 16 bs), nth 16 bs 0) in if pfx_valid p then Some p else None
  else None.

Definition t_details : N := 160.       (* TagCertDetails = 0 | constructed | context *)
Definition t_curve : N := 129.
Definition t_pubkey : N := 130.
Definition t_signature : N := 131.
Definition t_name : N := 128.
Definition t_networks : N := 161.
Definition t_unsafe : N := 162.
Definition t_groups : N := 163.
Definition t_isca : N := 132.
Definition t_notbefore : N := 133.
Definition t_notafter : N := 134.
Definition t_issuer : N := 135.

Definition enc_net (p : pfx) : list N := emit_tlv tag_octet_string (pfx_bin p).
Definition enc_group (g : list N) : list N := emit_tlv tag_utf8string g.

(* detailsV2.Marshal *)
Definition details_body (c : cert) : list N :=
  emit_tlv t_name (c_name c) ++
  (if is_nil (c_nets c) then [] else emit_tlv t_networks (flat_map enc_net (c_nets c))) ++
  (if is_nil (c_unsafe c) then [] else emit_tlv t_unsafe (flat_map enc_net (c_unsafe c))) ++
  (if is_nil (c_groups c) then [] else emit_tlv t_groups (flat_map enc_group (c_groups c))) ++
  (if c_isca c then emit_tlv t_isca [255] else []) ++
  emit_tlv t_notbefore (int64_enc (c_nb c)) ++
  emit_tlv t_notafter (int64_enc (c_na c)) ++
  (if is_nil (c_issuer c) then [] else emit_tlv t_issuer (c_issuer c)).
Definition encode_details (c : cert) : list N := emit_tlv t_details (details_body c).

(* certificateV2.Marshal (a validated certificate always has a public key; "nil" is modelled as empty) *)
Definition encode_v2 (c : cert2) : list N :=
  emit_tlv tag_sequence
    (c2_raw c ++
     (if c_curve (c2 c) =? 0 then [] else emit_tlv t_curve [c_curve (c2 c) mod 256]) ++
     (if is_nil (c_pub (c2 c)) then [] else emit_tlv t_pubkey (c_pub (c2 c))) ++
     emit_tlv t_signature (c_sig (c2 c))).

(* certificateV2.MarshalForHandshakes *)
Definition encode_hs_v2 (c : cert2) : list N :=
  emit_tlv tag_sequence (c2_raw c ++ emit_tlv t_signature (c_sig (c2 c))).

(* the bytes marshalForSigning hands to the signer, and the bytes Fingerprint hashes *)
Definition tbs_v2 (c : cert2) : list N := c2_raw c ++ [c_curve (c2 c) mod 256] ++ c_pub (c2 c).
Definition fp_pre_v2 (c : cert2) : list N := tbs_v2 c ++ c_sig (c2 c).

(* what SignWith builds from an accepted TBS certificate *)
Definition seal_v2 (c : cert) : cert2 := mkCert2 c (encode_details c).

Definition read_net (s : list N) : option (pfx * list N) :=
  let? (v, rest) := read_asn1 tag_octet_string s in
  if is_nil v || (max_network_length <? lenN v) then None
  else let? p := pfx_unbin v in Some (p, rest).

Definition read_group (s : list N) : option (list N * list N) :=
  let? (v, rest) := read_asn1 tag_utf8string s in
  if is_nil v then None else Some (v, rest).

Definition read_opt_list {A} (tag : N) (item : list N -> option (A * list N)) (s : list N) : option (list A * list N) :=
  let? (o, rest) := read_optional tag s in
  match o with
  | None => Some ([], rest)
  | Some sub => let? xs := read_all item sub in Some (xs, rest)
  end.

(* readOptionalASN1Boolean with default false *)
Definition read_opt_bool (tag : N) (s : list N) : option (bool * list N) :=
  let? (o, rest) := read_optional tag s in
  match o with
  | None => Some (false, rest)
  | Some [b] => Some (0 <? b, rest)
  | Some _ => None
  end.

(* readOptionalASN1Byte *)
Definition read_opt_byte (tag : N) (dflt : N) (s : list N) : option (N * list N) :=
  let? (o, rest) := read_optional tag s in
  match o with
  | None => Some (dflt, rest)
  | Some [b] => Some (b, rest)
  | Some _ => None
  end.

Definition read_int64 (tag : N) (s : list N) : option (Z * list N) :=
  let? (v, rest) := read_asn1 tag s in
  let? z := int64_dec v in Some (z, rest).

(* unmarshalDetails: the fields that live in the details; curve, key and signature are filled in by the caller.
   Whatever follows the issuer inside the details is ignored, as is whatever follows the details element. *)
Definition unmarshal_details (raw : list N) : option cert :=
  let? (b, _) := read_asn1 t_details raw in
  if is_nil b then None else
  let? (name, b) := read_asn1 t_name b in
  if is_nil name || (max_name_length <? lenN name) then None else
  let? (nets, b) := read_opt_list t_networks read_net b in
  let? (unsafe, b) := read_opt_list t_unsafe read_net b in
  let? (groups, b) := read_opt_list t_groups read_group b in
  let? (isca, b) := read_opt_bool t_isca b in
  let? (nb, b) := read_int64 t_notbefore b in
  let? (na, b) := read_int64 t_notafter b in
  let? (oiss, _) := read_optional t_issuer b in
  Some (mkCert name nets unsafe groups isca nb na (match oiss with Some i => i | None => [] end) 0 [] []).

(* unmarshalCertificateV2(b, publicKey, curve): [pk] = [] stands for "no key passed in" (len(publicKey) == 0) *)
Definition decode_v2 (pk : list N) (dcurve : N) (b : list N) : option cert2 :=
  if is_nil b || (max_certificate_size <? lenN b) then None else
  let? (inp, _) := read_asn1 tag_sequence b in
  if is_nil inp then None else
  let? (raw, inp) := read_element t_details inp in
  let? (curve, inp) := read_opt_byte t_curve (dcurve mod 256) inp in
  let? (pub, inp) :=
    (if is_nil pk then
       let? (o, inp') := read_optional t_pubkey inp in
       Some (match o with Some k => k | None => [] end, inp')
     else if peek_tag t_pubkey inp then None else Some (pk, inp)) in
  if is_nil pub then None else
  let? (sig, _) := read_asn1 t_signature inp in
  if is_nil sig then None else
  let? d := unmarshal_details raw in
  let? c := validate_v2 (mkCert (c_name d) (c_nets d) (c_unsafe d) (c_groups d) (c_isca d) (c_nb d) (c_na d)
                                (c_issuer d) curve pub sig) in
  Some (mkCert2 c raw).

(* ------------------------------------------------------------------------------------------------ *)
(* Version 1                                                                                          *)
(* ------------------------------------------------------------------------------------------------ *)

(* unicode/utf8.Valid *)
Definition cont (b : N) : bool := (128 <=? b) && (b <=? 191).
Fixpoint utf8_valid (s : list N) : bool :=
  match s with
  | [] => true
  | b0 :: r =>
      if b0 <? 128 then utf8_valid r
      else match r with
      | [] => false
      | b1 :: r1 =>
          if (194 <=? b0) && (b0 <=? 223) then cont b1 && utf8_valid r1
          else match r1 with
          | [] => false
          | b2 :: r2 =>
              if b0 =? 224 then (160 <=? b1) && (b1 <=? 191) && cont b2 && utf8_valid r2
              else if ((225 <=? b0) && (b0 <=? 236)) || (b0 =? 238) || (b0 =? 239) then cont b1 && cont b2 && utf8_valid r2
              else if b0 =? 237 then (128 <=? b1) && (b1 <=? 159) && cont b2 && utf8_valid r2
              else match r2 with
              | [] => false
              | b3 :: r3 =>
                  if b0 =? 240 then (144 <=? b1) && (b1 <=? 191) && cont b2 && cont b3 && utf8_valid r3
                  else if (241 <=? b0) && (b0 <=? 243) then cont b1 && cont b2 && cont b3 && utf8_valid r3
                  else if b0 =? 244 then (128 <=? b1) && (b1 <=? 143) && cont b2 && cont b3 && utf8_valid r3
                  else false
              end
          end
      end
  end.

(* certificateV1.validate *)
Definition net_ok_v1 (p : pfx) : bool := pfx_valid p && p_is4 p && negb (pfx_unspecified p).
Definition unsafe_ok_v1 (p : pfx) : bool := pfx_valid p && p_is4 p.
Definition valid_v1 (c : cert) : bool :=
  negb (is_nil (c_pub c)) && (c_isca c || negb (is_nil (c_nets c))) &&
  forallb net_ok_v1 (c_nets c) && forallb unsafe_ok_v1 (c_unsafe c).

(* proto.Marshal refuses strings that are not UTF-8 (name and groups are `string` fields of a proto3 message) *)
Definition marshalable_v1 (c : cert) : bool := utf8_valid (c_name c) && forallb utf8_valid (c_groups c).

(* net.CIDRMask(bits, 32) as a uint32, and IPMask.Size() (0 for a mask that is not ones-then-zeros) *)
Definition cidr_mask (bits : N) : N := two32 - 2 ^ (32 - bits).
Definition mask_size (m : N) : N :=
  match find (fun k => cidr_mask k =? m) (map N.of_nat (seq 0 33)) with Some k => k | None => 0 end.

Definition ip_pairs (l : list pfx) : list N := flat_map (fun p => [p_addr p; cidr_mask (p_bits p)]) l.
Fixpoint unpair (l : list N) : list pfx :=
  match l with
  | a :: m :: r => (true, a, mask_size m) :: unpair r
  | _ => []
  end.

Definition two63 : N := 9223372036854775808.
Definition i64_to_u64 (z : Z) : N := Z.to_N (z mod 18446744073709551616)%Z.
Definition u64_to_i64 (v : N) : Z := if v <? two63 then Z.of_N v else (Z.of_N v - 18446744073709551616)%Z.
(* the Curve enum is an int32: written as the sign-extended 64-bit varint, read back as int32(v) *)
Definition curve_to_u64 (cv : N) : N := if cv <? 2147483648 then cv else cv + (two64 - two32).

Definition opt_bytes (num : N) (v : list N) : list N := if is_nil v then [] else field_bytes num v.
Definition opt_varint (num x : N) : list N := if x =? 0 then [] else field_varint num x.
Definition opt_packed (num : N) (xs : list N) : list N := if is_nil xs then [] else field_bytes num (packed_enc xs).

(* proto.Marshal(getRawDetails()): fields in number order, proto3 defaults omitted, repeated uint32 packed *)
Definition encode_details_v1 (c : cert) : list N :=
  opt_bytes 1 (c_name c) ++
  opt_packed 2 (ip_pairs (c_nets c)) ++
  opt_packed 3 (ip_pairs (c_unsafe c)) ++
  flat_map (field_bytes 4) (c_groups c) ++
  opt_varint 5 (i64_to_u64 (c_nb c)) ++
  opt_varint 6 (i64_to_u64 (c_na c)) ++
  opt_bytes 7 (c_pub c) ++
  (if c_isca c then field_varint 8 1 else []) ++
  opt_bytes 9 (c_issuer c) ++
  opt_varint 100 (curve_to_u64 (c_curve c)).

(* certificateV1.Marshal: Details is always present, the signature only when non-empty *)
Definition encode_v1 (c : cert) : list N := field_bytes 1 (encode_details_v1 c) ++ opt_bytes 2 (c_sig c).
Definition encode_hs_v1 (c : cert) : list N := encode_v1 (with_pub c []).
Definition tbs_v1 (c : cert) : list N := encode_details_v1 c.
Definition fp_pre_v1 (c : cert) : list N := encode_v1 c.

(* ---- proto.Unmarshal into RawNebulaCertificate (google.golang.org/protobuf/internal/impl) ---- *)

Definition max_valid_number : N := 536870911.   (* protowire.MaxValidNumber = 1<<29 - 1 *)

(* the tag at the head of every field of a message; an end-group tag is an error outside a group *)
Definition tag_dec_pb (b : list N) : option (N * N * list N) :=
  let? (v, r) := varint_dec b in
  let num := v / 8 in
  if (1 <=? num) && (num <=? max_valid_number) && negb (v mod 8 =? 4) then Some (num, v mod 8, r) else None.

Record rawd := mkRawd {
  r_name : list N; r_ips : list N; r_subnets : list N; r_groups : list (list N);
  r_nb : N; r_na : N; r_pub : list N; r_isca : bool; r_issuer : list N; r_curve : N
}.
Definition rawd0 : rawd := mkRawd [] [] [] [] 0 0 [] false [] 0.

Definition set_name d v := mkRawd v (r_ips d) (r_subnets d) (r_groups d) (r_nb d) (r_na d) (r_pub d) (r_isca d) (r_issuer d) (r_curve d).
Definition add_ips d v := mkRawd (r_name d) (r_ips d ++ v) (r_subnets d) (r_groups d) (r_nb d) (r_na d) (r_pub d) (r_isca d) (r_issuer d) (r_curve d).
Definition add_subnets d v := mkRawd (r_name d) (r_ips d) (r_subnets d ++ v) (r_groups d) (r_nb d) (r_na d) (r_pub d) (r_isca d) (r_issuer d) (r_curve d).
Definition add_group d v := mkRawd (r_name d) (r_ips d) (r_subnets d) (r_groups d ++ [v]) (r_nb d) (r_na d) (r_pub d) (r_isca d) (r_issuer d) (r_curve d).
Definition set_nb d v := mkRawd (r_name d) (r_ips d) (r_subnets d) (r_groups d) v (r_na d) (r_pub d) (r_isca d) (r_issuer d) (r_curve d).
Definition set_na d v := mkRawd (r_name d) (r_ips d) (r_subnets d) (r_groups d) (r_nb d) v (r_pub d) (r_isca d) (r_issuer d) (r_curve d).
Definition set_pub d v := mkRawd (r_name d) (r_ips d) (r_subnets d) (r_groups d) (r_nb d) (r_na d) v (r_isca d) (r_issuer d) (r_curve d).
Definition set_isca d v := mkRawd (r_name d) (r_ips d) (r_subnets d) (r_groups d) (r_nb d) (r_na d) (r_pub d) v (r_issuer d) (r_curve d).
Definition set_issuer d v := mkRawd (r_name d) (r_ips d) (r_subnets d) (r_groups d) (r_nb d) (r_na d) (r_pub d) (r_isca d) v (r_curve d).
Definition set_curve d v := mkRawd (r_name d) (r_ips d) (r_subnets d) (r_groups d) (r_nb d) (r_na d) (r_pub d) (r_isca d) (r_issuer d) v.

(* a field the message does not know, or a known field with another wire type: protowire.ConsumeFieldValue *)
Definition pb_unknown {St} (st : St) (num typ : N) (b : list N) : option (St * list N) :=
  let? r := skip_field_pw num typ b in Some (st, r).

Definition pb_bytes {St} (b : list N) (k : list N -> option St) : option (St * list N) :=
  let? (v, r) := bytes_dec b in let? st := k v in Some (st, r).
Definition pb_varint {St} (b : list N) (k : N -> St) : option (St * list N) :=
  let? (v, r) := varint_dec b in Some (k v, r).

(* repeated uint32: packed (wire type 2) or one element (wire type 0), each truncated to 32 bits *)
Definition pb_u32s {St} (typ : N) (b : list N) (k : list N -> St) (st : St) (num : N) : option (St * list N) :=
  match typ with
  | 2 => pb_bytes b (fun v => let? xs := packed_dec varint_dec v in Some (k (map w32 xs)))
  | 0 => pb_varint b (fun v => k [w32 v])
  | _ => pb_unknown st num typ b
  end.

(* one field of RawNebulaCertificateDetails *)
Definition d_step (d : rawd) (b : list N) : option (rawd * list N) :=
  let? (num, typ, b1) := tag_dec_pb b in
  match num with
  | 1 => if typ =? 2 then pb_bytes b1 (fun v => if utf8_valid v then Some (set_name d v) else None) else pb_unknown d num typ b1
  | 2 => pb_u32s typ b1 (add_ips d) d num
  | 3 => pb_u32s typ b1 (add_subnets d) d num
  | 4 => if typ =? 2 then pb_bytes b1 (fun v => if utf8_valid v then Some (add_group d v) else None) else pb_unknown d num typ b1
  | 5 => if typ =? 0 then pb_varint b1 (set_nb d) else pb_unknown d num typ b1
  | 6 => if typ =? 0 then pb_varint b1 (set_na d) else pb_unknown d num typ b1
  | 7 => if typ =? 2 then pb_bytes b1 (fun v => Some (set_pub d v)) else pb_unknown d num typ b1
  | 8 => if typ =? 0 then pb_varint b1 (fun v => set_isca d (negb (v =? 0))) else pb_unknown d num typ b1
  | 9 => if typ =? 2 then pb_bytes b1 (fun v => Some (set_issuer d v)) else pb_unknown d num typ b1
  | 100 => if typ =? 0 then pb_varint b1 (fun v => set_curve d (w32 v)) else pb_unknown d num typ b1
  | _ => pb_unknown d num typ b1
  end.

(* one field of RawNebulaCertificate; a second Details field is merged into the first *)
Definition c_step (st : option rawd * list N) (b : list N) : option ((option rawd * list N) * list N) :=
  let? (num, typ, b1) := tag_dec_pb b in
  match num with
  | 1 => if typ =? 2 then
           pb_bytes b1 (fun v => let? d := msg_run d_step (match fst st with Some d => d | None => rawd0 end) v in
                                 Some (Some d, snd st))
         else pb_unknown st num typ b1
  | 2 => if typ =? 2 then pb_bytes b1 (fun v => Some (fst st, v)) else pb_unknown st num typ b1
  | _ => pb_unknown st num typ b1
  end.

(* unmarshalCertificateV1(b, publicKey); [pk] = [] stands for "no key passed in" *)
Definition decode_v1 (pk : list N) (b : list N) : option cert :=
  if is_nil b then None else
  let? st := msg_run c_step (None, []) b in
  match fst st with
  | None => None
  | Some d =>
      if Nat.odd (length (r_ips d)) || Nat.odd (length (r_subnets d)) then None
      else if negb (is_nil pk) && negb (is_nil (r_pub d)) then None
      else
        let c := mkCert (r_name d) (unpair (r_ips d)) (unpair (r_subnets d)) (r_groups d) (r_isca d)
                        (u64_to_i64 (r_nb d)) (u64_to_i64 (r_na d)) (r_issuer d) (r_curve d)
                        (if is_nil pk then r_pub d else pk) (snd st) in
        if valid_v1 c then Some c else None
  end.

(* ------------------------------------------------------------------------------------------------ *)
(* Signing-side acceptance, Recombine, PEM, fingerprints                                              *)
(* ------------------------------------------------------------------------------------------------ *)

(* TBSCertificate.SignWith as far as the codec is concerned (curve/key agreement, CA flag vs signer and
   checkCAConstraints are the subject of C04): [c] carries the TBS fields and the issuer, c_sig is ignored.
   v1: fromTBSCertificate->validate, then proto.Marshal must succeed; v2: validate (which sorts), then the size
   check on the finished certificate. *)
Definition tbs_ok (c : cert) : bool :=
  ((c_curve c =? 0) || (c_curve c =? 1)) && int64_ok (c_nb c) && int64_ok (c_na c).
Definition sign_v1 (c : cert) (sig : list N) : option cert :=
  if tbs_ok c && valid_v1 c && marshalable_v1 c && negb (is_nil sig) then Some (with_sig c sig) else None.
Definition sign_v2 (c : cert) (sig : list N) : option cert2 :=
  if tbs_ok c && negb (is_nil sig) then
    let? c' := validate_v2 (with_sig c sig) in
    (* SignWith marshals the finished v2 certificate and refuses one the decoder could not read back *)
    if lenN (encode_v2 (seal_v2 c')) <=? max_certificate_size then Some (seal_v2 c') else None
  else None.

(* cert.Recombine(v, rawCertBytes, publicKey, curve); [pk = None] is a nil key *)
Definition recombine (v : N) (raw : list N) (pk : option (list N)) (curve : N) : option anycert :=
  match pk with
  | None => None
  | Some k =>
      match v with
      | 0 | 1 => let? c := decode_v1 k raw in if c_curve c =? curve then Some (V1 c) else None
      | 2 => let? c := decode_v2 k curve raw in if c_curve (c2 c) =? curve then Some (V2 c) else None
      | _ => None
      end
  end.

Section Wrappers.
  (* encoding/pem: pem.EncodeToMemory(&pem.Block{Type: banner, Bytes: b}) and pem.Decode; banner 1 = "NEBULA
     CERTIFICATE", 2 = "NEBULA CERTIFICATE V2", anything else another banner. SHA-256 as [H]. *)
  Variable pem_enc : N -> list N -> list N.
  Variable pem_dec : list N -> option (N * list N * list N).
  Variable H : list N -> list N.

  Definition marshal_pem (c : anycert) : list N :=
    match c with V1 c => pem_enc 1 (encode_v1 c) | V2 c => pem_enc 2 (encode_v2 c) end.

  (* UnmarshalCertificateFromPEM: certificate and unconsumed rest *)
  Definition unmarshal_pem (b : list N) : option (anycert * list N) :=
    let? (banner, body, rest) := pem_dec b in
    match banner with
    | 1 => let? c := decode_v1 [] body in Some (V1 c, rest)
    | 2 => let? c := decode_v2 [] 0 body in Some (V2 c, rest)
    | _ => None
    end.

  Definition fingerprint (c : anycert) : list N :=
    match c with V1 c => H (fp_pre_v1 c) | V2 c => H (fp_pre_v2 c) end.
End Wrappers.

(* Model of /repo/handshake/payload.go (MarshalPayload, UnmarshalPayload, unmarshalPayloadDetails: hand-written
   protowire code) and of the codec protoc-gen-gogofaster generates for the schema /repo/handshake/handshake.proto
     NebulaHandshake        { NebulaHandshakeDetails Details = 1; bytes Hmac = 2; }
     NebulaHandshakeDetails { bytes Cert = 1; uint32 InitiatorIndex = 2; uint32 ResponderIndex = 3;
                              uint64 Cookie = 4 [deprecated]; uint64 Time = 5; uint32 CertVersion = 8; }
   (the codec nebula versions up to 1.9 carried in nebula.pb.go; same generator as today's nebula.pb.go).
   Executable definitions only. A Go []byte is a [list N]: nil and empty slices are the same value here. *)
From Coq Require Import List NArith Bool.
Import ListNotations.
From NV Require Import lib.Bytes lib.Proto.
Open Scope N_scope.

(* ------------------------------------------------------------------------------------------------ *)
(* handshake.Payload and the hand-written codec                                                       *)
(* ------------------------------------------------------------------------------------------------ *)

Record payload := mkPayload { p_cert : list N; p_ii : N; p_ri : N; p_time : N; p_ver : N }.
Definition payload0 : payload := mkPayload [] 0 0 0 0.

Definition max_u32 : N := 4294967295.
Definition two32 : N := 4294967296.

(* field numbers of NebulaHandshakeDetails (payload.go constants / handshake.proto) *)
Definition f_cert : N := 1.
Definition f_ii : N := 2.
Definition f_ri : N := 3.
Definition f_cookie : N := 4.   (* schema only; unknown to the hand-written parser *)
Definition f_time : N := 5.
Definition f_ver : N := 8.
(* NebulaHandshake *)
Definition f_details : N := 1.
Definition f_hmac : N := 2.     (* schema only *)

(* proto3: zero / empty fields are not emitted *)
Definition opt_varint (num x : N) : list N := if x =? 0 then [] else field_varint num x.
Definition opt_bytes (num : N) (v : list N) : list N := match v with [] => [] | _ :: _ => field_bytes num v end.

Definition details_enc (p : payload) : list N :=
  opt_bytes f_cert (p_cert p) ++ opt_varint f_ii (p_ii p) ++ opt_varint f_ri (p_ri p) ++
  opt_varint f_time (p_time p) ++ opt_varint f_ver (p_ver p).

(* MarshalPayload(out, p) = out ++ marshal_payload p : the Details submessage is always emitted, even when empty *)
Definition marshal_payload (p : payload) : list N := field_bytes f_details (details_enc p).

Definition set_cert (p : payload) (v : list N) := mkPayload v (p_ii p) (p_ri p) (p_time p) (p_ver p).
Definition set_ii (p : payload) (v : N) := mkPayload (p_cert p) v (p_ri p) (p_time p) (p_ver p).
Definition set_ri (p : payload) (v : N) := mkPayload (p_cert p) (p_ii p) v (p_time p) (p_ver p).
Definition set_time (p : payload) (v : N) := mkPayload (p_cert p) (p_ii p) (p_ri p) v (p_ver p).
Definition set_ver (p : payload) (v : N) := mkPayload (p_cert p) (p_ii p) (p_ri p) (p_time p) v.

(* ConsumeVarint, then `v > math.MaxUint32` is an error *)
Definition dec_u32 (b : list N) : option (N * list N) :=
  match varint_dec b with
  | Some (v, r) => if v <=? max_u32 then Some (v, r) else None
  | None => None
  end.

(* One iteration of unmarshalPayloadDetails' loop. A known field number with another wire type is an error; a
   repeated field overwrites (last wins); anything else goes through protowire.ConsumeFieldValue.
   [strict] = false is the code. [strict] = true additionally type-checks the field the schema knows and the parser
   does not (Cookie = 4); it exists to state where the two decoders agree (proofs/Payload_agree.v). *)
Definition details_step (strict : bool) (p : payload) (b : list N) : option (payload * list N) :=
  match tag_dec b with
  | None => None
  | Some (num, typ, b1) =>
      if num =? f_cert then
        if typ =? wt_bytes then
          match bytes_dec b1 with Some (v, b2) => Some (set_cert p v, b2) | None => None end
        else None
      else if num =? f_ii then
        if typ =? wt_varint then
          match dec_u32 b1 with Some (v, b2) => Some (set_ii p v, b2) | None => None end
        else None
      else if num =? f_ri then
        if typ =? wt_varint then
          match dec_u32 b1 with Some (v, b2) => Some (set_ri p v, b2) | None => None end
        else None
      else if num =? f_time then
        if typ =? wt_varint then
          match varint_dec b1 with Some (v, b2) => Some (set_time p v, b2) | None => None end
        else None
      else if num =? f_ver then
        if typ =? wt_varint then
          match dec_u32 b1 with Some (v, b2) => Some (set_ver p v, b2) | None => None end
        else None
      else if (num =? f_cookie) && negb (typ =? wt_varint) && strict then None
      else
        match skip_field_pw num typ b1 with Some b2 => Some (p, b2) | None => None end
  end.

Definition unmarshal_details (strict : bool) (p : payload) (b : list N) : option payload :=
  msg_run (details_step strict) p b.

(* One iteration of UnmarshalPayload's loop: field 1 must be length-delimited (any other wire type is an error) and
   is handed to unmarshalPayloadDetails; several Details occurrences keep filling the same Payload. Every other
   field number is skipped with protowire.ConsumeFieldValue. [strict] additionally type-checks Hmac = 2, which the
   schema knows and the parser does not. *)
Definition outer_step (strict : bool) (p : payload) (b : list N) : option (payload * list N) :=
  match tag_dec b with
  | None => None
  | Some (num, typ, b1) =>
      if num =? f_details then
        if typ =? wt_bytes then
          match bytes_dec b1 with
          | None => None
          | Some (d, b2) =>
              match unmarshal_details strict p d with
              | Some p' => Some (p', b2)
              | None => None
              end
          end
        else None
      else if (num =? f_hmac) && negb (typ =? wt_bytes) && strict then None
      else
        match skip_field_pw num typ b1 with Some b2 => Some (p, b2) | None => None end
  end.

Definition unmarshal_gen (strict : bool) (b : list N) : option payload := msg_run (outer_step strict) payload0 b.

(* handshake.UnmarshalPayload: Some p = (p, nil), None = any error *)
Definition unmarshal_payload (b : list N) : option payload := unmarshal_gen false b.
Definition unmarshal_strict (b : list N) : option payload := unmarshal_gen true b.

(* ------------------------------------------------------------------------------------------------ *)
(* The generated (gogofaster) codec for the same schema                                               *)
(* ------------------------------------------------------------------------------------------------ *)

Record details_msg := mkDetails { d_cert : list N; d_ii : N; d_ri : N; d_cookie : N; d_time : N; d_ver : N }.
Record hs_msg := mkHs { h_details : option details_msg; h_hmac : list N }.
Definition details0 : details_msg := mkDetails [] 0 0 0 0 0.
Definition hs0 : hs_msg := mkHs None [].

(* NebulaHandshakeDetails.Marshal: fields in number order, zero / empty omitted *)
Definition schema_details_enc (d : details_msg) : list N :=
  opt_bytes f_cert (d_cert d) ++ opt_varint f_ii (d_ii d) ++ opt_varint f_ri (d_ri d) ++
  opt_varint f_cookie (d_cookie d) ++ opt_varint f_time (d_time d) ++ opt_varint f_ver (d_ver d).

(* NebulaHandshake.Marshal: Details emitted iff the pointer is non-nil (even when empty), Hmac iff non-empty *)
Definition schema_encode (m : hs_msg) : list N :=
  match h_details m with
  | None => []
  | Some d => field_bytes f_details (schema_details_enc d)
  end ++ opt_bytes f_hmac (h_hmac m).

(* `m.X = 0; m.X |= uint32(b&0x7F) << shift`: no range check, the value is cut to 32 bits *)
Definition gogo_u32 (b : list N) : option (N * list N) :=
  match varint_dec_gogo b with
  | Some (v, r) => Some (v mod two32, r)
  | None => None
  end.

Definition dset_cert (d : details_msg) (v : list N) := mkDetails v (d_ii d) (d_ri d) (d_cookie d) (d_time d) (d_ver d).
Definition dset_ii (d : details_msg) (v : N) := mkDetails (d_cert d) v (d_ri d) (d_cookie d) (d_time d) (d_ver d).
Definition dset_ri (d : details_msg) (v : N) := mkDetails (d_cert d) (d_ii d) v (d_cookie d) (d_time d) (d_ver d).
Definition dset_cookie (d : details_msg) (v : N) := mkDetails (d_cert d) (d_ii d) (d_ri d) v (d_time d) (d_ver d).
Definition dset_time (d : details_msg) (v : N) := mkDetails (d_cert d) (d_ii d) (d_ri d) (d_cookie d) v (d_ver d).
Definition dset_ver (d : details_msg) (v : N) := mkDetails (d_cert d) (d_ii d) (d_ri d) (d_cookie d) (d_time d) v.

(* One iteration of NebulaHandshakeDetails.Unmarshal. Unknown field numbers: skipHandshake from the tag on. *)
Definition schema_details_step (d : details_msg) (b : list N) : option (details_msg * list N) :=
  match tag_dec_gogo b with
  | None => None
  | Some (num, typ, b1) =>
      if num =? f_cert then
        if typ =? wt_bytes then
          match bytes_dec_gogo b1 with Some (v, b2) => Some (dset_cert d v, b2) | None => None end
        else None
      else if num =? f_ii then
        if typ =? wt_varint then
          match gogo_u32 b1 with Some (v, b2) => Some (dset_ii d v, b2) | None => None end
        else None
      else if num =? f_ri then
        if typ =? wt_varint then
          match gogo_u32 b1 with Some (v, b2) => Some (dset_ri d v, b2) | None => None end
        else None
      else if num =? f_cookie then
        if typ =? wt_varint then
          match varint_dec_gogo b1 with Some (v, b2) => Some (dset_cookie d v, b2) | None => None end
        else None
      else if num =? f_time then
        if typ =? wt_varint then
          match varint_dec_gogo b1 with Some (v, b2) => Some (dset_time d v, b2) | None => None end
        else None
      else if num =? f_ver then
        if typ =? wt_varint then
          match gogo_u32 b1 with Some (v, b2) => Some (dset_ver d v, b2) | None => None end
        else None
      else
        match skip_gogo b with Some b2 => Some (d, b2) | None => None end
  end.

Definition schema_details_decode (d : details_msg) (b : list N) : option details_msg :=
  msg_run schema_details_step d b.

(* One iteration of NebulaHandshake.Unmarshal: a second Details occurrence is merged into the first. *)
Definition schema_outer_step (m : hs_msg) (b : list N) : option (hs_msg * list N) :=
  match tag_dec_gogo b with
  | None => None
  | Some (num, typ, b1) =>
      if num =? f_details then
        if typ =? wt_bytes then
          match bytes_dec_gogo b1 with
          | None => None
          | Some (sub, b2) =>
              let d0 := match h_details m with Some d => d | None => details0 end in
              match schema_details_decode d0 sub with
              | Some d' => Some (mkHs (Some d') (h_hmac m), b2)
              | None => None
              end
          end
        else None
      else if num =? f_hmac then
        if typ =? wt_bytes then
          match bytes_dec_gogo b1 with Some (v, b2) => Some (mkHs (h_details m) v, b2) | None => None end
        else None
      else
        match skip_gogo b with Some b2 => Some (m, b2) | None => None end
  end.

(* NebulaHandshake.Unmarshal into a fresh message *)
Definition schema_decode (b : list N) : option hs_msg := msg_run schema_outer_step hs0 b.

(* ------------------------------------------------------------------------------------------------ *)
(* Relating the two views                                                                             *)
(* ------------------------------------------------------------------------------------------------ *)

Definition details_of_payload (p : payload) : details_msg :=
  mkDetails (p_cert p) (p_ii p) (p_ri p) 0 (p_time p) (p_ver p).
Definition msg_of_payload (p : payload) : hs_msg := mkHs (Some (details_of_payload p)) [].

Definition payload_of_details (d : details_msg) : payload :=
  mkPayload (d_cert d) (d_ii d) (d_ri d) (d_time d) (d_ver d).
Definition payload_of_msg (m : hs_msg) : payload :=
  match h_details m with Some d => payload_of_details d | None => payload0 end.

(* value ranges of the Go types (a slice is shorter than 2^63 bytes) *)
Definition two63 : N := 9223372036854775808.
Definition wf_payload (p : payload) : Prop :=
  N.of_nat (length (p_cert p)) < two63 /\ p_ii p < two32 /\ p_ri p < two32 /\ p_time p < two64 /\ p_ver p < two32.
Definition wf_details (d : details_msg) : Prop :=
  N.of_nat (length (d_cert d)) < two63 /\ d_ii d < two32 /\ d_ri d < two32 /\ d_cookie d < two64 /\
  d_time d < two64 /\ d_ver d < two32.
Definition wf_msg (m : hs_msg) : Prop :=
  match h_details m with Some d => wf_details d | None => True end /\ N.of_nat (length (h_hmac m)) < two63.

(* RemotesAdmit: which underlay addresses can enter a peer's RemoteList, on top of model/RemoteList.v.
   Executable model of the admission paths of /repo/lighthouse.go, allow_list.go, outside.go (roaming),
   handshake_manager.go (calculated remotes, BlockRemote, RefreshFromHandshake) and punchy.go.  Definitions only.

     al_allow / ral_allow / ral_allow_all   AllowList.Allow / RemoteAllowList.Allow / AllowAll (bart longest prefix match)
     mk_allowlist                           newAllowList: the configured rules plus the per-family default
     should_add_reported                    LightHouse.unlockedShouldAddV4/V6 (also the punch filter)
     should_add                             LightHouse.shouldAdd (static_host_map entries, resolver results)
     admit_learned                          readOutsidePackets' own-network drop + handleHostRoaming's AllowAll
     get_remote_list                        unlockedGetRemoteList (first known address wins, the first address is aliased)
     add_static                             addStaticRemotes (owner = the node itself)
     calc_remotes                           calculatedRemote.ApplyV4/V6 via addCalculatedRemotes
     lstep                                  HandleRequest for query replies / host updates / punch notifications,
                                            StartHandshake's calculated remotes, DeleteVpnAddrs, roaming, BlockRemote,
                                            RefreshFromHandshake, SendPunchToAll, CopyAddrs *)
From Coq Require Import List NArith Bool.
Import ListNotations.
From NV Require Import gen.Consts_RemoteList model.RemoteList.
Open Scope N_scope.

(* ---- allow lists ---- *)
Definition rules := list (prefix * bool).

Definition pfx_fam (p : prefix) : fam := fst (fst p).
Definition pfx_bits (p : prefix) : N := snd p.

(* most specific containing entry (bart: one value per masked prefix; configurations have distinct prefixes) *)
Fixpoint lpm_go {V} (t : list (prefix * V)) (a : addr) (best : option (N * V)) : option (N * V) :=
  match t with
  | [] => best
  | (p, v) :: r =>
      if pfx_contains p a
      then match best with
           | Some (b, _) => if b <? pfx_bits p then lpm_go r a (Some (pfx_bits p, v)) else lpm_go r a best
           | None => lpm_go r a (Some (pfx_bits p, v))
           end
      else lpm_go r a best
  end.
Definition lpm {V} (t : list (prefix * V)) (a : addr) : option V := option_map snd (lpm_go t a None).

(* newAllowList: a family without a /0 rule gets the opposite of its (uniform) rule value; no rules: allow *)
Definition fam_default (f : fam) (r : rules) : rules :=
  let mine := filter (fun e => fam_eqb (pfx_fam (fst e)) f) r in
  if existsb (fun e => pfx_bits (fst e) =? 0) mine then []
  else [((f, 0, 0), match mine with [] => true | e :: _ => negb (snd e) end)].
Definition mk_allowlist (r : rules) : rules := r ++ fam_default F4 r ++ fam_default F6 r.

(* a nil *AllowList allows everything; Lookup miss is deny *)
Definition al_allow (al : option rules) (a : addr) : bool :=
  match al with
  | None => true
  | Some r => match lpm (mk_allowlist r) a with Some v => v | None => false end
  end.

Record config := mkCfg {
  cfg_nets : list prefix;                         (* the node's own overlay networks; the first holds its address *)
  cfg_am_lh : bool;                               (* lighthouse.am_lighthouse *)
  cfg_lhs : list addr;                            (* lighthouse.hosts *)
  cfg_global : option rules;                      (* lighthouse.remote_allow_list *)
  cfg_inside : list (prefix * rules);             (* lighthouse.remote_allow_ranges *)
  cfg_static : list (addr * list ap);             (* static_host_map (address literals) *)
  cfg_calc : list (prefix * list (prefix * N)) }. (* lighthouse.calculated_remotes: overlay cidr -> (mask, port) *)

Definition cfg_self (c : config) : addr :=
  match cfg_nets c with (f, v, _) :: _ => (f, v) | [] => (F4, 0) end.

Definition in_my (c : config) (a : addr) : bool := in_any (cfg_nets c) a.
Definition my_addrs (c : config) : list addr := map (fun p : prefix => fst p) (cfg_nets c).
Definition inside_allow (c : config) (vpn a : addr) : bool := al_allow (lpm (cfg_inside c) vpn) a.
Definition global_allow (c : config) (a : addr) : bool := al_allow (cfg_global c) a.

Definition ral_allow (c : config) (vpn a : addr) : bool := inside_allow c vpn a && global_allow c a.
Definition ral_allow_all (c : config) (vpns : list addr) (a : addr) : bool :=
  global_allow c a && forallb (fun v => inside_allow c v a) vpns.

Definition should_add_reported (c : config) (vpn : addr) (x : ap) : bool :=
  ral_allow c vpn (ap_addr x) && negb (in_my c (ap_addr x)).
Definition should_add (c : config) (vpns : list addr) (a : addr) : bool :=
  ral_allow_all c vpns a && negb (in_my c a).
Definition admit_learned (c : config) (vpns : list addr) (a : addr) : bool :=
  negb (in_my c a) && ral_allow_all c vpns a.

Definition mem_addr (a : addr) (l : list addr) : bool := existsb (addr_eqb a) l.
Definition is_static (c : config) (a : addr) : bool := mem_addr a (map fst (cfg_static c)).
Definition any_lighthouse (c : config) (from : list addr) : bool := existsb (fun a => mem_addr a (cfg_lhs c)) from.

(* ---- calculated remotes ---- *)
Definition splice (f : fam) (mask_addr bits vpn : N) : N :=
  let low := 2 ^ (width f - bits) in (mask_addr / low) * low + vpn mod low.
Definition calc_remotes (c : config) (vpn : addr) : option (list ap) :=
  match lpm (cfg_calc c) vpn with
  | None => None
  | Some l => Some (map (fun e => let '((mf, ma, mb), port) := e in (fst vpn, splice (fst vpn) ma mb (snd vpn), port)) l)
  end.

(* ---- the lighthouse state: addrMap with shared RemoteLists ---- *)
(* a list record: every overlay address it was ever registered or refreshed under (bookkeeping for the theorems,
   never read by the operations) and the RemoteList *)
Definition lrec := (list addr * rl)%type.
Record lh := mkLH { lh_map : list (addr * N); lh_lists : list (N * lrec); lh_next : N }.

Fixpoint mget (m : list (addr * N)) (a : addr) : option N :=
  match m with
  | [] => None
  | (k, v) :: r => if addr_eqb k a then Some v else mget r a
  end.
Fixpoint mset (m : list (addr * N)) (a : addr) (id : N) : list (addr * N) :=
  match m with
  | [] => [(a, id)]
  | (k, v) :: r => if addr_eqb k a then (k, id) :: r else (k, v) :: mset r a id
  end.
Definition mdel (m : list (addr * N)) (a : addr) : list (addr * N) := filter (fun e => negb (addr_eqb (fst e) a)) m.

Fixpoint lget (ls : list (N * lrec)) (id : N) : option lrec :=
  match ls with
  | [] => None
  | (k, v) :: r => if k =? id then Some v else lget r id
  end.
Fixpoint lupd (ls : list (N * lrec)) (id : N) (f : lrec -> lrec) : list (N * lrec) :=
  match ls with
  | [] => []
  | (k, v) :: r => if k =? id then (k, f v) :: r else (k, v) :: lupd r id f
  end.

Fixpoint first_known (m : list (addr * N)) (all : list addr) : option N :=
  match all with
  | [] => None
  | a :: r => match mget m a with Some id => Some id | None => first_known m r end
  end.

(* unlockedGetRemoteList allAddrs (non-empty) *)
Definition get_remote_list (s : lh) (all : list addr) : lh * N :=
  match first_known (lh_map s) all with
  | Some id =>
      (mkLH (match all with a0 :: _ => mset (lh_map s) a0 id | [] => lh_map s end)
            (lupd (lh_lists s) id (fun r => (fst r ++ all, snd r))) (lh_next s), id)
  | None =>
      let id := lh_next s in
      (mkLH (fold_left (fun m a => mset m a id) all (lh_map s))
            (lh_lists s ++ [(id, (all, rl_new all))]) (N.succ id), id)
  end.

Section Step.
  Variable c : config.

  Definition adm : list addr -> addr -> bool := should_add c.
  Definition chk : addr -> ap -> bool := should_add_reported c.

  Definition on_list (s : lh) (id : N) (ops : list rop) : lh :=
    mkLH (lh_map s) (lupd (lh_lists s) id (fun r => (fst r, rrun adm chk (snd r) ops))) (lh_next s).

  (* addStaticRemotes vpn addrs: the literals are Unmap()ed and kept as a set (NewHostnameResults); that set is the
     resolver result, and every admitted member is prepended under the node's own key *)
  Definition static_addrs (addrs : list ap) : list ap :=
    nodup_keys ap_eqb (map (fun a => (unmap_addr (ap_addr a), ap_port a)) addrs).
  Definition static_ops (vpn : addr) (addrs : list ap) : list rop :=
    RDns (static_addrs addrs) ::
    flat_map (fun a =>
      if should_add c [vpn] (ap_addr a)
      then (match ap_fam a with
            | F4 => [RPre4 (cfg_self c) (ap_val a, ap_port a)]
            | F6 => [RPre6 (cfg_self c) (ap_val a / 18446744073709551616, ap_val a mod 18446744073709551616, ap_port a)]
            end)
      else []) (static_addrs addrs).
  Definition add_static (s : lh) (e : addr * list ap) : lh :=
    let '(s1, id) := get_remote_list s [fst e] in on_list s1 id (static_ops (fst e) (snd e)).
  Definition lh_init : lh := fold_left add_static (cfg_static c) (mkLH [] [] 0).

  (* details of a message: OldVpnAddr when non-zero, else VpnAddr (unmapped), else none *)
  Definition details (old : N) (vpn : option addr) : option addr :=
    if old =? 0 then option_map unmap_addr vpn else Some (F4, old).
  Definition relays_in (old : list N) (rs : list addr) : list addr := map (fun x => (F4, x)) old ++ map unmap_addr rs.

  Inductive lop :=
  | LQueryReply (from : list addr) (old : N) (vpn : option addr) (v4 : list (N * N)) (v6 : list (N * N * N)) (orel : list N) (rel : list addr)
  | LUpdate (from : list addr) (old : N) (vpn : option addr) (v4 : list (N * N)) (v6 : list (N * N * N)) (orel : list N) (rel : list addr)
  | LPunch (from : list addr) (old : N) (vpn : option addr) (v4 : list (N * N)) (v6 : list (N * N * N))
  | LPunchAll (vpns : list addr) (pref : list prefix)
  | LCalc (vpn : addr)
  | LDelete (vpns : list addr)
  | LLearn (vpns : list addr) (src : ap)
  | LBlock (vpn : addr) (a : ap)
  | LDone (vpns : list addr)
  | LCopy (vpn : addr) (pref : list prefix)
  | LHsCheck (vpns : list addr) (src : ap).

  (* what an operation shows: punch destinations, or (registered?, CopyAddrs, relays, contribution sizes) *)
  Inductive lout :=
  | ONone
  | OPunch (dst : list ap)
  | OBool (b : bool)
  | OList (present : bool) (addrs : list ap) (relays : list addr) (counts : list (addr * (N * N * N))).

  (* per owner: how many reported v4 / reported v6 / relay entries it contributes, owners in Addr.Compare order *)
  Definition counts_of (r : rl) : list (addr * (N * N * N)) :=
    sort_by (fun x y => addr_ltb (fst x) (fst y))
      (map (fun e => (fst e, (N.of_nat (length (oc_r4 (snd e))), N.of_nat (length (oc_r6 (snd e))), N.of_nat (length (oc_relay (snd e)))))) (rl_cache r)).

  Definition list_of (s : lh) (id : N) : rl := match lget (lh_lists s) id with Some r => snd r | None => rl_new [] end.

  Definition lstep (s : lh) (o : lop) : lh * lout :=
    match o with
    | LQueryReply from old vpn v4 v6 orel rel =>
        match from, details old vpn with
        | f0 :: _, Some d =>
            if any_lighthouse c from then
              let '(s1, id) := get_remote_list s [d] in
              (on_list s1 id [RSet4 f0 d v4; RSet6 f0 d v6; RRelay f0 (relays_in orel rel)], ONone)
            else (s, ONone)
        | _, _ => (s, ONone)
        end
    | LUpdate from old vpn v4 v6 orel rel =>
        match from with
        | f0 :: _ =>
            if cfg_am_lh c && (match details old vpn with Some d => mem_addr d from | None => true end) then
              let '(s1, id) := get_remote_list s from in
              (on_list s1 id [RSet4 f0 f0 v4; RSet6 f0 f0 v6; RRelay f0 (relays_in orel rel)], ONone)
            else (s, ONone)
        | [] => (s, ONone)
        end
    | LPunch from old vpn v4 v6 =>
        match details old vpn with
        | Some d => if any_lighthouse c from
                    then (s, OPunch (filter (chk d) (map of_v4 v4) ++ filter (chk d) (map of_v6 v6)))
                    else (s, OPunch [])
        | None => (s, OPunch [])
        end
    | LPunchAll vpns pref =>
        match vpns with
        | _ :: _ =>
            let '(s1, id) := get_remote_list s vpns in
            if any_lighthouse c vpns then (s1, OPunch [])
            else let s2 := on_list s1 id [RRebuild pref] in (s2, OPunch (rl_addrs (list_of s2 id)))
        | [] => (s, OPunch [])
        end
    | LCalc vpn =>
        if is_static c vpn then (s, ONone)
        else match calc_remotes c vpn with
             | None => (s, ONone)
             | Some l =>
                 let '(s1, id) := get_remote_list s [vpn] in
                 (* ApplyV4 / ApplyV6 produce protobuf entries; the port is below 65536 and the address of vpn's family *)
                 (match l, fst vpn with
                  | [], _ => s1
                  | _, F4 => on_list s1 id [RSet4 (cfg_self c) vpn (map (fun a => (ap_val a, ap_port a)) l)]
                  | _, F6 => on_list s1 id [RSet6 (cfg_self c) vpn
                               (map (fun a => (ap_val a / 18446744073709551616, ap_val a mod 18446744073709551616, ap_port a)) l)]
                  end, ONone)
             end
    | LDelete vpns =>
        match vpns with
        | v0 :: _ =>
            if existsb (is_static c) vpns then (s, ONone)
            else match mget (lh_map s) v0 with
                 | Some id =>
                     (mkLH (fold_left (fun m a => match mget m a with
                                                  | Some i => if i =? id then mdel m a else m
                                                  | None => m end) vpns (lh_map s))
                           (lh_lists s) (lh_next s), ONone)
                 | None => (s, ONone)
                 end
        | [] => (s, ONone)
        end
    | LLearn vpns src =>
        match vpns with
        | v0 :: _ =>
            (* readOutsidePackets drops a source inside the node's own networks before any tunnel is looked at;
               the output says whether src became the tunnel's remote *)
            if in_my c (ap_addr src) then (s, OBool false)
            else
              let '(s1, id) := get_remote_list s vpns in
              if ral_allow_all c vpns (ap_addr src) then (on_list s1 id [RLearn v0 src], OBool true) else (s1, OBool false)
        | [] => (s, OBool false)
        end
    | LBlock vpn a =>
        let '(s1, id) := get_remote_list s [vpn] in (on_list s1 id [RBlock a], ONone)
    | LDone vpns =>
        match vpns with
        | _ :: _ =>
            let '(s1, id) := get_remote_list s vpns in
            (mkLH (lh_map s1) (lupd (lh_lists s1) id (fun r => (fst r ++ vpns, rstep adm chk (snd r) (RRefresh vpns)))) (lh_next s1), ONone)
        | [] => (s, ONone)
        end
    | LCopy vpn pref =>
        match mget (lh_map s) vpn with
        | Some id =>
            let s2 := on_list s id [RRebuild pref] in
            (s2, OList true (rl_addrs (list_of s2 id)) (rl_relays (list_of s2 id)) (counts_of (list_of s2 id)))
        | None => (s, OList false [] [] [])
        end
    | LHsCheck vpns src =>
        (* a handshake from src with a certificate for vpns: readOutsidePackets' gate, then validatePeerCert
           (not one of the node's own addresses, AllowAll over every address of the certificate) *)
        (s, OBool (negb (in_my c (ap_addr src)) && negb (existsb (fun v => mem_addr v (my_addrs c)) vpns) &&
                   ral_allow_all c vpns (ap_addr src)))
    end.

  Definition lrun (s : lh) (ops : list lop) : lh := fold_left (fun st o => fst (lstep st o)) ops s.
End Step.

(* WriteDiscipline: the syntactic write discipline of C34 (the part of data-race freedom that is a discipline of the
   source) - executable definitions only.
   gen/WriteSites.v (regenerated on every run by go/lockgraph/guards.go from the source of /repo) lists every write of
   two kinds, with numeric ids only:
     kind 0  a store into a struct of a type documented as IMMUTABLE AFTER PUBLICATION, with a flag [fresh]: the
             written object is an allocation of the writing function that cannot have escaped before the store;
     kind 1  a write (map update, delete, clear, element store, store to the field) to a map / slice field of a struct
             that carries a mutex, with [fresh] for the owning struct and the lock classes that are MUST-HELD at the
             write on every path from every caller, in write mode and in read mode.
   The RULES below are written by hand from the comments in the source; they name the generated constants, so a
   documented field, type or lock class that disappears from the code stops this file from compiling. *)
From Coq Require Import List NArith Bool.
Import ListNotations.
From NV Require Import gen.LockGraph gen.WriteSites.
Open Scope N_scope.

Inductive wkind := KImm | KGuard.

Record wsite := mkSite {
  ws_id : N; ws_kind : wkind; ws_obj : N;      (* type id (KImm) or field id (KGuard) *)
  ws_fresh : bool; ws_heldw : list N; ws_heldr : list N }.

Definition site_of (t : N * N * N * bool * list N * list N) : wsite :=
  let '(i, k, o, f, w, r) := t in mkSite i (if k =? 0 then KImm else KGuard) o f w r.

Definition sites : list wsite := map site_of write_sites.

Definition memN (x : N) (l : list N) : bool := existsb (N.eqb x) l.

(* /repo/hostmap.go, on RelayState: "For synchronization, treat the pointed-to Relay struct as immutable. To edit the
   Relay struct, make a copy of an existing value, edit the fileds in the copy, and then store a pointer to the new
   copy in both realyForBy* maps." and "For data race avoidance, the contents of a *Relay are treated immutably. To
   update a *Relay, copy the existing data, modify what needs to be updated, and store the new modified copy in the
   relayForByIp and relayForByIdx maps (with the RelayState Lock held)" *)
Definition immutable_types : list N := [typ_Relay].

(* field -> the lock class that must be held IN WRITE MODE by every writer *)
Definition guard_map : list (N * N) :=
  [ (* /repo/hostmap.go, HostMap: "sync.RWMutex //Because we concurrently read and write to our maps" *)
    (fld_HostMap_Indexes, cls_HostMap_RWMutex); (fld_HostMap_Relays, cls_HostMap_RWMutex);
    (fld_HostMap_RemoteIndexes, cls_HostMap_RWMutex); (fld_HostMap_Hosts, cls_HostMap_RWMutex);
    (fld_HostMap_moreHosts, cls_HostMap_RWMutex);
    (* /repo/hostmap.go, RelayState: "store the new modified copy in the relayForByIp and relayForByIdx maps (with the
       RelayState Lock held)"; relays is the third field next to the embedded RWMutex and every accessor locks it *)
    (fld_RelayState_relays, cls_RelayState_RWMutex); (fld_RelayState_relayForByAddr, cls_RelayState_RWMutex);
    (fld_RelayState_relayForByIdx, cls_RelayState_RWMutex);
    (* /repo/handshake_manager.go, HandshakeManager: "Mutex for interacting with the vpnIps and indexes maps" *)
    (fld_HandshakeManager_vpnIps, cls_HandshakeManager_RWMutex); (fld_HandshakeManager_indexes, cls_HandshakeManager_RWMutex);
    (* /repo/lighthouse.go, LightHouse: "sync.RWMutex //Because we concurrently read and write to our maps" *)
    (fld_LightHouse_addrMap, cls_LightHouse_RWMutex);
    (* /repo/remote_list.go, RemoteList: "Every interaction with internals requires a lock!" *)
    (fld_RemoteList_vpnAddrs, cls_RemoteList_RWMutex); (fld_RemoteList_addrs, cls_RemoteList_RWMutex);
    (fld_RemoteList_relays, cls_RemoteList_RWMutex); (fld_RemoteList_cache, cls_RemoteList_RWMutex);
    (fld_RemoteList_badRemotes, cls_RemoteList_RWMutex);
    (* /repo/inside.go, getOrHandshakeConsiderRouting (the repair of finding F31): "This has to go through the handshake
       manager again, the pending handshake can only be touched under its lock and may have completed or been replaced
       in the meantime."  Every write to a pending handshake's packet cache - cachePacket through the cacheCb callbacks
       that StartHandshake runs under hm.Lock(), and the hand-over to the replacement handshake in continueHandshake's
       wrong-responder path, also a StartHandshake callback - holds the HandshakeManager lock in write mode.  (The
       flush after completion only reads the slice; reads are not judged.) *)
    (fld_HandshakeHostInfo_packetStore, cls_HandshakeManager_RWMutex) ].

Definition guard_of (f : N) : option N :=
  match find (fun p => fst p =? f) guard_map with Some p => Some (snd p) | None => None end.

(* the rule for one write *)
Definition site_ok (s : wsite) : bool :=
  match ws_kind s with
  | KImm => if memN (ws_obj s) immutable_types then ws_fresh s else true
  | KGuard => match guard_of (ws_obj s) with
              | Some c => ws_fresh s || memN c (ws_heldw s)
              | None => true      (* a container without a documented guard: listed, not judged *)
              end
  end.

(* is this site judged at all *)
Definition site_pinned (s : wsite) : bool :=
  match ws_kind s with
  | KImm => memN (ws_obj s) immutable_types
  | KGuard => match guard_of (ws_obj s) with Some _ => true | None => false end
  end.

(* ---- what the discipline buys: an abstract model of accesses ------------------------------------------------------ *)

(* An access in progress at some instant: which thread, which location, read or write, and the locks the thread holds
   exclusively (write mode) while it performs it. *)
Record access := mkAccess { a_thread : N; a_loc : N; a_write : bool; a_held : list N }.

(* an instant of an execution: the accesses in progress.  Mutual exclusion of write-mode locks: no lock is held
   exclusively by two different threads at the same instant. *)
Definition exclusive (st : list access) : Prop :=
  forall a b l, In a st -> In b st -> In l (a_held a) -> In l (a_held b) -> a_thread a = a_thread b.

Definition write_guarded (guard : N -> N) (a : access) : Prop :=
  a_write a = true -> In (guard (a_loc a)) (a_held a).

(* An object of an immutable type: the events that concern it, in the order of one execution. *)
Inductive oev := Publish (o : N) | Acc (t : N) (o : N) (w : bool).

(* the discipline certified per site: a write to o is never preceded by the publication of o *)
Definition fresh_writes (tr : list oev) : Prop :=
  forall pre t o post, tr = pre ++ Acc t o true :: post -> ~ In (Publish o) pre.

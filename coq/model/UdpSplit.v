(* Model of /repo/udp/udp_linux.go: deliverSegments and parseRecvCmsg.  Executable definitions only.

   deliverSegments(r, from, payload, segSize):
       if segSize <= 0 || segSize >= len(payload) { r(from, payload); return }
       for off := 0; off < len(payload); off += segSize { end := min(off+segSize, len(payload)); r(from, payload[off:end]) }
   The model returns the list of slices handed to r, in call order.

   parseRecvCmsg(hdr): the walk over the ancillary buffer ctrl = hdr.Control[:hdr.Controllen].  Every byte
   the code looks at is read through [rd], which records an out-of-bounds flag instead of failing; the
   theorem C27_cmsg_bounds says the flag is never set.  The layout constants (sizeof(cmsghdr), alignment,
   field offsets/widths, SOL_UDP, UDP_GRO, byte order, width of int) come from gen/Consts_UdpSplit.v, which
   is printed by the harness from the compiled code on every run. *)
From Coq Require Import List NArith ZArith Bool.
Import ListNotations.
From NV Require Import lib.Bytes gen.Consts_UdpSplit.
Open Scope N_scope.

(* ---------------------------------------------------------------------------------------------- *)
(* deliverSegments                                                                                  *)

(* the for loop; [off] and [seg] are Go ints that are >= 0 here. One unit of fuel per iteration;
   running out of fuel is reported as None (the theorem shows it does not happen). *)
Fixpoint seg_loop (fuel : nat) (p : list N) (off seg : nat) : option (list (list N)) :=
  if (off <? length p)%nat then
    match fuel with
    | O => None
    | S f =>
        let e := if (length p <? off + seg)%nat then length p else (off + seg)%nat in
        match seg_loop f p (off + seg) seg with
        | None => None
        | Some r => Some (slice p off (e - off) :: r)
        end
    end
  else Some [].

(* segSize is a Go int (it comes from int(int32(...)) in parseRecvCmsg): a signed integer. *)
Definition deliver_segments (p : list N) (seg : Z) : option (list (list N)) :=
  if ((seg <=? 0)%Z || (Z.of_nat (length p) <=? seg)%Z)%bool then Some [p]
  else seg_loop (length p) p 0 (Z.to_nat seg).

(* ---------------------------------------------------------------------------------------------- *)
(* parseRecvCmsg                                                                                    *)

(* checked byte read: (value, out-of-bounds?) *)
Definition rd (buf : list N) (i : N) : N * bool :=
  match nth_error buf (N.to_nat i) with
  | Some b => (b, false)
  | None => (0, true)
  end.

Fixpoint rd_bytes (buf : list N) (off : N) (k : nat) : list N * bool :=
  match k with
  | O => ([], false)
  | S k' =>
      let '(b, o) := rd buf off in
      let '(r, o') := rd_bytes buf (off + 1) k' in
      (b :: r, o || o')
  end.

(* a k-byte unsigned field in host byte order *)
Definition rd_uint (buf : list N) (off : N) (k : N) : N * bool :=
  let '(bs, o) := rd_bytes buf off (N.to_nat k) in
  ((if us_little_endian then le_dec bs else be_dec bs), o).

(* conversion of an unsigned machine word to the signed integer of the same width *)
Definition to_signed (bits : N) (v : N) : Z :=
  let m := v mod 2 ^ bits in
  if m <? 2 ^ (bits - 1) then Z.of_N m else (Z.of_N m - Z.of_N (2 ^ bits))%Z.

(* cmsgAlignOf(n) = (n + align - 1) &^ (align - 1) ;  CmsgLen(n) ; CmsgSpace(n) *)
Definition cmsg_align (n : N) : N := N.ldiff (n + (us_align - 1)) (us_align - 1).
Definition cmsg_len (n : N) : N := cmsg_align us_sizeof_cmsghdr + n.
Definition cmsg_space (n : N) : N := cmsg_align us_sizeof_cmsghdr + cmsg_align n.

(* the loop  for off+SizeofCmsghdr <= len(ctrl) { ... } ; result (gso, out-of-bounds flag) *)
Fixpoint walk (fuel : nat) (buf : list N) (off : N) (gso : Z) (oob : bool) : option (Z * bool) :=
  match fuel with
  | O => None
  | S f =>
      let len := N.of_nat (length buf) in
      if off + us_sizeof_cmsghdr <=? len then
        (* ch := the Cmsghdr at ctrl[off] ; clen := int(ch.Len) *)
        let '(rawlen, o1) := rd_uint buf off us_len_width in
        let clen := to_signed us_int_bits rawlen in
        if ((clen <? Z.of_N us_sizeof_cmsghdr)%Z || (Z.of_N (len - off) <? clen)%Z)%bool then Some (gso, oob || o1)
        else
          let data_off := off + cmsg_len 0 in
          let '(lvl, o2) := rd_uint buf (off + us_level_off) us_level_width in
          let '(gso', o3) :=
            if lvl =? us_sol_udp then
              let '(typ, o3) := rd_uint buf (off + us_type_off) us_type_width in
              if typ =? us_udp_gro then
                if data_off + us_gro_payload <=? len then
                  (* gso = int(int32(NativeEndian.Uint32(ctrl[dataOff:dataOff+4]))) *)
                  let '(v, o4) := rd_uint buf data_off us_gro_payload in
                  (to_signed (8 * us_gro_payload) v, o3 || o4)
                else (gso, o3)
              else (gso, o3)
            else (gso, false) in
          (* off += CmsgSpace(clen - CmsgLen(0)) *)
          walk f buf (off + cmsg_space (Z.to_N (clen - Z.of_N (cmsg_len 0)))) gso' (oob || o1 || o2 || o3)
      else Some (gso, oob)
  end.

(* controllen = len(buf); a nil Control with Controllen >= 16 does not occur (recvmmsg never enlarges it) *)
Definition parse_recv_cmsg (buf : list N) : option (Z * bool) :=
  if N.of_nat (length buf) <? us_sizeof_cmsghdr then Some (0%Z, false)
  else walk (length buf) buf 0 0%Z false.

(* builder used by the examples: one cmsg (header + data, padded to CmsgSpace) in host byte order *)
Definition enc_uint (k : nat) (x : N) : list N := if us_little_endian then le_enc k x else be_enc k x.
Definition mk_cmsg (level typ : N) (data : list N) : list N :=
  let n := N.of_nat (length data) in
  enc_uint (N.to_nat us_len_width) (cmsg_len n) ++ enc_uint 4 level ++ enc_uint 4 typ ++ data ++
  repeat 0 (N.to_nat (cmsg_space n - cmsg_len n)).

(* FwConfig: executable model of the firewall configuration loader in /repo/firewall.go
   (AddFirewallRulesFromConfig, convertRule, parsePort, parsePortValue). Definitions only.

   YAML values are what go.yaml.in/yaml/v3 hands to config.C: nil, string, int, bool, float64, []any, map[string]any.
   A float is carried as the text fmt's %v prints for it. Maps are association lists with distinct keys, listed in
   sorted key order (that is the order fmt's %v prints them in). netip.ParsePrefix is a parameter [pp]. *)
From Coq Require Import List NArith ZArith Bool String Ascii.
Import ListNotations.
From NV Require Import lib.Corr lib.Ip gen.Consts_Firewall model.Firewall.
Open Scope N_scope.

Definition bs (s : string) : str := List.map N_of_ascii (list_ascii_of_string s).

Inductive yaml :=
| YNull | YStr (s : str) | YInt (z : Z) | YBool (b : bool) | YFloatText (s : str)
| YList (l : list yaml) | YMap (m : list (str * yaml)).

(* RPanic: the process would crash. Before the repair F21 convertRule panicked on `group: []`, on a non-string entry of
   `groups` and on `groups: null`; the repaired code (mirrored here) never panics, the constructor is kept so that the
   theorems can say so. *)
Inductive res (A : Type) := ROk (a : A) | RErr | RPanic.
Arguments ROk {A} a. Arguments RErr {A}. Arguments RPanic {A}.

(* ---- strconv.ParseUint(s, 10, 16) ---- *)
Definition is_digit (c : N) : bool := (48 <=? c) && (c <=? 57).
Definition cutoff64 : N := 18446744073709551615 / 10 + 1.

Fixpoint pu_loop (l : str) (n : N) : option N :=
  match l with
  | [] => Some n
  | c :: r =>
      if negb (is_digit c) then None              (* syntax error: sign, space, hex letter, underscore, ... *)
      else if cutoff64 <=? n then None            (* n*10 would overflow uint64 (unreachable: n <= 65535) *)
      else let n1 := n * 10 + (c - 48) in
           if 65535 <? n1 then None               (* range error, bitSize 16 *)
           else pu_loop r n1
  end.

Definition parse_port_value (s : str) : option N :=
  match s with [] => None | _ => pu_loop s 0 end.

(* ---- parsePort ---- *)
Definition sp : N := 32.
Definition dash : N := 45.

Fixpoint trim_l (s : str) : str :=
  match s with c :: r => if c =? sp then trim_l r else s | [] => [] end.
Definition trim (s : str) : str := rev (trim_l (rev (trim_l s))).          (* strings.Trim(s, " ") *)

(* strings.SplitN(s, "-", 2) when s contains a dash *)
Fixpoint split_dash (s : str) : option (str * str) :=
  match s with
  | [] => None
  | c :: r => if c =? dash then Some ([], r)
              else match split_dash r with Some (a, b) => Some (c :: a, b) | None => None end
  end.

Definition parse_port (s : str) : option (Z * Z) :=
  if str_eqb s (bs "any") then Some (port_any, port_any)
  else if str_eqb s (bs "fragment") then Some (port_fragment, port_fragment)
  else match split_dash s with
       | None => match parse_port_value s with Some p => Some (Z.of_N p, Z.of_N p) | None => None end
       | Some (l, r) =>
           let l' := trim l in let r' := trim r in
           if negb (nonempty l') || negb (nonempty r') then None
           else match parse_port_value l' with
                | None => None
                | Some a => match parse_port_value r' with
                            | None => None
                            | Some b => Some (Z.of_N a, if (Z.of_N a =? port_any)%Z then port_any else Z.of_N b)
                            end
                end
       end.

(* ---- the documented port grammar, written without the ParseUint loop (proved equal to parse_port) ---- *)
Definition dec_val (s : str) : N := fold_left (fun a c => a * 10 + (c - 48)) s 0.
Definition decimal16 (s : str) : option N :=
  if nonempty s && forallb is_digit s then (if dec_val s <=? 65535 then Some (dec_val s) else None) else None.
Definition spec_port (s : str) : option (Z * Z) :=
  if str_eqb s (bs "any") then Some (0, 0)%Z
  else if str_eqb s (bs "fragment") then Some (-1, -1)%Z
  else match split_dash s with
       | None => option_map (fun n => (Z.of_N n, Z.of_N n)) (decimal16 s)
       | Some (l, r) =>
           match decimal16 (trim l), decimal16 (trim r) with
           | Some a, Some b => Some (Z.of_N a, if a =? 0 then 0%Z else Z.of_N b)
           | _, _ => None
           end
       end.

(* ---- fmt.Sprintf("%v", v) ---- *)
Fixpoint uint_digits (u : Decimal.uint) : str :=
  match u with
  | Decimal.Nil => []
  | Decimal.D0 r => 48 :: uint_digits r | Decimal.D1 r => 49 :: uint_digits r | Decimal.D2 r => 50 :: uint_digits r
  | Decimal.D3 r => 51 :: uint_digits r | Decimal.D4 r => 52 :: uint_digits r | Decimal.D5 r => 53 :: uint_digits r
  | Decimal.D6 r => 54 :: uint_digits r | Decimal.D7 r => 55 :: uint_digits r | Decimal.D8 r => 56 :: uint_digits r
  | Decimal.D9 r => 57 :: uint_digits r
  end.
Definition dec_of_N (n : N) : str := uint_digits (N.to_uint n).
Definition dec_of_Z (z : Z) : str := match z with Zneg p => dash :: dec_of_N (Npos p) | _ => dec_of_N (Z.to_N z) end.

Fixpoint fmt_v (y : yaml) : str :=
  match y with
  | YNull => bs "<nil>"
  | YStr s => s
  | YInt z => dec_of_Z z
  | YBool b => if b then bs "true" else bs "false"
  | YFloatText s => s
  | YList l =>
      91 :: (fix go (l : list yaml) : str :=
               match l with
               | [] => []
               | [x] => fmt_v x
               | x :: r => fmt_v x ++ sp :: go r
               end) l ++ [93]
  | YMap m =>
      bs "map[" ++ (fix go (m : list (str * yaml)) : str :=
                      match m with
                      | [] => []
                      | [(k, x)] => k ++ 58 :: fmt_v x
                      | (k, x) :: r => k ++ 58 :: fmt_v x ++ sp :: go r
                      end) m ++ [93]
  end.

(* ---- convertRule ---- *)
Record crule := mkCr {
  c_port : str; c_code : str; c_proto : str; c_host : str; c_groups : list str;
  c_cidr : str; c_local : str; c_ca_name : str; c_ca_sha : str }.

Definition mget (k : string) (m : list (str * yaml)) : option yaml := aget str_eqb (bs k) m.
Definition to_string (k : string) (m : list (str * yaml)) : str :=
  match mget k m with None => [] | Some v => fmt_v v end.

Definition all_strings (l : list yaml) : option (list str) :=
  fold_right (fun y acc => match y, acc with YStr s, Some r => Some (s :: r) | _, _ => None end) (Some []) l.

Definition convert_rule (y : yaml) : res crule :=
  match y with
  | YMap m =>
      (* `group` given as an array: exactly one element is unwrapped, none or more is an error *)
      let single : res str :=
        match mget "group" m with
        | Some (YList v) => match v with [x] => ROk (fmt_v x) | _ => RErr end
        | Some v => ROk (fmt_v v)
        | None => ROk []
        end in
      match single with
      | RErr => RErr
      | RPanic => RPanic
      | ROk sg =>
          (* `groups`: nil is treated as absent; a slice must hold strings only; a string is one group; anything else
             is printed with %v *)
          let groups : res (list str) :=
            match mget "groups" m with
            | None | Some YNull => ROk []
            | Some (YList l) => match all_strings l with Some ss => ROk ss | None => RErr end
            | Some (YStr s) => ROk [s]
            | Some v => ROk [fmt_v v]
            end in
          match groups with
          | RErr => RErr
          | RPanic => RPanic
          | ROk gs =>
              if nonempty sg && nonempty gs then RErr        (* both group and groups *)
              else ROk (mkCr (to_string "port" m) (to_string "code" m) (to_string "proto" m) (to_string "host" m)
                             (if nonempty sg then [sg] else gs)
                             (to_string "cidr" m) (to_string "local_cidr" m) (to_string "ca_name" m) (to_string "ca_sha" m))
          end
      end
  | _ => RErr
  end.

(* ---- the checks of AddFirewallRulesFromConfig on one converted rule; Some = the AddRule call it makes ---- *)
Definition csel_of (pp : str -> option prefix) (s : str) : option csel :=
  if negb (nonempty s) then Some CNone
  else if str_eqb s (bs "any") then Some CAny
  else match pp s with Some p => Some (CPfx p) | None => None end.

Definition check_rule (pp : str -> option prefix) (c : crule) : option rule :=
  if nonempty (c_code c) && nonempty (c_port c) then None
  else if negb (nonempty (c_host c)) && negb (nonempty (c_groups c)) && negb (nonempty (c_cidr c))
          && negb (nonempty (c_local c)) && negb (nonempty (c_ca_name c)) && negb (nonempty (c_ca_sha c)) then None
  else
    let sport := if nonempty (c_code c) then c_code c else c_port c in
    let pr : option (N * (Z * Z)) :=
      if str_eqb (c_proto c) (bs "any") then option_map (pair proto_any) (parse_port sport)
      else if str_eqb (c_proto c) (bs "tcp") then option_map (pair proto_tcp) (parse_port sport)
      else if str_eqb (c_proto c) (bs "udp") then option_map (pair proto_udp) (parse_port sport)
      else if str_eqb (c_proto c) (bs "icmp") then Some (proto_icmp, (port_any, port_any))
      else None in
    match pr with
    | None => None
    | Some (proto, (s, e)) =>
        match csel_of pp (c_cidr c), csel_of pp (c_local c) with
        | Some cidr, Some lcl => Some (mkRule proto s e (c_groups c) (c_host c) cidr lcl (c_ca_name c) (c_ca_sha c))
        | _, _ => None
        end
    end.

(* against a FirewallInterface whose AddRule never fails (the recorder): the AddRule calls, in order *)
Fixpoint rules_of_list (pp : str -> option prefix) (ys : list yaml) : res (list rule) :=
  match ys with
  | [] => ROk []
  | y :: rest =>
      match convert_rule y with
      | RPanic => RPanic
      | RErr => RErr
      | ROk c => match check_rule pp c with
                 | None => RErr
                 | Some r => match rules_of_list pp rest with ROk rs => ROk (r :: rs) | e => e end
                 end
      end
  end.

(* c.Get("firewall.inbound"/"firewall.outbound"): absent or nil = no rules; otherwise it must be an array *)
Definition rules_from_config (pp : str -> option prefix) (tbl : option yaml) : res (list rule) :=
  match tbl with
  | None | Some YNull => ROk []
  | Some (YList ys) => rules_of_list pp ys
  | Some _ => RErr
  end.

(* against the real Firewall: AddRule is called rule by rule and its error stops the load *)
Fixpoint load_list (pp : str -> option prefix) (cf : fwconf) (ys : list yaml) (t : table) : res table :=
  match ys with
  | [] => ROk t
  | y :: rest =>
      match convert_rule y with
      | RPanic => RPanic
      | RErr => RErr
      | ROk c => match check_rule pp c with
                 | None => RErr
                 | Some r => match add_rule cf r t with None => RErr | Some t' => load_list pp cf rest t' end
                 end
      end
  end.

Definition load_config (pp : str -> option prefix) (cf : fwconf) (tbl : option yaml) (t : table) : res table :=
  match tbl with
  | None | Some YNull => ROk t
  | Some (YList ys) => load_list pp cf ys t
  | Some _ => RErr
  end.

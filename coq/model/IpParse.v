(* Model of /repo/outside.go newPacket / parseV4 / parseV6 and /repo/iputil/packet.go IPv6FindUpperProtocol,
   plus an independent reference parser [spec_parse].  Executable definitions only.

   A packet is a [list N] of bytes.  Offsets and lengths are Go ints; they stay far below 2^63 (an extension
   header advances the offset by at most 2048 and at most [ipp_max_ext_headers] headers are walked), so N is exact.

   Every byte the code looks at is read through a *checked* accessor ([rd], [rds], [rd16]) that yields [Panic]
   for an index outside the slice (Go's bounds check).  Theorem C20_total says [Panic] is never the result.

   Result of the implementation-side functions:  Ok v | Err code | Panic, the code only documents which Go
   error is returned (1 ErrPacketTooShort, 2 ErrUnknownIPVersion, 3 ErrIPv4InvalidHeaderLength,
   4 ErrIPv4PacketTooShort, 5 ErrIPv6PacketTooShort, 6 ErrIPv6CouldNotFindPayload) and is not compared with the code. *)
From Coq Require Import List NArith Bool.
Import ListNotations.
From NV Require Import lib.Bytes gen.Consts_IpParse.
Open Scope N_scope.

Inductive res (A : Type) : Type := Ok (a : A) | Err (e : N) | Panic.
Arguments Ok {A} a.
Arguments Err {A} e.
Arguments Panic {A}.

Definition blen (d : list N) : N := N.of_nat (length d).

(* data[i] *)
Definition rd {A : Type} (d : list N) (i : N) (k : N -> res A) : res A :=
  match nth_error d (N.to_nat i) with
  | Some b => k b
  | None => Panic
  end.

(* data[lo:lo+n]  (the bound used is len, Go's is cap >= len: the model is the stricter one) *)
Definition rds {A : Type} (d : list N) (lo n : N) (k : list N -> res A) : res A :=
  if lo + n <=? blen d then k (slice d (N.to_nat lo) (N.to_nat n)) else Panic.

(* binary.BigEndian.Uint16(data[i:i+2]) *)
Definition rd16 {A : Type} (d : list N) (i : N) (k : N -> res A) : res A :=
  rds d i 2 (fun s => k (be_dec s)).

(* firewall.ParsedPacket: addresses are the 4 or 16 address bytes (netip.AddrFromSlice keeps the family of the
   slice length; an IPv4-mapped IPv6 address stays a 16-byte address). *)
Record fpkt := mkFp {
  fp_local : list N; fp_remote : list N;
  fp_lport : N; fp_rport : N;
  fp_proto : N;
  fp_frag : bool;      (* Packet.Fragment: a NON-first fragment *)
  fp_fragany : bool;   (* ParsedPacket.FragAny: any fragmentation at all *)
  fp_hdrlen : N        (* ParsedPacket.IPHdrLen *)
}.

(* ------------------------------------------------------------------------------------------------ *)
(* IPv6FindUpperProtocol                                                                              *)

(* the next-header values the walker treats as extension headers (the `case` labels; gen/Consts_IpParse.v
   holds the same set measured on the compiled function for all 256 values, pinned in props/C20.v) *)
Definition is_ext (nh : N) : bool :=
  (nh =? 0) || (nh =? 43) || (nh =? 44) || (nh =? 51) || (nh =? 60).

(* for range maxIPv6ExtHeaders { switch nextHeader {...} } followed by the post-loop code.
   One unit of fuel per loop iteration; fuel O is the code after the loop. Result (nextHeader, offset, isFragment, anyFragment). *)
Fixpoint walk_loop (fuel : nat) (d : list N) (nh off : N) (anyf : bool) : res (N * N * bool * bool) :=
  let len := blen d in
  match fuel with
  | O =>
      if is_ext nh then Err 6
      else if len <? off then Err 6
      else Ok (nh, off, false, anyf)
  | S f =>
      if (nh =? 0) || (nh =? 43) || (nh =? 60) then          (* Hop-by-Hop, Routing, Destination *)
        if len <? off + 2 then Err 6 else
        rd d off (fun nh' => rd d (off + 1) (fun l =>
          walk_loop f d nh' (off + (l + 1) * 8) anyf))          (* offset += (int(packet[offset+1]) + 1) << 3 *)
      else if nh =? 44 then                                     (* Fragment *)
        if len <? off + 8 then Err 6 else
        rd d (off + 2) (fun b2 => rd d (off + 3) (fun b3 =>
          if negb (b2 =? 0) || negb (N.land b3 248 =? 0)
          then rd d off (fun p => Ok (p, off, true, true))       (* non-first fragment: stop here *)
          else rd d off (fun nh' => walk_loop f d nh' (off + 8) true)))
      else if nh =? 51 then                                     (* AH *)
        if len <? off + 2 then Err 6 else
        rd d off (fun nh' => rd d (off + 1) (fun l =>
          walk_loop f d nh' (off + (l + 2) * 4) anyf))          (* offset += (int(packet[offset+1]) + 2) << 2 *)
      else                                                      (* default: terminal protocol *)
        if len <? off then Err 6 else Ok (nh, off, false, anyf)
  end.

Definition find_upper (d : list N) : res (N * N * bool * bool) :=
  if blen d <? 40 then Err 6 else
  rd d 6 (fun nh => walk_loop (N.to_nat ipp_max_ext_headers) d nh 40 false).

(* ------------------------------------------------------------------------------------------------ *)
(* parseV6 / parseV4 / newPacket                                                                      *)

Definition parse_v6 (d : list N) (incoming : bool) : res fpkt :=
  let len := blen d in
  if len <? 40 then Err 5 else
  rds d 8 16 (fun src => rds d 24 16 (fun dst =>
  let l := if incoming then dst else src in
  let r := if incoming then src else dst in
  match find_upper d with
  | Panic => Panic
  | Err _ => Err 5
  | Ok (proto, off, isf, anyf) =>
      if isf then Ok (mkFp l r 0 0 proto true anyf off)
      else if proto =? 58 then                                  (* ICMPv6 *)
        if len <? off + 4 then Err 5 else
        rd d off (fun ty =>
          if (ty =? 128) || (ty =? 129) then                    (* echo request / reply: identifier *)
            if len <? off + 6 then Err 5 else
            rd16 d (off + 4) (fun id => Ok (mkFp l r 0 id proto false anyf off))
          else Ok (mkFp l r 0 0 proto false anyf off))
      else if (proto =? 6) || (proto =? 17) then                (* TCP, UDP *)
        if len <? off + 4 then Err 5 else
        rd16 d off (fun p1 => rd16 d (off + 2) (fun p2 =>
          if incoming then Ok (mkFp l r p2 p1 proto false anyf off)
          else Ok (mkFp l r p1 p2 proto false anyf off)))
      else Ok (mkFp l r 0 0 proto false anyf off)
  end)).

Definition parse_v4 (d : list N) (incoming : bool) : res fpkt :=
  let len := blen d in
  if len <? 20 then Err 4 else
  rd d 0 (fun b0 =>
  let ihl := N.land b0 15 * 4 in                                (* int(data[0]&0x0f) << 2 *)
  if ihl <? 20 then Err 3 else
  rd16 d 6 (fun ff =>
  let frag := negb (N.land ff 8191 =? 0) in                     (* flagsfrags & 0x1FFF *)
  let fragany := negb (N.land ff 16383 =? 0) in                 (* flagsfrags & 0x3fff *)
  rd d 9 (fun proto =>
  let minlen := ihl + (if frag then 0 else if proto =? 1 then ipp_min_fw_packet_len + 2 else ipp_min_fw_packet_len) in
  if len <? minlen then Err 3 else
  rds d 12 4 (fun src => rds d 16 4 (fun dst =>
  let l := if incoming then dst else src in
  let r := if incoming then src else dst in
  if frag then Ok (mkFp l r 0 0 proto true fragany ihl)
  else if proto =? 1 then
    rd16 d (ihl + 4) (fun id => Ok (mkFp l r 0 id proto false fragany ihl))
  else
    rd16 d ihl (fun p1 => rd16 d (ihl + 2) (fun p2 =>
      if incoming then Ok (mkFp l r p2 p1 proto false fragany ihl)
      else Ok (mkFp l r p1 p2 proto false fragany ihl)))))))).

(* newPacket *)
Definition parse (d : list N) (incoming : bool) : res fpkt :=
  if blen d <? 1 then Err 1 else
  rd d 0 (fun b0 =>
  let version := N.land (N.shiftr b0 4) 15 in
  if version =? 4 then parse_v4 d incoming
  else if version =? 6 then parse_v6 d incoming
  else Err 2).

(* ------------------------------------------------------------------------------------------------ *)
(* The reference parser.  Written over the remaining bytes (a list that is consumed), not over offsets, and
   without any limit on the number of extension headers: it follows the chain for as long as there are bytes.

   Rules it states (RFC 791, RFC 8200 section 4, RFC 4302):
   * IPv4: header length 4*IHL >= 20, entirely present.  Fragment offset = low 13 bits of bytes 6..7, MF = bit 13.
     A non-first fragment (offset <> 0) has no transport header: ports 0.  Otherwise ICMP reports the 16-bit word at
     bytes 4..5 of the ICMP message as identifier (for every ICMP type) and every other protocol reports the first two
     16-bit words of the IP payload as source / destination port (for every protocol, not only TCP and UDP) - this is
     what the firewall is handed, stated here as the code has it.  The total-length field is not consulted.
   * IPv6: extension headers are Hop-by-Hop 0, Routing 43, Destination Options 60 (8*(len+1) bytes), Fragment 44
     (8 bytes), Authentication 51 (4*(len+2) bytes).  Everything else is an upper layer protocol, including
     No-Next-Header 59, ESP 50, Mobility 135, HIP 139, Shim6 140 and the experimental 253/254 (fail closed: they are
     classified as themselves, never skipped).  Each extension header must lie entirely inside the packet.
     A fragment header with a non-zero offset ends the walk: the packet is a non-first fragment, its protocol is the
     next-header byte of the fragment header, header length = offset of the fragment header, ports 0.
     Ports are reported for TCP and UDP only, the identifier for ICMPv6 echo request / reply only (4 resp. 6 bytes of
     the message must be present), 0 otherwise.  The payload-length field is not consulted.
   * orientation: incoming => remote = source, local = destination; outgoing the other way round (addresses and ports). *)

Inductive ext_kind := KOpts | KFrag | KAuth | KUpper.

Definition kind_of (nh : N) : ext_kind :=
  if nh =? 0 then KOpts else if nh =? 43 then KOpts else if nh =? 60 then KOpts
  else if nh =? 44 then KFrag else if nh =? 51 then KAuth else KUpper.

(* outcome of following a chain; [n] counts the extension headers met (including the final fragment header of a
   non-first fragment) *)
Inductive chain :=
| CDone (nh off : N) (payload : list N) (anyf : bool) (n : nat)   (* upper layer protocol nh, its bytes *)
| CNonFirst (nh off : N) (n : nat)                                 (* non-first fragment; nh = byte named by the fragment header *)
| CBad.                                                            (* truncated *)

Definition bump (c : chain) : chain :=
  match c with
  | CDone nh off p a n => CDone nh off p a (S n)
  | CNonFirst nh off n => CNonFirst nh off (S n)
  | CBad => CBad
  end.

Fixpoint spec_chain (fuel : nat) (nh : N) (rest : list N) (off : N) (anyf : bool) : chain :=
  match fuel with
  | O => CBad
  | S f =>
      match kind_of nh with
      | KOpts =>
          match rest with
          | nh' :: l :: _ =>
              let hl := 8 * (l + 1) in
              if hl <=? blen rest then bump (spec_chain f nh' (skipn (N.to_nat hl) rest) (off + hl) anyf) else CBad
          | _ => CBad
          end
      | KAuth =>
          match rest with
          | nh' :: l :: _ =>
              let hl := 4 * (l + 2) in
              if hl <=? blen rest then bump (spec_chain f nh' (skipn (N.to_nat hl) rest) (off + hl) anyf) else CBad
          | _ => CBad
          end
      | KFrag =>
          match rest with
          | nh' :: _ :: o1 :: o2 :: _ :: _ :: _ :: _ :: rest' =>
              if (o1 * 256 + o2) / 8 =? 0                       (* 13-bit fragment offset *)
              then bump (spec_chain f nh' rest' (off + 8) true)
              else CNonFirst nh' off 1
          | _ => CBad
          end
      | KUpper => CDone nh off rest anyf 0
      end
  end.

(* every extension header consumes at least 8 bytes, so |packet| + 1 steps always suffice *)
Definition spec_walk (d : list N) : chain :=
  spec_chain (S (length d)) (nth 6 d 0) (skipn 40 d) 40 false.

Definition orient (incoming : bool) (src dst : list N) (sp dp : N) (proto : N) (frag anyf : bool) (hl : N) : fpkt :=
  if incoming then mkFp dst src dp sp proto frag anyf hl else mkFp src dst sp dp proto frag anyf hl.

Definition spec_v6 (d : list N) (incoming : bool) : option fpkt :=
  if blen d <? 40 then None else
  let src := slice d 8 16 in
  let dst := slice d 24 16 in
  match spec_walk d with
  | CBad => None
  | CNonFirst nh off _ => Some (orient incoming src dst 0 0 nh true true off)
  | CDone nh off payload anyf _ =>
      if (nh =? 6) || (nh =? 17) then
        match payload with
        | a :: b :: c :: e :: _ => Some (orient incoming src dst (a * 256 + b) (c * 256 + e) nh false anyf off)
        | _ => None
        end
      else if nh =? 58 then
        match payload with
        | ty :: _ :: _ :: _ :: tl =>
            if (ty =? 128) || (ty =? 129) then
              match tl with
              | i1 :: i2 :: _ => Some (mkFp (if incoming then dst else src) (if incoming then src else dst) 0 (i1 * 256 + i2) nh false anyf off)
              | _ => None
              end
            else Some (orient incoming src dst 0 0 nh false anyf off)
        | _ => None
        end
      else Some (orient incoming src dst 0 0 nh false anyf off)
  end.

Definition spec_v4 (d : list N) (incoming : bool) : option fpkt :=
  if blen d <? 20 then None else
  let hl := 4 * (nth 0 d 0 mod 16) in
  let ff := nth 6 d 0 * 256 + nth 7 d 0 in
  let nonfirst := negb (ff mod 8192 =? 0) in
  let anyf := nonfirst || ((ff / 8192) mod 2 =? 1) in
  let proto := nth 9 d 0 in
  let src := slice d 12 4 in
  let dst := slice d 16 4 in
  if (hl <? 20) || (blen d <? hl) then None else
  let payload := skipn (N.to_nat hl) d in
  if nonfirst then Some (orient incoming src dst 0 0 proto true anyf hl)
  else if proto =? 1 then
    match payload with
    | _ :: _ :: _ :: _ :: i1 :: i2 :: _ =>
        Some (mkFp (if incoming then dst else src) (if incoming then src else dst) 0 (i1 * 256 + i2) proto false anyf hl)
    | _ => None
    end
  else
    match payload with
    | a :: b :: c :: e :: _ => Some (orient incoming src dst (a * 256 + b) (c * 256 + e) proto false anyf hl)
    | _ => None
    end.

Definition spec_parse (d : list N) (incoming : bool) : option fpkt :=
  match d with
  | [] => None
  | b0 :: _ =>
      if b0 / 16 =? 4 then spec_v4 d incoming
      else if b0 / 16 =? 6 then spec_v6 d incoming
      else None
  end.

(* number of extension headers in the chain of an IPv6 packet (0 if it has none or is not resolvable) *)
Definition chain_len (d : list N) : nat :=
  match spec_walk d with
  | CDone _ _ _ _ n => n
  | CNonFirst _ _ n => n
  | CBad => O
  end.

Definition is_v6 (d : list N) : bool := match d with b0 :: _ => b0 / 16 =? 6 | [] => false end.

(* the region in which the code reports an extension header number as protocol: the chain reaches a NON-first
   fragment header whose next-header byte names an extension header *)
Definition nonfirst_names_ext (d : list N) : bool :=
  is_v6 d && match spec_walk d with CNonFirst nh _ _ => is_ext nh | _ => false end.

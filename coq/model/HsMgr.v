(* Model of the handshake manager of /repo/handshake_manager.go as far as properties C09 and C10 need it:
   StartHandshake, handleOutbound (first attempt: buildStage0Packet -> allocateIndex; timeout branch),
   HandleIncoming -> beginHandshake (validatePeerCert, CheckAndComplete, handleCheckAndCompleteError,
   sendHandshakeResponse) and -> continueHandshake (self check, correctHostResponded, wrong-responder restart,
   Complete), DeleteHostInfo of both hostmaps, MakePrimary.

   The hostmaps themselves (Hosts, moreHosts, Indexes, RemoteIndexes, Relays, vpnIps, indexes) are the state of
   model/HostMap.v (component C28/C29) and every mutation of them goes through [HostMap.step], so every
   reachable state of this model carries a reachable (well formed) hostmap.  On top of it this model keeps,
   per hostinfo, what CheckAndComplete and handleCheckAndCompleteError read:

     ConnectionState.initiator, HandshakePacket[0], lastHandshakeTime, remote (underlay address)

   and per pending handshake the blocked underlay addresses of its remote list.  Executable definitions only.

   Abstractions (all named in vlib/props/C09.py, C10.py):
   - Noise and certificate verification are above this model: an operation [RespStage1] / [InitComplete] is a
     handshake message that already passed handshake.Machine.ProcessPacket with a verified peer certificate;
     its arguments are what the Machine hands to the manager (certificate addresses, peer index, peer time).
   - a stage-1 payload is named by a number [pkt]; two deliveries carry the same number iff they carry the same
     bytes.  The stage-0 message this node built itself as initiator (header included) is never equal to a
     received stage-1 payload: initiator tunnels never match in the ErrAlreadySeen scan ([seen]).
   - underlay addresses are numbers; [c_pref] lists those inside a preferred range.  Relayed deliveries, the
     remote allow list and the lighthouse notifications are not modelled. *)
From Coq Require Import List NArith Bool.
Import ListNotations.
From NV Require Import gen.Consts_HostMap model.HostMap.
Open Scope N_scope.

(* the node's own overlay addresses (myVpnAddrsTable) and the underlay addresses inside preferred_ranges *)
Record config := mkCfg { c_my : list N; c_pref : list N }.

(* per hostinfo that completed a handshake *)
Record hx := mkHX {
  x_init : bool;          (* ConnectionState.initiator *)
  x_pkt0 : N;             (* responder tunnels: the stage-1 payload kept in HandshakePacket[0] *)
  x_time : N;             (* lastHandshakeTime: the time the peer reported *)
  x_remote : option N     (* HostInfo.remote *)
}.

(* ghost: one entry per handshake that completed and put a tunnel into the main hostmap *)
Record ev := mkEv {
  e_id : N; e_init : bool; e_pkt : N; e_time : N;
  e_cert : list N;        (* the overlay addresses of the verified peer certificate *)
  e_target : option N     (* initiator: the address the handshake was started for *)
}.

Record hstate := mkHS {
  hm  : HostMap.state;
  hxs : amap hx;
  blk : amap (list N);    (* pending hostinfo -> badRemotes of its remote list *)
  nxt : N;                (* the id the next hostinfo gets *)
  log : list ev           (* ghost, never read by an operation *)
}.

Definition hinit : hstate := mkHS HostMap.init [] [] 1 [].

Definition set_hm (s : hstate) (m : HostMap.state) : hstate := mkHS m (hxs s) (blk s) (nxt s) (log s).

Inductive hop :=
| Start (a : N)                                          (* StartHandshake(a) *)
| Alloc (h : N) (cs : list N)                            (* first handleOutbound of pending h: stage 0 is built, cs = index candidates *)
| InitComplete (h : N) (cert : list N) (ridx t v : N)    (* stage 2 for pending h: peer certificate addresses, peer index, peer time, sender *)
| RespStage1 (pkt : N) (cs : list N) (ridx t : N) (cert : list N) (v : N)
                                                         (* stage 1: payload name, index candidates, peer index, peer time, certificate addresses, sender *)
| DelPending (h : N)                                     (* HandshakeManager.DeleteHostInfo *)
| DelMain (h : N)                                        (* HostMap.DeleteHostInfo *)
| Promote (h : N)                                        (* HostMap.MakePrimary *)
| Tick (a : N).                                          (* handleOutbound for a after the retries are used up *)

(* packets the manager puts on the wire (stage-0 transmissions are the subject of C32 and not listed) *)
Inductive out :=
| OStage2 (x v : N)       (* the stage-2 reply stored in tunnel x, sent to underlay address v *)
| OTest (r u : N)         (* a test request on the tunnel with peer index r, sent to u *)
| OClose (r u : N).       (* a close-tunnel on the hostinfo with peer index r, sent to u *)

Definition hx_of (s : hstate) (h : N) : hx :=
  match mget h (hxs s) with Some x => x | None => mkHX true 0 0 None end.

Definition is_self (cfg : config) (a : N) : bool := mem a (c_my cfg).

(* validatePeerCert / the loop of continueHandshake: a certificate naming one of my addresses *)
Definition has_self (cfg : config) (cert : list N) : bool := existsb (is_self cfg) cert.

(* bytes.Equal(hostinfo.HandshakePacket[0], testHostInfo.HandshakePacket[0]) *)
Definition seen (s : hstate) (pkt x : N) : bool :=
  negb (x_init (hx_of s x)) && (x_pkt0 (hx_of s x) =? pkt).

Inductive cac := CSeen (x : N) | COld (e : N) | CColl | CAdd.

(* CheckAndComplete for a fresh responder hostinfo (certificate addresses a0 :: _, local index i) *)
Definition check_and_complete (s : hstate) (pkt t a0 i : N) : cac :=
  let idx_check :=
    match mget i (idx (hm s)), mget i (pidx (hm s)) with
    | None, None => CAdd
    | _, _ => CColl
    end in
  match mget a0 (hosts (hm s)) with
  | Some e =>
      match find (seen s pkt) (get_list (hm s) a0) with
      | Some x => CSeen x
      | None =>
          if (t <=? x_time (hx_of s e)) && negb (x_init (hx_of s e)) then COld e else idx_check
      end
  | None => idx_check
  end.

Definition set_remote (s : hstate) (x v : N) : hstate :=
  let o := hx_of s x in
  mkHS (hm s) (mset x (mkHX (x_init o) (x_pkt0 o) (x_time o) (Some v)) (hxs s)) (blk s) (nxt s) (log s).

(* HostInfo.SetRemoteIfPreferred for a direct sender *)
Definition set_remote_if_preferred (cfg : config) (s : hstate) (x v : N) : hstate * bool :=
  match x_remote (hx_of s x) with
  | None => (set_remote s x v, true)
  | Some cur =>
      if negb (mem cur (c_pref cfg)) && mem v (c_pref cfg) then (set_remote s x v, true) else (s, false)
  end.

(* SendMessageToVpnAddr(Test, TestRequest, a): goes out on the primary tunnel of a *)
Definition test_out (s : hstate) (a : N) : list out :=
  match mget a (hosts (hm s)) with
  | Some e =>
      match mget e (infos (hm s)), x_remote (hx_of s e) with
      | Some hi, Some u => [OTest (hi_remote hi) u]
      | _, _ => []
      end
  | None => []
  end.

(* RemoteList.BlockRemote *)
Definition block (v : N) (l : list N) : list N := if mem v l then l else l ++ [v].

Definition blk_of (s : hstate) (h : N) : list N :=
  match mget h (blk s) with Some l => l | None => [] end.

Definition target_of (s : hstate) (h : N) : option N :=
  match mget h (infos (hm s)) with
  | Some hi => match hi_addrs hi with a :: _ => Some a | [] => None end
  | None => None
  end.

(* StartHandshake(a) giving the new pending hostinfo the blocked list bl; returns the pending hostinfo of a *)
Definition start_with (s : hstate) (a : N) (bl : option (list N)) : hstate :=
  let id := nxt s in
  match HostMap.step (OStart id a) (hm s) with
  | (m', RId e created) =>
      let b := match bl with Some l => mset e l (blk s) | None => if created then mset e [] (blk s) else blk s end in
      mkHS m' (hxs s) b (if created then id + 1 else id) (log s)
  | (m', _) => set_hm s m'
  end.

Definition hstep (cfg : config) (o : hop) (s : hstate) : hstate * list out :=
  match o with
  | Start a => (start_with s a None, [])
  | Alloc h cs => (set_hm s (fst (HostMap.step (OAlloc h cs) (hm s))), [])
  | InitComplete h cert ridx t v =>
      if complete_guard h (hm s) then
        if has_self cfg cert then
          (* "Refusing to handshake with myself" *)
          (set_hm s (fst (HostMap.step (OPendDelete h) (hm s))), [])
        else
          match HostMap.step (OComplete h cert ridx) (hm s) with
          | (m', RBool true) =>
              (mkHS m' (mset h (mkHX true 0 t (Some v)) (hxs s)) (blk s) (nxt s)
                    (log s ++ [mkEv h true 0 t cert (target_of s h)]), [])
          | (m', RBool false) =>
              (* "Incorrect host responded": the pending entry is gone, the handshake is restarted with the
                 sender blocked, a close-tunnel goes to the host that answered *)
              match target_of s h with
              | Some a => (start_with (set_hm s m') a (Some (block v (blk_of s h))), [OClose ridx v])
              | None => (set_hm s m', [])
              end
          | (m', _) => (set_hm s m', [])
          end
      else (s, [])
  | RespStage1 pkt cs ridx t cert v =>
      match cert with
      | [] => (s, [])
      | a0 :: _ =>
          if has_self cfg cert then (s, [])
          else
            match gen_index cs with
            | None => (s, [])
            | Some (i, _) =>
                match check_and_complete s pkt t a0 i with
                | CSeen x =>
                    let (s1, changed) := set_remote_if_preferred cfg s x v in
                    (s1, (if changed then test_out s1 a0 else []) ++ [OStage2 x v])
                | COld _ => (s, test_out s a0)
                | CColl => (s, [])
                | CAdd =>
                    let id := nxt s in
                    (mkHS (fst (HostMap.step (OResp id cert ridx cs) (hm s)))
                          (mset id (mkHX false pkt t (Some v)) (hxs s)) (blk s) (id + 1)
                          (log s ++ [mkEv id false pkt t cert None]),
                     [OStage2 id v])
                end
            end
      end
  | DelPending h => (set_hm s (fst (HostMap.step (OPendDelete h) (hm s))), [])
  | DelMain h => (set_hm s (fst (HostMap.step (ODelete h) (hm s))), [])
  | Promote h => (set_hm s (fst (HostMap.step (OPromote h) (hm s))), [])
  | Tick a =>
      match mget a (pvpn (hm s)) with
      | Some h => (set_hm s (fst (HostMap.step (OPendDelete h) (hm s))), [])
      | None => (s, [])
      end
  end.

Fixpoint hrun (cfg : config) (s : hstate) (ops : list hop) : hstate :=
  match ops with
  | [] => s
  | o :: r => hrun cfg (fst (hstep cfg o s)) r
  end.

(* ---------- observations --------------------------------------------------------------------------- *)

(* the index maps and primaries: everything of the hostmaps except the hostinfo records *)
Definition maps_eqb (a b : HostMap.state) : bool :=
  leqb kv_eqb (hosts a) (hosts b) && leqb kl_eqb (more a) (more b) &&
  leqb kv_eqb (idx a) (idx b) && leqb kv_eqb (ridx a) (ridx b) && leqb kv_eqb (rel a) (rel b) &&
  leqb kv_eqb (pvpn a) (pvpn b) && leqb kv_eqb (pidx a) (pidx b).

Definition main_maps_eqb (a b : HostMap.state) : bool :=
  leqb kv_eqb (hosts a) (hosts b) && leqb kl_eqb (more a) (more b) &&
  leqb kv_eqb (idx a) (idx b) && leqb kv_eqb (ridx a) (ridx b) && leqb kv_eqb (rel a) (rel b).

(* hostinfos some map points to *)
Definition referenced (m : HostMap.state) : list N :=
  map snd (hosts m) ++ concat (map snd (more m)) ++ map snd (idx m) ++ map snd (ridx m) ++ map snd (rel m) ++
  map snd (pvpn m) ++ map snd (pidx m).

Definition out_eqb (a b : out) : bool :=
  match a, b with
  | OStage2 x v, OStage2 y w => (x =? y) && (v =? w)
  | OTest r u, OTest q w => (r =? q) && (u =? w)
  | OClose r u, OClose q w => (r =? q) && (u =? w)
  | _, _ => false
  end.

Definition optN_eqb (a b : option N) : bool :=
  match a, b with Some x, Some y => x =? y | None, None => true | _, _ => false end.

Definition hx_eqb (a b : hx) : bool :=
  Bool.eqb (x_init a) (x_init b) && (x_pkt0 a =? x_pkt0 b) && (x_time a =? x_time b) &&
  optN_eqb (x_remote a) (x_remote b).

(* Model of /repo/outside.go readOutsidePackets (with handleOutsideRelayPacket, handleHostRoaming, handleRecvError,
   closeTunnel) for property C14. Executable definitions only.

   What one datagram does is NOT written by hand: [read_outside] looks the effect set up in gen/Tab_Outside.v, which
   the harness regenerates on every run by handing >= 3 real datagrams per abstract row to the real function on a
   real node. Hand-written here: which rows exist ([feasible], [all_rows] - the generated table must list exactly
   these), the documented rule ([spec_ok], written from the property statement), the recursion for the payload of a
   terminal relay packet ([read_nested]) and how effect sets thread the receiver state through a history. *)
From Coq Require Import List NArith Bool.
Import ListNotations.
From NV Require Import lib.Outside_lib gen.Tab_Outside.
Open Scope N_scope.

(* ---- the generated table as a function ------------------------------------------------------------- *)

Definition read_outside (r : row) : option N := lookup r tab_outside.

(* the same lookup through one bucket per header type (what the correspondence evaluates: 16 times fewer comparisons) *)
Definition bucket (t : N) : list (row * N) := filter (fun kv => r_ty (fst kv) =? t) tab_outside.
Definition buckets : list (list (row * N)) := Eval vm_compute in map bucket (map N.of_nat (seq 0 16)).
Definition read_fast (r : row) : option N := lookup r (nth (N.to_nat (r_ty r)) buckets []).

(* ---- the feature space ---------------------------------------------------------------------------------- *)

Definition is_hs (r : row) : bool := r_ty r =? t_handshake.
Definition is_re (r : row) : bool := r_ty r =? t_recv_error.
Definition is_relay_pkt (r : row) : bool := (r_ty r =? t_message) && (r_st r =? st_relay).

Definition rel_na (x : relrec) : bool := match x with RNA => true | _ => false end.
Definition rm_na (x : rmatch) : bool := match x with MNA => true | _ => false end.

(* feature combinations that describe a datagram: handshake and recv_error packets are not encrypted (no tunnel key,
   no window); without a resolved tunnel there is no key and no window; a packet shorter than header + tag cannot
   verify; a relay record is named exactly by a Message/Relay packet whose index resolves; the source is compared
   with a tunnel's remote exactly for a recv_error whose index resolves *)
Definition feasible (r : row) : bool :=
  (r_ty r <? 16) && (r_st r <? 3) &&
  implb (is_hs r) (negb (r_idx r) && negb (r_auth r) && negb (r_fresh r)) &&
  implb (is_re r) (negb (r_auth r) && negb (r_fresh r)) &&
  implb (negb (r_idx r)) (negb (r_auth r) && negb (r_fresh r)) &&
  implb (negb (r_full r)) (negb (r_auth r)) &&
  Bool.eqb (negb (rel_na (r_rel r))) (is_relay_pkt r && r_idx r) &&
  Bool.eqb (negb (rm_na (r_rm r))) (is_re r && r_idx r).

Definition bools : list bool := [false; true].
Definition vias : list via := [VDirect; VVpn; VRelayed].
Definition rels : list relrec := [RNA; RTerm; RFwdEst; RFwdDown].
Definition rms : list rmatch := [MNA; MMatch; MDiffer; MInvalid].
Definition tys : list N := map N.of_nat (seq 0 16).
Definition sts : list N := [0; 1; 2].

Definition candidates : list row :=
  flat_map (fun ty => flat_map (fun st => flat_map (fun ver => flat_map (fun v => flat_map (fun cs => flat_map (fun ca =>
  flat_map (fun idx => flat_map (fun full => flat_map (fun auth => flat_map (fun fresh => flat_map (fun rel => flat_map (fun rm =>
    [mkRow ty st ver v cs ca idx full auth fresh rel rm]) rms) rels) bools) bools) bools) bools) bools) bools) vias) bools) sts) tys.

Definition all_rows : list row := filter feasible candidates.

(* ---- the documented rule (written from the property statement, independent of the table) ---------------- *)

(* the packet was produced by the tunnel's peer and not seen before *)
Definition authfresh (r : row) : bool := r_ver r && r_idx r && r_full r && r_auth r && r_fresh r.

(* effects that change nothing at the receiver: answering with a recv_error *)
Definition m_recverr : N := bit e_recverr.
(* what processing a handshake packet may do here (what it does to the hostmap is C05-C10) *)
Definition m_hs : N := mask_of [e_hs; e_live].
Definition m_close : N := bit e_close.

(* F12: an unauthenticated recv_error tears the tunnel down when listen.accept_recv_error permits the source
   (default: always), the index is the peer's index of a tunnel, and the source is that tunnel's current remote -
   or the tunnel has no direct remote at all *)
Definition f12_region (r : row) : bool :=
  is_re r && r_cfgA r && r_idx r && match r_rm r with MMatch | MInvalid => true | _ => false end.

(* C14 as a predicate on what one datagram did. "Nothing is delivered, no tunnel is closed, no roaming or liveness
   update happens, no lighthouse or relay state changes" unless the packet is authentic and fresh; "only an
   authenticated close message tears a tunnel down". Handshake-typed packets are the handshake manager's business
   (C05-C10) and outside this rule. *)
Definition spec_ok (r : row) (m : N) : bool :=
  is_hs r ||
  (negb (has e_other m) &&
   (subset m m_recverr || authfresh r) &&
   implb (has e_close m) ((r_ty r =? t_close_tunnel) && authfresh r)).

(* the same with the recv_error region carved out (what holds of the code as it is) *)
Definition spec_ok_f12 (r : row) (m : N) : bool :=
  is_hs r ||
  (negb (has e_other m) &&
   (subset m m_recverr || authfresh r || (f12_region r && subset m m_close)) &&
   implb (has e_close m) ((r_ty r =? t_close_tunnel) && authfresh r || f12_region r)).

(* ---- a relay packet and its payload ------------------------------------------------------------------------ *)

Definition clear (e m : N) : N := N.ldiff m (bit e).

(* handleOutsideRelayPacket on a terminal record calls readOutsidePackets again on the payload, marked as relayed *)
Definition as_relayed (r : row) : row :=
  mkRow (r_ty r) (r_st r) (r_ver r) VRelayed (r_cfgS r) (r_cfgA r) (r_idx r) (r_full r) (r_auth r) (r_fresh r) (r_rel r) (r_rm r).

Definition read_nested (outer : row) (inner : option row) : option N :=
  match read_fast outer with
  | None => None
  | Some m =>
    if has e_unwrap m then
      match inner with
      | None => Some m
      | Some i => match read_fast (as_relayed i) with
                  | None => None
                  | Some mi => Some (N.lor (clear e_unwrap m) mi)
                  end
      end
    else Some m
  end.

(* ---- histories ---------------------------------------------------------------------------------------------- *)

(* effects that leave the receiver as it was *)
Definition acts (m : N) : bool := negb (subset m m_recverr).

(* set the freshness of a row (where a window exists: an encrypted type whose index resolves) *)
Definition windowed (r : row) : bool := r_idx r && negb (is_hs r) && negb (is_re r).
Definition with_fresh (r : row) (b : bool) : row :=
  mkRow (r_ty r) (r_st r) (r_ver r) (r_via r) (r_cfgS r) (r_cfgA r) (r_idx r) (r_full r) (r_auth r) (windowed r && b) (r_rel r) (r_rm r).

Section History.
  (* the replay window is whatever C11 says it is: here any type with a check and an update *)
  Variable W : Type.
  Variable wcheck : W -> N -> bool.
  Variable wupdate : W -> N -> W.

  (* a datagram of a history: its features other than freshness, the window it is checked against, its counter and
     an identifier of everything else about it (payload, addresses) *)
  Record pkt := mkPkt { p_row : row; p_win : N; p_ctr : N; p_id : N }.

  (* the receiver: one window per tunnel, and the sequence of datagrams that did something, with what they did.
     Everything C14 observes (hostmap, remotes, tun output, lighthouse cache, relay state) is a function of the
     initial state and this sequence. *)
  Record state := mkState { s_win : N -> W; s_log : list (pkt * N) }.

  Definition row_at (s : state) (p : pkt) : row := with_fresh (p_row p) (wcheck (s_win s (p_win p)) (p_ctr p)).

  Definition step (s : state) (p : pkt) : state :=
    match read_outside (row_at s p) with
    | None => s
    | Some m =>
        mkState (if has e_win m then (fun t => if t =? p_win p then wupdate (s_win s t) (p_ctr p) else s_win s t) else s_win s)
                (if acts m then s_log s ++ [(p, m)] else s_log s)
    end.

  Definition run (s : state) (h : list pkt) : state := fold_left step h s.

  (* did the datagram do anything to a receiver in state s? *)
  Definition acted_at (s : state) (p : pkt) : bool :=
    match read_outside (row_at s p) with None => false | Some m => acts m end.

  (* the sub-history of the datagrams that did something *)
  Fixpoint acted (s : state) (h : list pkt) : list pkt :=
    match h with
    | [] => []
    | p :: r => if acted_at s p then p :: acted (step s p) r else acted (step s p) r
    end.

  (* the states the datagrams of a history meet *)
  Fixpoint met (s : state) (h : list pkt) : list (state * pkt) :=
    match h with
    | [] => []
    | p :: r => (s, p) :: met (step s p) r
    end.
End History.

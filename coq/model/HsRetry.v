(* Model of the retry side of /repo/handshake_manager.go for property C32: the pending handshakes by overlay
   address (HandshakeHostInfo: counter, ready, lastRemotes, packetStore), the outbound handshake timer wheel
   (model/Wheel.v: the LockingTimerWheel of C33), StartHandshake, cachePacket, handleOutbound (timer driven and
   lighthouse triggered), NextOutboundHandshakeTimerTick, and the two ways continueHandshake leaves a pending
   handshake: completion (the queue is replayed through sendMessageNow, which re-checks the outbound firewall)
   and the wrong-responder restart (the queue moves to the new attempt).  Executable definitions only.

   Abstractions (named in vlib/props/C32.py): Noise, certificates and the hostmaps are the subject of C05-C10,
   C28 - here a handshake "completes" or "is answered by a wrong host" as an operation; the remote list of a
   pending handshake is the list RemoteList.CopyAddrs returns (C37), given by the operations that change it;
   building stage 0 always succeeds (a certificate is available, the index space is not exhausted); the outbound
   firewall is an oracle on the queued packet (C16 is the firewall).  Time: Z nanoseconds, as in model/Wheel.v. *)
From Coq Require Import List ZArith NArith Bool.
Import ListNotations.
From NV Require Import gen.Consts_HsMgr model.Wheel.
Open Scope Z_scope.

(* HandshakeConfig: tryInterval, retries; the outbound firewall oracle: udp destination ports it lets out *)
Record rcfg := mkRC { r_interval : Z; r_retries : Z; r_ports : list N }.

(* hsTimeout(tries, interval) = tries / 2 * ((2 * interval) + (tries-1)*interval), Go integer arithmetic *)
Definition hs_timeout (tries interval : Z) : Z := Z.quot tries 2 * (2 * interval + (tries - 1) * interval).

(* a queued inside packet: its tag (payload) and udp destination port *)
Record pkt := mkPkt { k_tag : N; k_port : N }.

Definition fw_allows (cfg : rcfg) (p : pkt) : bool := existsb (N.eqb (k_port p)) (r_ports cfg).

Record pent := mkPE {
  p_id : N;               (* the pending hostinfo *)
  p_counter : Z;          (* HandshakeHostInfo.counter *)
  p_ready : bool;         (* stage 0 built, index registered in HandshakeManager.indexes *)
  p_store : list pkt;     (* packetStore *)
  p_last : list N;        (* lastRemotes *)
  p_remotes : list N      (* hostinfo.remotes.CopyAddrs(): underlay addresses, in the order stage 0 is sent *)
}.

Definition amap (V : Type) := list (N * V).

Fixpoint mget {V} (k : N) (m : amap V) : option V :=
  match m with
  | [] => None
  | (k', v) :: r => if N.eqb k k' then Some v else mget k r
  end.

Fixpoint mset {V} (k : N) (v : V) (m : amap V) : amap V :=
  match m with
  | [] => [(k, v)]
  | (k', v') :: r =>
      if N.ltb k k' then (k, v) :: (k', v') :: r
      else if N.eqb k k' then (k, v) :: r
      else (k', v') :: mset k v r
  end.

Definition mdel {V} (k : N) (m : amap V) : amap V := filter (fun e => negb (N.eqb (fst e) k)) m.

(* a timer entry: the overlay address handed to Timer.Add and - ghost, never read by an operation - the serial
   number of that Add, which tells apart several entries for one address *)
Notation titem := (N * N)%type (only parsing).

Record rstate := mkRS {
  wh : wheel titem;        (* OutboundHandshakeTimer *)
  pend : amap pent;        (* HandshakeManager.vpnIps *)
  ridx : list N;           (* hostinfos registered in HandshakeManager.indexes *)
  rnxt : N;                (* the id the next pending hostinfo gets *)
  rser : N;                (* ghost: number of Timer.Add calls so far *)
  tr : list (Wheel.op titem)   (* ghost: every operation performed on the wheel so far *)
}.

Definition rinit (cfg : rcfg) : rstate :=
  mkRS (init (r_interval cfg) (hs_timeout (r_retries cfg) (r_interval cfg))) [] [] 1 0 [].

Inductive rop :=
| RStart (a : N) (remotes : list N)   (* StartHandshake(a); the lighthouse cache holds these underlay addresses *)
| RCache (a : N) (p : pkt)            (* an inside packet for a, no tunnel: GetOrHandshake + cachePacket *)
| RSetRemotes (a : N) (l : list N)    (* the lighthouse learned new underlay addresses for a *)
| RTrigger (a : N)                    (* handleOutbound(a, true): the trigger channel *)
| RTick (now : Z)                     (* NextOutboundHandshakeTimerTick(now) *)
| RComplete (a : N)                   (* stage 2 from the right host: the handshake completes *)
| RWrong (a : N) (v : N)              (* stage 2 from a wrong host at underlay v: restart *)
(* the same with the tun reader interleaved: while continueHandshake is between the receipt of the stage 2 and
   Complete / the restart (it holds the HandshakeHostInfo lock, not the manager's), an inside packet for a goes
   through GetOrHandshake + cachePacket *)
| RCompleteQ (a : N) (p : pkt)
| RWrongQ (a : N) (v : N) (p : pkt)
(* a stage 1 FROM a (beginHandshake, this node is responder) with an inside packet for a queued between its
   receipt and CheckAndComplete: the pending initiator handshake for a - created by that packet if there was
   none - keeps it *)
| RRespQ (a : N) (p : pkt).

Inductive rout :=
| RSend (h : N) (u : N)               (* the stage-0 message of pending hostinfo h sent to underlay address u *)
| RData (tag : N).                    (* a queued packet sent over the new tunnel *)

Definition nl_eqb (l1 l2 : list N) : bool :=
  (fix go l1 l2 := match l1, l2 with
                   | [], [] => true
                   | x :: r1, y :: r2 => N.eqb x y && go r1 r2
                   | _, _ => false
                   end) l1 l2.

Definition remove_id (h : N) (l : list N) : list N := filter (fun x => negb (N.eqb x h)) l.

Definition set_wh (s : rstate) (w : wheel titem) (o : Wheel.op titem) : rstate :=
  mkRS w (pend s) (ridx s) (rnxt s) (rser s) (tr s ++ [o]).

(* Timer.Add(a, T) *)
Definition arm (a : N) (T : Z) (s : rstate) : rstate :=
  mkRS (add (a, rser s) T (wh s)) (pend s) (ridx s) (rnxt s) (N.succ (rser s)) (tr s ++ [OAdd (a, rser s) T]).

(* StartHandshake(a) when no handshake is pending for a: a fresh hostinfo, armed with tryInterval *)
Definition fresh (cfg : rcfg) (a : N) (remotes : list N) (store : list pkt) (s : rstate) : rstate :=
  let e := mkPE (rnxt s) 0 false store [] remotes in
  arm a (r_interval cfg) (mkRS (wh s) (mset a e (pend s)) (ridx s) (N.succ (rnxt s)) (rser s) (tr s)).

(* HandshakeManager.DeleteHostInfo for the pending entry e of a *)
Definition drop (a : N) (e : pent) (s : rstate) : rstate :=
  mkRS (wh s) (mdel a (pend s)) (remove_id (p_id e) (ridx s)) (rnxt s) (rser s) (tr s).

(* cachePacket *)
Definition cache (e : pent) (p : pkt) : pent :=
  if (N.of_nat (length (p_store e)) <? maxCachedPackets)%N
  then mkPE (p_id e) (p_counter e) (p_ready e) (p_store e ++ [p]) (p_last e) (p_remotes e)
  else e.

(* handleOutbound(a, lh) *)
Definition handle (cfg : rcfg) (a : N) (lh : bool) (s : rstate) : rstate * list rout :=
  match mget a (pend s) with
  | None => (s, [])
  | Some e =>
      if r_retries cfg <=? p_counter e then (drop a e s, [])         (* "Handshake timed out" *)
      else
        let c := p_counter e + 1 in
        let idx' := if p_ready e then ridx s else ridx s ++ [p_id e] in   (* buildStage0Packet -> allocateIndex *)
        let changed := negb (nl_eqb (p_remotes e) (p_last e)) in
        if lh && negb changed then
          (mkRS (wh s) (mset a (mkPE (p_id e) c true (p_store e) (p_last e) (p_remotes e)) (pend s)) idx' (rnxt s) (rser s) (tr s), [])
        else
          let e' := mkPE (p_id e) c true (p_store e) (p_remotes e) (p_remotes e) in
          let s1 := mkRS (wh s) (mset a e' (pend s)) idx' (rnxt s) (rser s) (tr s) in
          ((if lh then s1 else arm a (r_interval cfg * c) s1), map (RSend (p_id e)) (p_remotes e))
  end.

(* the Purge loop of NextOutboundHandshakeTimerTick: fuel = number of expired items (handleOutbound never adds to
   the expired list) *)
Fixpoint drain (cfg : rcfg) (fuel : nat) (s : rstate) : rstate * list rout :=
  match fuel with
  | O => (s, [])
  | S f =>
      match purge (wh s) with
      | (None, _) => (s, [])
      | (Some (a, _), w') =>
          let (s2, o) := handle cfg a false (set_wh s w' OPurge) in
          let (s3, o') := drain cfg f s2 in
          (s3, o ++ o')
      end
  end.

Definition tick (cfg : rcfg) (now : Z) (s : rstate) : rstate * list rout :=
  let s1 := set_wh s (advance now (wh s)) (OAdvance now) in
  drain cfg (length (w_exp (wh s1))) s1.

(* GetOrHandshake + cachePacket for an address without tunnel *)
Definition cache_op (cfg : rcfg) (a : N) (p : pkt) (s : rstate) : rstate :=
  match mget a (pend s) with
  | Some e => mkRS (wh s) (mset a (cache e p) (pend s)) (ridx s) (rnxt s) (rser s) (tr s)
  | None =>
      let s1 := fresh cfg a [] [] s in
      match mget a (pend s1) with
      | Some e => mkRS (wh s1) (mset a (cache e p) (pend s1)) (ridx s1) (rnxt s1) (rser s1) (tr s1)
      | None => s1
      end
  end.

(* continueHandshake, right host: Complete, then every queued packet through sendMessageNow *)
Definition complete_op (cfg : rcfg) (a : N) (s : rstate) : rstate * list rout :=
  match mget a (pend s) with
  | Some e =>
      if p_ready e then (drop a e s, map (fun p => RData (k_tag p)) (filter (fw_allows cfg) (p_store e)))
      else (s, [])
  | None => (s, [])
  end.

(* continueHandshake, wrong host: restart *)
Definition wrong_op (cfg : rcfg) (a v : N) (s : rstate) : rstate * list rout :=
  match mget a (pend s) with
  | Some e =>
      if p_ready e then
        (fresh cfg a (filter (fun u => negb (N.eqb u v)) (p_remotes e)) (p_store e) (drop a e s), [])
      else (s, [])
  | None => (s, [])
  end.

(* a stage 2 is only processed for a pending handshake that built its stage 0 *)
Definition answerable (a : N) (s : rstate) : bool :=
  match mget a (pend s) with Some e => p_ready e | None => false end.

Definition rstep (cfg : rcfg) (o : rop) (s : rstate) : rstate * list rout :=
  match o with
  | RStart a remotes =>
      match mget a (pend s) with
      | Some _ => (s, [])
      | None => (fresh cfg a remotes [] s, [])
      end
  | RCache a p => (cache_op cfg a p s, [])
  | RSetRemotes a l =>
      match mget a (pend s) with
      | Some e => (mkRS (wh s) (mset a (mkPE (p_id e) (p_counter e) (p_ready e) (p_store e) (p_last e) l) (pend s))
                        (ridx s) (rnxt s) (rser s) (tr s), [])
      | None => (s, [])
      end
  | RTrigger a => handle cfg a true s
  | RTick now => tick cfg now s
  | RComplete a => complete_op cfg a s
  | RWrong a v => wrong_op cfg a v s
  | RCompleteQ a p => if answerable a s then complete_op cfg a (cache_op cfg a p s) else (s, [])
  | RWrongQ a v p => if answerable a s then wrong_op cfg a v (cache_op cfg a p s) else (s, [])
  | RRespQ a p => (cache_op cfg a p s, [])
  end.

Fixpoint rrun (cfg : rcfg) (s : rstate) (ops : list rop) : rstate :=
  match ops with
  | [] => s
  | o :: r => rrun cfg (fst (rstep cfg o s)) r
  end.

(* all packets sent over a history, in order *)
Fixpoint routs (cfg : rcfg) (s : rstate) (ops : list rop) : list rout :=
  match ops with
  | [] => []
  | o :: r => snd (rstep cfg o s) ++ routs cfg (fst (rstep cfg o s)) r
  end.

(* ---------- comparison with the implementation's dump ------------------------------------------------- *)

Definition pkt_eqb (a b : pkt) : bool := N.eqb (k_tag a) (k_tag b) && N.eqb (k_port a) (k_port b).

Fixpoint leqb {A} (e : A -> A -> bool) (l1 l2 : list A) : bool :=
  match l1, l2 with
  | [], [] => true
  | a :: r1, b :: r2 => e a b && leqb e r1 r2
  | _, _ => false
  end.

(* what the shim reports of a pending handshake: hostinfo id, counter, ready, queue; lastRemotes and the remote
   list are inputs of the model (reported by the operations), not compared *)
Definition pent_eqb (a b : pent) : bool :=
  N.eqb (p_id a) (p_id b) && Z.eqb (p_counter a) (p_counter b) && Bool.eqb (p_ready a) (p_ready b) &&
  leqb pkt_eqb (p_store a) (p_store b).

Definition pend_eqb (a b : amap pent) : bool :=
  leqb (fun x y => N.eqb (fst x) (fst y) && pent_eqb (snd x) (snd y)) a b.

Definition rout_eqb (a b : rout) : bool :=
  match a, b with
  | RSend h u, RSend k w => N.eqb h k && N.eqb u w
  | RData t, RData u => N.eqb t u
  | _, _ => false
  end.

(* Model of /repo/cert at the level of certificate fields:
     ca_pool.go   CAPool (CAs map, certBlocklist), AddCA, verify, VerifyCertificate, VerifyCachedCertificate,
                  GetCAForCert, checkCAConstraints
     cert_v1.go / cert_v2.go   Expired, validate (as applied by fromTBSCertificate)
     sign.go      TBSCertificate.Sign / SignWith
     p256/p256.go checkLowS, swap, Normalize, Swap
   Executable definitions only (no proofs).  What is NOT modelled and comes in as data: SHA-256 (the
   fingerprints c_fp / c_fp2 are fields filled in by the harness with the real values) and the signature
   primitive (the verdict of CheckSignature is the oracle argument [sig]).

   Strings (names, groups, fingerprints = lower-case hex strings, blocklist entries) are lists of bytes.
   Times are instants in nanoseconds since the Unix epoch (Z): time.Time.After/Before compare instants at
   nanosecond precision, and certificates built in memory by Sign keep the sub-second part. *)
From Coq Require Import List NArith ZArith Bool.
Import ListNotations.
From NV Require Import lib.Corr.
Open Scope N_scope.

Definition str := list N.
Definition str_eqb (a b : str) : bool := nlist_eqb a b.
Definition is_empty {A} (l : list A) : bool := match l with [] => true | _ => false end.

(* ---- netip.Prefix ------------------------------------------------------------------------------- *)

(* p_fam = 4 | 6 (the address BitLen: a 4-in-6 address is family 6, as in netip); p_ok = Prefix.IsValid()
   (PrefixFrom strips zones, so a Prefix never carries one); for an invalid prefix Bits() is -1, which the
   model expresses through p_ok = false. *)
Record pfx := mkPfx { p_fam : N; p_addr : N; p_bits : N; p_ok : bool }.

Definition fam_len (f : N) : N := if f =? 4 then 32 else 128.

(* Prefix.Contains(addr): valid prefix, same bit length, and the top Bits() bits agree
   (v4: uint32((a^p) >> (32-bits)) == 0;  v6: (a^p) & mask6(bits) == 0). The prefix is NOT masked first. *)
Definition contains (m : pfx) (afam a : N) : bool :=
  p_ok m && (p_fam m =? afam) && (N.shiftr (N.lxor a (p_addr m)) (fam_len (p_fam m) - p_bits m) =? 0).

(* signing.Contains(sub.Addr()) && signing.Bits() <= sub.Bits() *)
Definition covers (m n : pfx) : bool :=
  contains m (p_fam n) (p_addr n) && p_ok n && (p_bits m <=? p_bits n).

Definition pfx_eqb (a b : pfx) : bool :=
  (p_fam a =? p_fam b) && (p_addr a =? p_addr b) && (p_bits a =? p_bits b) && Bool.eqb (p_ok a) (p_ok b).

(* ---- certificates ------------------------------------------------------------------------------- *)

Record cert := mkCert {
  c_version : N;            (* 1 | 2 *)
  c_curve : N;              (* 0 = Curve25519, 1 = P256 *)
  c_name : str;
  c_networks : list pfx;
  c_unsafe : list pfx;
  c_groups : list str;
  c_isCA : bool;
  c_nb : Z; c_na : Z;       (* NotBefore / NotAfter, ns *)
  c_issuer : str;           (* hex fingerprint of the signer, [] = none *)
  c_pub : list N;           (* public key bytes *)
  c_fp : str;               (* Fingerprint() *)
  c_fp2 : str               (* CalculateAlternateFingerprint(): [] unless P256 *)
}.

(* Expired(t) = notBefore.After(t) || notAfter.Before(t) *)
Definition expired (c : cert) (t : Z) : bool := (t <? c_nb c)%Z || (c_na c <? t)%Z.

Definition pool := list (str * cert).      (* CAPool.CAs : fingerprint -> CA (first match = map lookup) *)
Definition blocklist := list str.           (* CAPool.certBlocklist *)

Fixpoint lookup (k : str) (P : pool) : option cert :=
  match P with
  | [] => None
  | (k', v) :: r => if str_eqb k k' then Some v else lookup k r
  end.

Definition blocked (bl : blocklist) (f : str) : bool := existsb (str_eqb f) bl.

Inductive verr :=
| EBlocked | ENoIssuer | ECaNotFound | ECurveMismatch | ERootExpired | EExpired | EFpMismatch | ESignature
| ECNotAfter | ECNotBefore | ECGroup | ECNetwork | ECUnsafe.

Inductive res (A : Type) := Ok (a : A) | Err (e : verr).
Arguments Ok {A} a. Arguments Err {A} e.

Definition is_ok {A} (r : res A) : bool := match r with Ok _ => true | Err _ => false end.

(* checkCAConstraints(signer, notBefore, notAfter, groups, networks, unsafeNetworks), in the code's order *)
Definition check_ca_constraints (ca : cert) (nb na : Z) (groups : list str) (nets unsafe : list pfx) : option verr :=
  if (c_na ca <? na)%Z then Some ECNotAfter else
  if (nb <? c_nb ca)%Z then Some ECNotBefore else
  if negb (is_empty (c_groups ca)) && negb (forallb (fun g => existsb (str_eqb g) (c_groups ca)) groups) then Some ECGroup else
  if negb (is_empty (c_networks ca)) && negb (forallb (fun n => existsb (fun m => covers m n) (c_networks ca)) nets) then Some ECNetwork else
  if negb (is_empty (c_unsafe ca)) && negb (forallb (fun n => existsb (fun m => covers m n) (c_unsafe ca)) unsafe) then Some ECUnsafe else
  None.

Definition check_ca_constraints_cert (ca c : cert) : option verr :=
  check_ca_constraints ca (c_nb c) (c_na c) (c_groups c) (c_networks c) (c_unsafe c).

(* CAPool.verify(c, now, certFp, signerFp). [sig ca] is the verdict of c.CheckSignature(ca.PublicKey()).
   signerFp = [] is the full path; a non-empty signerFp is the cached path, which stops after the expiry
   checks and only compares the remembered signer fingerprint. *)
Definition verify_core (P : pool) (bl : blocklist) (t : Z) (c : cert) (certfp signerfp : str) (sig : cert -> bool) : res cert :=
  if blocked bl certfp then Err EBlocked else
  if is_empty (c_issuer c) then Err ENoIssuer else
  match lookup (c_issuer c) P with
  | None => Err ECaNotFound
  | Some ca =>
    if negb (c_curve ca =? c_curve c) then Err ECurveMismatch else
    if expired ca t then Err ERootExpired else
    if expired c t then Err EExpired else
    if negb (is_empty signerfp) then
      (if str_eqb signerfp (c_fp ca) then Ok ca else Err EFpMismatch)
    else
    if negb (sig ca) then Err ESignature else
    match check_ca_constraints_cert ca c with
    | Some e => Err e
    | None => Ok ca
    end
  end.

(* CachedCertificate: Certificate, Fingerprint, fingerprint2, signerFingerprint *)
Record cached := mkCached { cc_cert : cert; cc_fp : str; cc_fp2 : str; cc_signer : str }.

(* VerifyCertificate(now, c) *)
Definition verify_g (P : pool) (bl : blocklist) (t : Z) (c : cert) (sig : cert -> bool) : res cached :=
  match verify_core P bl t c (c_fp c) [] sig with
  | Err e => Err e
  | Ok ca =>
    if negb (is_empty (c_fp2 c)) && blocked bl (c_fp2 c) then Err EBlocked
    else Ok (mkCached c (c_fp c) (c_fp2 c) (c_fp ca))
  end.

(* the per-case form: one looked-up signer, one signature verdict *)
Definition verify (P : pool) (bl : blocklist) (t : Z) (c : cert) (sigok : bool) : res cached :=
  verify_g P bl t c (fun _ => sigok).

(* VerifyCachedCertificate(now, cc) *)
Definition verify_cached_g (P : pool) (bl : blocklist) (t : Z) (cc : cached) (sig : cert -> bool) : res cert :=
  if negb (is_empty (cc_fp2 cc)) && blocked bl (cc_fp2 cc) then Err EBlocked
  else verify_core P bl t (cc_cert cc) (cc_fp cc) (cc_signer cc) sig.

(* (the signature verdict only matters for a cached record whose signer fingerprint is empty, which
   VerifyCertificate never produces from a pool filled by AddCA; the code would then run the full path) *)
Definition verify_cached (P : pool) (bl : blocklist) (t : Z) (cc : cached) (sigok : bool) : res cert :=
  verify_cached_g P bl t cc (fun _ => sigok).

(* A CAPool keeps no verification history (CAs and certBlocklist are its whole state and verification does not
   write them): a sequence of verifications on one pool object is the verification of each element. *)
Record vstep := mkStep { s_time : Z; s_cert : cert; s_sig : cert -> bool }.
Definition verify_seq (P : pool) (bl : blocklist) (steps : list vstep) : list bool :=
  map (fun s => is_ok (verify_g P bl (s_time s) (s_cert s) (s_sig s))) steps.

(* ---- the documented trust rule, written from the property text ----------------------------------- *)

Definition valid_at (c : cert) (t : Z) : bool := (c_nb c <=? t)%Z && (t <=? c_na c)%Z.
Definition subset_groups (ca c : cert) : bool :=
  is_empty (c_groups ca) || forallb (fun g => existsb (str_eqb g) (c_groups ca)) (c_groups c).
Definition inside_nets (cas cs : list pfx) : bool :=
  is_empty cas || forallb (fun n => existsb (fun m => covers m n) cas) cs.
Definition inside_window (ca c : cert) : bool := (c_nb ca <=? c_nb c)%Z && (c_na c <=? c_na ca)%Z.

Definition accept_spec_g (P : pool) (bl : blocklist) (t : Z) (c : cert) (sig : cert -> bool) : bool :=
  negb (blocked bl (c_fp c)) &&                                   (* neither signature form is blocklisted *)
  negb (negb (is_empty (c_fp2 c)) && blocked bl (c_fp2 c)) &&
  negb (is_empty (c_issuer c)) &&                                 (* it has an issuer ... *)
  match lookup (c_issuer c) P with                                (* ... which is a trusted CA *)
  | None => false
  | Some ca =>
      (c_curve ca =? c_curve c) &&                                (* with the same curve *)
      valid_at ca t && valid_at c t &&                            (* CA and certificate valid at t *)
      sig ca &&                                                   (* signature verifies under the CA key *)
      inside_window ca c && subset_groups ca c &&                 (* inside the CA's window, groups, *)
      inside_nets (c_networks ca) (c_networks c) &&               (* networks *)
      inside_nets (c_unsafe ca) (c_unsafe c)                      (* and unsafe networks *)
  end.

Definition accept_spec (P : pool) (bl : blocklist) (t : Z) (c : cert) (sigok : bool) : bool :=
  accept_spec_g P bl t c (fun _ => sigok).

(* ---- AddCA --------------------------------------------------------------------------------------- *)

Inductive aerr := ANotCA | ANotSelfSigned.

Fixpoint remove_key (k : str) (P : pool) : pool :=
  match P with
  | [] => []
  | (k', v) :: r => if str_eqb k k' then remove_key k r else (k', v) :: remove_key k r
  end.

(* AddCA(c): refuses a non-CA and a certificate that is not self-signed; otherwise stores it under its own
   fingerprint (CAs[sum] = cc replaces an existing entry). An expired CA IS stored (ErrExpired is returned
   together with the insertion); the second component reports that. *)
Definition add_ca (c : cert) (selfsig : bool) (now : Z) (P : pool) : (pool * bool) + aerr :=
  if negb (c_isCA c) then inr ANotCA else
  if negb selfsig then inr ANotSelfSigned else
  inl ((c_fp c, c) :: remove_key (c_fp c) P, expired c now).

(* ---- issuance (sign.go) -------------------------------------------------------------------------- *)

Record tbs := mkTbs {
  t_version : N; t_name : str; t_networks : list pfx; t_unsafe : list pfx; t_groups : list str;
  t_isCA : bool; t_nb : Z; t_na : Z; t_pub : list N; t_curve : N }.

Definition is_unspecified (p : pfx) : bool := p_addr p =? 0.
Definition is6 (p : pfx) : bool := negb (p_fam p =? 4).
Definition is4 (p : pfx) : bool := p_fam p =? 4.
(* Addr.Is4In6: a 16-byte address ::ffff:a.b.c.d *)
Definition is4in6 (p : pfx) : bool := is6 p && (N.shiftr (p_addr p) 32 =? 65535).

Fixpoint has_dup (l : list pfx) : bool :=
  match l with
  | [] => false
  | a :: r => existsb (fun b => (p_fam a =? p_fam b) && (p_addr a =? p_addr b) && (p_bits a =? p_bits b)) r || has_dup r
  end.

(* certificateV1.validate as reached from fromTBSCertificate *)
Definition validate_v1 (t : tbs) : bool :=
  negb (is_empty (t_pub t)) &&
  negb (negb (t_isCA t) && is_empty (t_networks t)) &&
  forallb (fun n => p_ok n && negb (is6 n) && negb (is_unspecified n)) (t_networks t) &&
  forallb (fun n => p_ok n && negb (is6 n)) (t_unsafe t).

(* certificateV2.validate (with the name / group rules of the wire format, MaxNameLength = 253, pinned to the
   generated constant in props/C04.v): the sort-then-compare-neighbours duplicate test is modelled as "some two entries
   have the same address and length" (comparePrefix is a total order whose equivalence is exactly that). *)
Definition validate_v2 (t : tbs) : bool :=
  negb (is_empty (t_name t)) && (N.of_nat (length (t_name t)) <=? 253) &&      (* 1..MaxNameLength bytes *)
  forallb (fun g => negb (is_empty g)) (t_groups t) &&                          (* no empty group *)
  negb (is_empty (t_pub t)) &&
  negb (negb (t_isCA t) && is_empty (t_networks t)) &&
  forallb (fun n => p_ok n && negb (is_unspecified n) && negb (is4in6 n)) (t_networks t) &&
  negb (has_dup (t_networks t)) &&
  forallb (fun n => p_ok n &&
                    (t_isCA t || (if is6 n then existsb is6 (t_networks t) else existsb is4 (t_networks t))))
          (t_unsafe t) &&
  negb (has_dup (t_unsafe t)).

Inductive serr := SKeyCurve | SCaWithSigner | SConstraint (e : verr) | SSelfNotCA | SVersion | SValidate | SBadCurve.
Inductive sres := SOk (c : cert) | SErr (e : serr).

(* TBSCertificate.SignWith(signer, curve, sp): [kcurve] is the curve of the private key / signing lambda;
   [fp], [fp2] are the fingerprints the resulting certificate turns out to have (SHA-256 is not modelled).
   Note what is compared with what: the KEY's curve with the TBS curve. The signer certificate's own curve is
   not looked at. v2 sorts networks and unsafe networks in place; the order is not observable by any check
   below and the model leaves it as given. *)
Definition sign_with (signer : option cert) (kcurve : N) (t : tbs) (fp fp2 : str) : sres :=
  if negb (kcurve =? t_curve t) then SErr SKeyCurve else
  let issuer :=
    match signer with
    | Some ca =>
        if t_isCA t then inr SCaWithSigner else
        match check_ca_constraints ca (t_nb t) (t_na t) (t_groups t) (t_networks t) (t_unsafe t) with
        | Some e => inr (SConstraint e)
        | None => inl (c_fp ca)
        end
    | None => if negb (t_isCA t) then inr SSelfNotCA else inl []
    end in
  match issuer with
  | inr e => SErr e
  | inl iss =>
      let c := mkCert (t_version t) (t_curve t) (t_name t) (t_networks t) (t_unsafe t) (t_groups t) (t_isCA t)
                      (t_nb t) (t_na t) iss (t_pub t) fp fp2 in
      if t_version t =? 1 then (if validate_v1 t then SOk c else SErr SValidate)
      else if t_version t =? 2 then (if validate_v2 t then SOk c else SErr SValidate)
      else SErr SVersion
  end.

(* The TBSCertificate OBJECT also carries the unexported field [issuer], which is what fromTBSCertificate copies
   into the certificate. SignWith writes it (t.issuer = signer.Fingerprint()) once the signer's guards and
   constraints have passed, and clears it (t.issuer = "") when self-signing a CA request. [sign_with_st] is SignWith on an
   object whose issuer field currently holds [iss0]; it returns the new content of the field as well.
   A freshly built request has iss0 = [] ([sign_with] above). *)
Definition sign_with_st (signer : option cert) (kcurve : N) (t : tbs) (iss0 fp fp2 : str) : sres * str :=
  if negb (kcurve =? t_curve t) then (SErr SKeyCurve, iss0) else
  let issuer :=
    match signer with
    | Some ca =>
        if t_isCA t then inr SCaWithSigner else
        match check_ca_constraints ca (t_nb t) (t_na t) (t_groups t) (t_networks t) (t_unsafe t) with
        | Some e => inr (SConstraint e)
        | None => inl (c_fp ca)
        end
    | None => if negb (t_isCA t) then inr SSelfNotCA else inl []
    end in
  match issuer with
  | inr e => (SErr e, iss0)
  | inl iss =>
      let c := mkCert (t_version t) (t_curve t) (t_name t) (t_networks t) (t_unsafe t) (t_groups t) (t_isCA t)
                      (t_nb t) (t_na t) iss (t_pub t) fp fp2 in
      (if t_version t =? 1 then (if validate_v1 t then SOk c else SErr SValidate)
       else if t_version t =? 2 then (if validate_v2 t then SOk c else SErr SValidate)
       else SErr SVersion, iss)
  end.

Definition sign_st (signer : option cert) (kcurve : N) (t : tbs) (iss0 fp fp2 : str) : sres * str :=
  if (t_curve t =? 0) || (t_curve t =? 1) then sign_with_st signer kcurve t iss0 fp fp2 else (SErr SBadCurve, iss0).

(* TBSCertificate.Sign(signer, curve, key): dispatches on the TBS curve first (anything but the two known
   curves is refused; a P256 key that does not parse is outside the model), then SignWith. *)
Definition sign (signer : option cert) (kcurve : N) (t : tbs) (fp fp2 : str) : sres :=
  if (t_curve t =? 0) || (t_curve t =? 1) then sign_with signer kcurve t fp fp2 else SErr SBadCurve.

(* ---- P-256 low-S (p256.go), over the group order n and halfN = n >> 1 ---------------------------- *)

Definition is_low_s (half s : N) : bool := s <=? half.
(* swap: s -> n - s, refused by bigmod.SetBytes when s >= n *)
Definition swap_s (n s : N) : option N := if s <? n then Some (n - s) else None.
(* Normalize: unchanged if already low, else swap *)
Definition normalize_s (n half s : N) : option N := if is_low_s half s then Some s else swap_s n s.

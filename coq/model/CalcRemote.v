(* Model of /repo/calculated_remote.go (newCalculatedRemote, ApplyV4, ApplyV6, config entries) and of
   /repo/lighthouse.go addCalculatedRemotes (range lookup + same-family dispatch).
   Addresses are N (< 2^32 for IPv4, < 2^128 for IPv6). Executable definitions only. *)
From Coq Require Import List NArith ZArith Bool.
Import ListNotations.
From NV Require Import lib.Bytes.
Open Scope N_scope.

Inductive fam := V4 | V6.
Definition fam_eqb (a b : fam) : bool := match a, b with V4, V4 => true | V6, V6 => true | _, _ => false end.
Definition bitlen (f : fam) : N := match f with V4 => 32 | V6 => 128 end.      (* netip.Addr.BitLen *)

(* net.CIDRMask(ones, bits): l = bits/8 bytes
     for i := 0; i < l; i++ { if n >= 8 { m[i] = 0xff; n -= 8; continue }; m[i] = ^byte(0xff >> n); n = 0 } *)
Fixpoint cidr_mask_loop (l : nat) (n : N) : list N :=
  match l with
  | O => []
  | S l' => if 8 <=? n then 255 :: cidr_mask_loop l' (n - 8)
            else N.lxor 255 (N.shiftr 255 n) :: cidr_mask_loop l' 0
  end.

(* nil (None) unless bits is 32 or 128 and 0 <= ones <= bits *)
Definition cidr_mask (ones bits : N) : option (list N) :=
  if negb ((bits =? 32) || (bits =? 128)) then None
  else if bits <? ones then None
  else Some (cidr_mask_loop (N.to_nat (bits / 8)) ones).

(* netip.Prefix.Masked on a valid prefix: the address with the low (bitlen - bits) bits cleared *)
Definition masked (f : fam) (a len : N) : N := N.shiftl (N.shiftr a (bitlen f - len)) (bitlen f - len).

(* type calculatedRemote struct { ipNet netip.Prefix; mask netip.Prefix; port uint32 } *)
Record calc_remote := mkCR {
  cr_fam : fam;          (* family of ipNet / mask (the same address) *)
  cr_ipnet : N;          (* ipNet.Addr(): the mask address as configured *)
  cr_mask : N;           (* mask.Addr() = maskCidr.Masked().Addr() *)
  cr_bits : N;           (* mask.Bits() *)
  cr_port : N }.

(* newCalculatedRemote(cidr, maskCidr, port): [cf] is the family of cidr; [port] is a Go int *)
Definition new_calculated_remote (cf mf : fam) (maddr mlen : N) (port : Z) : option calc_remote :=
  if negb (fam_eqb mf cf) then None                       (* maskCidr.Addr().BitLen() != cidr.Addr().BitLen() *)
  else if (port <? 0)%Z || (65535 <? port)%Z then None    (* port < 0 || port > math.MaxUint16 *)
  else Some (mkCR mf maddr (masked mf maddr mlen) mlen (Z.to_N port)).

Definition not32 (x : N) : N := N.lxor x 4294967295.                (* ^x on uint32 *)
Definition not64 (x : N) : N := N.lxor x 18446744073709551615.      (* ^x on uint64 *)

(* netip.Addr.As4 / As16 followed by binary.BigEndian.Uint32 / Uint64 *)
Definition as4 (a : N) : list N := be_enc 4 a.
Definition as16 (a : N) : list N := be_enc 16 a.

(* ApplyV4(addr): None models a panic (As4 on a 16-byte address, Uint32 on a nil mask).
   [af] is the family of addr. Result: V4AddrPort{Addr, Port}. *)
Definition apply_v4 (c : calc_remote) (af : fam) (addr : N) : option (N * N) :=
  match cidr_mask (cr_bits c) (bitlen (cr_fam c)), cr_fam c, af with
  | Some maskb, V4, V4 =>
      let mask := be_dec (firstn 4 maskb) in
      let maskAddr := be_dec (as4 (cr_mask c)) in
      let intAddr := be_dec (as4 addr) in
      Some (N.lor (N.land maskAddr mask) (N.land intAddr (not32 mask)), cr_port c)
  | _, _, _ => None
  end.

(* ApplyV6(addr). Result: V6AddrPort{Hi, Lo, Port}. As16 never panics: an IPv4 address is returned
   in its IPv4-mapped form (::ffff:a.b.c.d). *)
Definition to16 (f : fam) (a : N) : N := match f with V4 => 281470681743360 + a | V6 => a end.

Definition apply_v6 (c : calc_remote) (af : fam) (addr : N) : option (N * N * N) :=
  match cidr_mask (cr_bits c) (bitlen (cr_fam c)) with
  | Some mask =>
      if (length mask <? 16)%nat then None                (* mask[8:] / Uint64 out of range on a 4-byte mask *)
      else
      let maskAddr := as16 (to16 (cr_fam c) (cr_mask c)) in
      let calcAddr := as16 (to16 af addr) in
      let hi := let maskb := be_dec (firstn 8 mask) in
                let maskAddrb := be_dec (firstn 8 maskAddr) in
                let calcAddrb := be_dec (firstn 8 calcAddr) in
                N.lor (N.land maskAddrb maskb) (N.land calcAddrb (not64 maskb)) in
      let lo := let maskb := be_dec (skipn 8 mask) in
                let maskAddrb := be_dec (skipn 8 maskAddr) in
                let calcAddrb := be_dec (skipn 8 calcAddr) in
                N.lor (N.land maskAddrb maskb) (N.land calcAddrb (not64 maskb)) in
      Some (hi, lo, cr_port c)
  | None => None
  end.

(* ---- configuration: lighthouse.calculated_remotes ----
   one entry per overlay range: (family, address, prefix length) -> list of (mask family, mask address,
   mask prefix length, port) *)
Definition raw_remote := (fam * N * N * Z)%type.
Definition raw_entry := (fam * N * N * list raw_remote)%type.
Definition entry := (fam * N * N * list calc_remote)%type.

(* newCalculatedRemotesListFromConfig: the first failing element fails the whole list *)
Fixpoint build_remotes (cf : fam) (l : list raw_remote) : option (list calc_remote) :=
  match l with
  | [] => Some []
  | (mf, ma, ml, port) :: r =>
      match new_calculated_remote cf mf ma ml port with
      | None => None
      | Some c => match build_remotes cf r with None => None | Some cs => Some (c :: cs) end
      end
  end.

(* NewCalculatedRemotesFromConfig *)
Fixpoint build_cfg (l : list raw_entry) : option (list entry) :=
  match l with
  | [] => Some []
  | (cf, ca, cl, rems) :: r =>
      match build_remotes cf rems with
      | None => None
      | Some cs => match build_cfg r with None => None | Some es => Some ((cf, ca, cl, cs) :: es) end
      end
  end.

(* prefix containment: same family and equal leading [len] bits *)
Definition contains (f : fam) (a len : N) (xf : fam) (x : N) : bool :=
  fam_eqb f xf && (N.shiftr x (bitlen f - len) =? N.shiftr a (bitlen f - len)).

(* bart.Table.Lookup, modelled as longest-prefix match over the configured ranges *)
Fixpoint lookup (cfg : list entry) (xf : fam) (x : N) (best : option entry) : option entry :=
  match cfg with
  | [] => best
  | ((f, a, len, _) as e) :: r =>
      let better := match best with None => true | Some (_, _, blen, _) => blen <? len end in
      lookup r xf x (if contains f a len xf x && better then Some e else best)
  end.

Inductive remote := R4 (addr port : N) | R6 (hi lo port : N).

(* the loop of addCalculatedRemotes: vpnAddr.Is4() -> ApplyV4, else vpnAddr.Is6() -> ApplyV6.
   None = a panic inside Apply* *)
Fixpoint apply_all (xf : fam) (x : N) (l : list calc_remote) : option (list remote) :=
  match l with
  | [] => Some []
  | c :: r =>
      let one := match xf with
                 | V4 => option_map (fun '(a, p) => R4 a p) (apply_v4 c xf x)
                 | V6 => option_map (fun '(h, l, p) => R6 h l p) (apply_v6 c xf x)
                 end in
      match one, apply_all xf x r with
      | Some o, Some os => Some (o :: os)
      | _, _ => None
      end
  end.

(* the calculated remotes handed to the remote list for overlay address x (before the remote allow list
   and the MaxRemotes cap, which are other properties) *)
Definition add_calculated (cfg : list entry) (xf : fam) (x : N) : option (list remote) :=
  match lookup cfg xf x None with
  | None => Some []
  | Some (_, _, _, rems) => apply_all xf x rems
  end.

(* ---- executable statement of the property (used on the implementation's outputs) ---- *)

(* bit i of a w-bit address, counting from the most significant bit *)
Definition bit_msb (w a i : N) : bool := N.testbit a (w - 1 - i).

Fixpoint upto (n : nat) : list N := match n with O => [] | S n' => upto n' ++ [N.of_nat n'] end.

(* result takes bits [0, len) from the mask address and bits [len, w) from the overlay address *)
Definition spliced (w len maddr oaddr res : N) : bool :=
  (res <? 2 ^ w) &&
  forallb (fun i => Bool.eqb (bit_msb w res i) (if i <? len then bit_msb w maddr i else bit_msb w oaddr i))
          (upto (N.to_nat w)).

Definition addr128 (hi lo : N) : N := hi * 18446744073709551616 + lo.

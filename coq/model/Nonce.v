(* Nonce: one tunnel's message counter (ConnectionState.messageCounter, an atomic uint64), the optional write lock
   (ConnectionState.writeLock, taken iff noiseutil.EncryptLockNeeded) and the send paths of /repo/inside.go that
   reserve a counter and hand it to the cipher, as interleaved atomic steps.  Executable definitions only.

   Send paths (every caller of eKey.EncryptDanger in /repo):
     Hot        sendInsideEncrypt                 [Lock] ; c := Add(1) ; EncryptDanger c ; [Unlock]
     Next       sendNoMetrics, prepareSendVia     [Lock] ; c := Add(1) ; if c >= Reject { Store(Reject) ; [Unlock] ; return }
                (NextMessageCounter)                      ; EncryptDanger c ; [Unlock]
     NextAbort  prepareSendVia, short-buffer exit [Lock] ; c := Add(1) ; if c >= Reject { Store(Reject) } ; [Unlock]
   EncryptDanger c (aesgcm.go, chachapoly.go, fips140.go) reaches the AEAD iff c < noiseutil.RejectAfterMessages.
   All counter arithmetic is uint64: w64. *)
From Coq Require Import List NArith Bool.
Import ListNotations.
From NV Require Import lib.Bytes gen.Consts_Nonce.
Open Scope N_scope.

(* lk: is the write lock taken (EncryptLockNeeded); sceil: the ceiling NextMessageCounter compares with and stores
   (nebula.RejectAfterMessages); eceil: the ceiling EncryptDanger compares with (noiseutil.RejectAfterMessages). *)
Record cfg := { lk : bool; sceil : N; eceil : N }.

Definition real_cfg (lock_needed : bool) : cfg :=
  {| lk := lock_needed; sceil := RejectAfterMessages; eceil := NoiseRejectAfterMessages |}.

Inductive path := Hot | Next | NextAbort.

Inductive phase :=
| Idle                  (* between sends *)
| Entered (p : path)    (* inside the path, write lock held if the mode takes it; next: messageCounter.Add(1) *)
| Reserved (c : N)      (* holds counter c; next: eKey.EncryptDanger(..., c, ...) *)
| Exhausted             (* NextMessageCounter saw c >= ceiling; next: messageCounter.Store(ceiling) *)
| Leaving.              (* next: release the lock if held, return *)

Record thread := { todo : list path; ph : phase }.

Record state := { ctr : N; lock : option N; threads : N -> thread }.

Inductive event :=
| EvAdd (t c : N)                  (* thread t: Add(1) returned c *)
| EvStore (t : N)                  (* thread t: Store(ceiling) *)
| EvEnc (t c : N) (ok : bool).     (* thread t: EncryptDanger with nonce c; ok = it reached the AEAD *)

Definition upd (f : N -> thread) (t : N) (v : thread) : N -> thread :=
  fun x => if x =? t then v else f x.

Definition is_some {A} (o : option A) : bool := match o with Some _ => true | None => false end.

Definition after_add (cf : cfg) (p : path) (c : N) : phase :=
  match p with
  | Hot => Reserved c
  | Next => if sceil cf <=? c then Exhausted else Reserved c
  | NextAbort => if sceil cf <=? c then Exhausted else Leaving
  end.

(* One atomic step of thread t. A thread that has nothing left to do, or that waits for the lock, stutters. *)
Definition step (cf : cfg) (t : N) (s : state) : state * list event :=
  let th := threads s t in
  match ph th with
  | Idle =>
      match todo th with
      | [] => (s, [])
      | p :: r =>
          if lk cf && is_some (lock s) then (s, [])
          else ({| ctr := ctr s; lock := if lk cf then Some t else lock s;
                   threads := upd (threads s) t {| todo := r; ph := Entered p |} |}, [])
      end
  | Entered p =>
      let c := w64 (ctr s + 1) in
      ({| ctr := c; lock := lock s;
          threads := upd (threads s) t {| todo := todo th; ph := after_add cf p c |} |}, [EvAdd t c])
  | Reserved c =>
      ({| ctr := ctr s; lock := lock s;
          threads := upd (threads s) t {| todo := todo th; ph := Leaving |} |}, [EvEnc t c (c <? eceil cf)])
  | Exhausted =>
      ({| ctr := sceil cf; lock := lock s;
          threads := upd (threads s) t {| todo := todo th; ph := Leaving |} |}, [EvStore t])
  | Leaving =>
      ({| ctr := ctr s; lock := if lk cf then None else lock s;
          threads := upd (threads s) t {| todo := todo th; ph := Idle |} |}, [])
  end.

(* A schedule is any list of thread ids; exec runs it, appending the events to the trace so far. *)
Fixpoint exec (cf : cfg) (sched : list N) (s : state) (tr : list event) : state * list event :=
  match sched with
  | [] => (s, tr)
  | t :: r => let '(s', e) := step cf t s in exec cf r s' (tr ++ e)
  end.

(* Threads 0 .. length progs - 1 with the given lists of sends, nobody inside a path, counter c0. *)
Definition init (c0 : N) (progs : list (list path)) : state :=
  {| ctr := c0; lock := None;
     threads := fun t => {| todo := nth (N.to_nat t) progs []; ph := Idle |} |}.

(* Nobody is inside a send path (and so nobody holds the lock): a tunnel right after the handshake, or any later
   moment at which no send is in flight. *)
Definition quiescent (s : state) : Prop := lock s = None /\ forall t, ph (threads s t) = Idle.

(* newConnectionStateFromResult: messageCounter.Add(MessageIndex) on a zero counter. *)
Definition seed (handshake_message_index : N) : N := w64 (0 + handshake_message_index).

(* The nonces that reached the AEAD, in the order they reached it. *)
Definition enc_of (e : event) : list N := match e with EvEnc _ c true => [c] | _ => [] end.
Definition encs (tr : list event) : list N := flat_map enc_of tr.

(* ---- the property as an executable specification over observed nonces ---- *)

Fixpoint memb (x : N) (l : list N) : bool :=
  match l with [] => false | y :: r => (x =? y) || memb x r end.

Fixpoint nodupb (l : list N) : bool :=
  match l with [] => true | x :: r => negb (memb x r) && nodupb r end.

Fixpoint increasingb (l : list N) : bool :=
  match l with
  | [] => true
  | x :: r => match r with [] => true | y :: _ => (x <? y) && increasingb r end
  end.

(* accepted : the nonces that reached the AEAD under one key, in order; c0 : the counter the tunnel started with *)
Definition spec_accepted (lock_mode : bool) (ceiling c0 : N) (accepted : list N) : bool :=
  nodupb accepted
  && forallb (fun c => (c0 <? c) && (c <? ceiling)) accepted
  && (negb lock_mode || increasingb accepted).

(* Model of the relay machinery of nebula for property C39: /repo/relay_manager.go (HandleControlMsg,
   handleCreateRelayRequest, handleCreateRelayResponse, EstablishRelay, AddRelay, StartRelays), the relay
   part of /repo/hostmap.go (RelayState, QueryVpnAddrsRelayFor, unlockedDisestablishVpnAddrRelayFor,
   unlockedAddHostInfo / unlockedDeleteHostInfo / unlockedMakePrimary) and the ForwardingType path of
   handleOutsideRelayPacket in /repo/outside.go.  Executable definitions only - no proofs.

   WHAT the two control handlers decide is not written by hand: [step_request] / [step_response] look it up
   in gen/Tab_Relay.v, which the harness regenerates on every run by driving the real HandleControlMsg
   over the whole feature space.  Hand-written here: how the features are read off the node state
   ([qrow_of], [xrow_of]), how the abstract action is applied to the maps, the message that is written, the
   forward lookup, tunnel insertion / deletion with its relay clean-up, and StartRelays.

   Tunnels (pointers to HostInfo) are identified by ids; overlay addresses are numbers (IPv4: < 2^32,
   IPv6: >= 2^32); a tunnel's relayForByAddr / relayForByIdx pair is one list of records kept sorted by
   local index (the code always writes both maps together).  Fields [r_am], [r_org], [t_alive] are ghost:
   never read by an operation, not compared with the implementation. *)
From Coq Require Import List NArith Bool.
Import ListNotations.
From NV Require Import lib.Relay_lib gen.Tab_Relay.
Open Scope N_scope.

(* ---------- state ---------------------------------------------------------------------------- *)

(* ghost: how a record came into being *)
Inductive origin :=
| GOwnReq                (* the tunnel itself sent a CreateRelayRequest for r_peer to this node (not the target) *)
| GTargetLeg (via : N)   (* target leg: a CreateRelayRequest naming r_peer as source arrived on tunnel [via]; this
                            tunnel was the primary tunnel of the requested target *)
| GTerminal              (* this node is the target of the relay *)
| GStart.                (* this node asked the tunnel's peer to relay for it (StartRelays) *)

Record relay := mkR {
  r_peer : N;            (* Relay.PeerAddr *)
  r_idx : N;             (* Relay.LocalIndex *)
  r_rem : N;             (* Relay.RemoteIndex *)
  r_ty : rtype;
  r_st : rstate;
  r_am : bool;           (* ghost: relay.am_relay at the moment the record was created *)
  r_org : origin         (* ghost *)
}.

Record tunnel := mkT {
  t_addrs : list N;      (* HostInfo.vpnAddrs: the certified addresses the tunnel was authenticated for *)
  t_local : N;           (* HostInfo.localIndexId *)
  t_valid : bool;        (* HostInfo.remote is a valid underlay address *)
  t_v1 : bool;           (* the peer's certificate is version 1 (StartRelays chooses the encoding by it) *)
  t_recs : list relay;   (* RelayState.relayForByAddr / relayForByIdx *)
  t_via : list N;        (* RelayState.relays *)
  t_alive : bool         (* ghost: inserted into the hostmap and not deleted since *)
}.

Record state := mkS {
  s_me : list N;         (* Interface.myVpnAddrs *)
  s_am : bool;           (* relayManager.amRelay *)
  s_tun : amap tunnel;   (* every HostInfo ever inserted, by id *)
  s_hosts : amap (list N); (* HostMap.Hosts + moreHosts as unlockedGetHostList reads them: address -> tunnels, primary first *)
  s_index : amap N;      (* HostMap.Indexes *)
  s_relays : amap N      (* HostMap.Relays *)
}.

Definition init (me : list N) (am : bool) : state := mkS me am [] [] [] [].

Definition with_am (s : state) (b : bool) := mkS (s_me s) b (s_tun s) (s_hosts s) (s_index s) (s_relays s).
Definition with_tun (s : state) (h : N) (t : tunnel) :=
  mkS (s_me s) (s_am s) (mset h t (s_tun s)) (s_hosts s) (s_index s) (s_relays s).
Definition with_hosts (s : state) (v : amap (list N)) := mkS (s_me s) (s_am s) (s_tun s) v (s_index s) (s_relays s).
Definition with_index (s : state) (v : amap N) := mkS (s_me s) (s_am s) (s_tun s) (s_hosts s) v (s_relays s).
Definition with_relays (s : state) (v : amap N) := mkS (s_me s) (s_am s) (s_tun s) (s_hosts s) (s_index s) v.

Definition tun (s : state) (h : N) : option tunnel := mget h (s_tun s).
Definition t_with_recs (t : tunnel) (l : list relay) : tunnel :=
  mkT (t_addrs t) (t_local t) (t_valid t) (t_v1 t) l (t_via t) (t_alive t).
Definition t_with_via (t : tunnel) (l : list N) : tunnel :=
  mkT (t_addrs t) (t_local t) (t_valid t) (t_v1 t) (t_recs t) l (t_alive t).
Definition t_dead (t : tunnel) : tunnel :=
  mkT (t_addrs t) (t_local t) (t_valid t) (t_v1 t) (t_recs t) (t_via t) false.

Definition is4 (a : N) : bool := a <? 4294967296.
(* HostInfo.vpnAddrs[0]; tunnels are only created with at least one address ([add_tunnel]) *)
Definition addr0 (t : tunnel) : N := hd 0 (t_addrs t).
Definition is_me (s : state) (a : N) : bool := memN a (s_me s).

(* ---------- relay records of one tunnel ------------------------------------------------------- *)

Definition rec_by_addr (l : list relay) (a : N) : option relay := find (fun r => r_peer r =? a) l.
Definition rec_by_idx (l : list relay) (i : N) : option relay := find (fun r => r_idx r =? i) l.

Definition r_set_st (r : relay) (st : rstate) : relay := mkR (r_peer r) (r_idx r) (r_rem r) (r_ty r) st (r_am r) (r_org r).
(* CompleteRelayByIP / CompleteRelayByIdx *)
Definition r_complete (r : relay) (rem : N) : relay := mkR (r_peer r) (r_idx r) rem (r_ty r) SEst (r_am r) (r_org r).

Fixpoint ins_rec (x : relay) (l : list relay) : list relay :=
  match l with
  | [] => [x]
  | y :: r => if r_idx x <? r_idx y then x :: y :: r else y :: ins_rec x r
  end.

Definition map_recs (h : N) (f : relay -> relay) (s : state) : state :=
  match tun s h with
  | Some t => with_tun s h (t_with_recs t (map f (t_recs t)))
  | None => s
  end.

(* UpdateRelayForByIpState *)
Definition set_state_by_addr (h a : N) (st : rstate) (s : state) : state :=
  map_recs h (fun r => if r_peer r =? a then r_set_st r st else r) s.
Definition complete_by_addr (h a rem : N) (s : state) : state :=
  map_recs h (fun r => if r_peer r =? a then r_complete r rem else r) s.
Definition set_state_by_idx (h i : N) (st : rstate) (s : state) : state :=
  map_recs h (fun r => if r_idx r =? i then r_set_st r st else r) s.
Definition complete_by_idx (h i rem : N) (s : state) : state :=
  map_recs h (fun r => if r_idx r =? i then r_complete r rem else r) s.

(* ---------- hostmap ---------------------------------------------------------------------------- *)

(* unlockedGetHostList *)
Definition hostlist (s : state) (a : N) : list N := match mget a (s_hosts s) with Some l => l | None => [] end.
(* HostMap.Hosts[a] *)
Definition primary (s : state) (a : N) : option N := hd_error (hostlist s a).

(* unlockedSetHostsForAddr *)
Definition set_list (a : N) (l : list N) (s : state) : state :=
  match l with
  | [] => with_hosts s (mdel a (s_hosts s))
  | _ :: _ => with_hosts s (mset a l (s_hosts s))
  end.

(* Indexes[hostinfo.localIndexId] == hostinfo *)
Definition live (s : state) (h : N) : bool :=
  match tun s h with Some t => optN_is (mget (t_local t) (s_index s)) h | None => false end.

Definition promote_addr (h : N) (s : state) (a : N) : state :=
  if optN_is (primary s a) h then s else set_list a (h :: remove_first h (hostlist s a)) s.

(* unlockedMakePrimary *)
Definition make_primary (h : N) (s : state) : state * bool :=
  match tun s h with
  | Some t => if live s h then (fold_left (promote_addr h) (t_addrs t) s, true) else (s, false)
  | None => (s, false)
  end.

(* generateIndex: read candidates until one is non-zero. The candidate stream is what crypto/rand delivers. *)
Fixpoint gen_index (cs : list N) : option (N * list N) :=
  match cs with
  | [] => None
  | c :: r => if c =? 0 then gen_index r else Some (c, r)
  end.

(* the `for range N` loop of AddRelay: the first candidate that is not a key of HostMap.Relays *)
Fixpoint alloc_loop (fuel : nat) (cs : list N) (rel : amap N) : option N * list N :=
  match fuel with
  | O => (None, cs)
  | S f =>
      match gen_index cs with
      | None => (None, [])
      | Some (i, cs') => if is_some (mget i rel) then alloc_loop f cs' rel else (Some i, cs')
      end
  end.

(* AddRelay: the tunnel is made primary first and the call fails if it is no longer in the hostmap *)
Definition add_relay (h key rem : N) (ty : rtype) (st : rstate) (am : bool) (org : origin) (cs : list N) (s : state)
  : state * option N * list N :=
  match alloc_loop (N.to_nat add_relay_tries) cs (s_relays s) with
  | (None, cs') => (s, None, cs')
  | (Some i, cs') =>
      let (s1, ok) := make_primary h s in
      if ok then
        match tun s1 h with
        | Some t => (with_relays (with_tun s1 h (t_with_recs t (ins_rec (mkR key i rem ty st am org) (t_recs t))))
                                 (mset i h (s_relays s1)), Some i, cs')
        | None => (s, None, cs')
        end
      else (s, None, cs')
  end.

(* ---------- tunnel deletion -------------------------------------------------------------------- *)

(* one iteration of the address loop of unlockedDeleteHostInfo; the bool is [final] *)
Definition del_addr (h : N) (sf : state * bool) (a : N) : state * bool :=
  let (s, final) := sf in
  let l := hostlist s a in
  if memN h l then
    let l' := remove_first h l in
    (set_list a l' s, match l' with [] => final | _ :: _ => false end)
  else match l with [] => (s, final) | _ :: _ => (s, false) end.

Definition dis_addr (key : N) (s : state) (a : N) : state :=
  fold_left (fun s' x => set_state_by_addr x key SDis s') (hostlist s a) s.

(* unlockedDisestablishVpnAddrRelayFor *)
Definition disestablish (t : tunnel) (s : state) : state :=
  let key := addr0 t in
  let s1 := fold_left (dis_addr key) (t_via t) s in
  fold_left (fun s' r => match r_ty r with TFwd => dis_addr key s' (r_peer r) | TTerm => s' end) (t_recs t) s1.

(* Relays entries are only removed when they still point to the tunnel being deleted *)
Fixpoint del_rels (h : N) (is : list N) (m : amap N) : amap N :=
  match is with
  | [] => m
  | i :: r => del_rels h r (if optN_is (mget i m) h then mdel i m else m)
  end.

Definition kill (h : N) (s : state) : state :=
  match tun s h with Some t => with_tun s h (t_dead t) | None => s end.

(* unlockedDeleteHostInfo *)
Definition delete_tunnel (h : N) (s : state) : state :=
  match tun s h with
  | None => s
  | Some t =>
      let (s1, final) := fold_left (del_addr h) (t_addrs t) (s, true) in
      let s2 := if optN_is (mget (t_local t) (s_index s1)) h then with_index s1 (mdel (t_local t) (s_index s1)) else s1 in
      let s3 := if final then disestablish t s2 else s2 in
      let s4 := with_relays s3 (del_rels h (map r_idx (t_recs t)) (s_relays s3)) in
      kill h s4
  end.

(* ---------- tunnel insertion ------------------------------------------------------------------- *)

(* unlockedInnerAddHostInfo: the new tunnel becomes primary; the oldest is retired beyond the per-address cap *)
Definition inner_add (h : N) (s : state) (a : N) : state :=
  match hostlist s a with
  | [] => set_list a [h] s
  | e :: r =>
      let l := h :: remove_first h (e :: r) in
      let s1 := set_list a l s in
      if max_hostinfos_per_vpnip <? N.of_nat (length l) then delete_tunnel (last l h) s1 else s1
  end.

(* unlockedAddHostInfo for a tunnel that has never been inserted *)
Definition add_tunnel (id : N) (addrs : list N) (local : N) (valid v1 : bool) (s : state) : state :=
  match addrs with
  | [] => s
  | _ :: _ =>
      if is_some (tun s id) then s
      else
        let s0 := with_tun s id (mkT addrs local valid v1 [] [] true) in
        let s1 := fold_left (inner_add id) addrs s0 in
        with_index s1 (mset local id (s_index s1))
  end.

(* RelayState.InsertRelayTo *)
Definition insert_via (h ip : N) (s : state) : state :=
  match tun s h with
  | Some t => if memN ip (t_via t) then s else with_tun s h (t_with_via t (t_via t ++ [ip]))
  | None => s
  end.

(* the first Established record of the tunnel for one of the given addresses *)
Fixpoint find_est (recs : list relay) (addrs : list N) : option relay :=
  match addrs with
  | [] => None
  | a :: r =>
      match rec_by_addr recs a with
      | Some x => if rstate_eqb (r_st x) SEst then Some x else find_est recs r
      | None => find_est recs r
      end
  end.

(* QueryVpnAddrsRelayFor: the primary first, then the other tunnels holding the address *)
Fixpoint query_relay_for (s : state) (l : list N) (addrs : list N) : option (N * relay) :=
  match l with
  | [] => None
  | t :: r =>
      match tun s t with
      | Some tq => match find_est (t_recs tq) addrs with
                   | Some x => Some (t, x)
                   | None => query_relay_for s r addrs
                   end
      | None => query_relay_for s r addrs
      end
  end.

(* ---------- writing a control message to a tunnel ------------------------------------------------ *)

(* sendNoMetrics for a tunnel without a direct underlay address walks RelayState.relays: relays through which no
   Established record for the tunnel is found are dropped from the list, the first usable one carries the message
   (as a relay data packet, not seen as a control message on the wire) *)
Fixpoint prune_via (s : state) (addrs : list N) (l : list N) : list N :=
  match l with
  | [] => []
  | ip :: r => match query_relay_for s (hostlist s ip) addrs with
               | Some _ => l
               | None => prune_via s addrs r
               end
  end.

(* ---------- control messages -------------------------------------------------------------------- *)

(* NebulaControl after protobuf decoding (v2 addresses already unmapped) *)
Record wire := mkW {
  w_typ : N;                 (* 1 = CreateRelayRequest, 2 = CreateRelayResponse *)
  w_ofrom : N; w_oto : N;    (* OldRelayFromAddr / OldRelayToAddr (v1, uint32) *)
  w_from : option N; w_to : option N;  (* RelayFromAddr / RelayToAddr (v2) *)
  w_init : N; w_resp : N     (* InitiatorRelayIndex / ResponderRelayIndex *)
}.

(* a control message written by this node *)
Record omsg := mkO {
  o_to : N;                  (* tunnel it is written to *)
  o_typ : N; o_v1 : bool; o_from : N; o_dst : N; o_init : N; o_resp : N
}.

(* SendMessageToHostInfo: the control messages that reach the wire directly *)
Definition deliver_to (s : state) (m : omsg) : state * list omsg :=
  match tun s (o_to m) with
  | Some t => if t_valid t then (s, [m])
              else (with_tun s (o_to m) (t_with_via t (prune_via s (t_addrs t) (t_via t))), [])
  | None => (s, [])
  end.

(* HandleControlMsg: version detection and the nil checks *)
Definition decode (w : wire) : option (bool * N * N) :=
  if (0 <? w_ofrom w) || (0 <? w_oto w) then Some (true, w_ofrom w, w_oto w)
  else match w_from w, w_to w with
       | Some f, Some t => Some (false, f, t)
       | _, _ => None
       end.

Definition req_decide (r : qrow) : option act := assoc qrow_eqb r tab_req.
Definition resp_decide (r : xrow) : option act := assoc xrow_eqb r tab_resp.

Definition encf_of (v1 : bool) (t : tunnel) : encf := if v1 then (if is4 (addr0 t) then EV1 else EV1six) else EV2.

(* the features handleCreateRelayRequest reads *)
Definition qrow_of (s : state) (th : tunnel) (v1 : bool) (from target init : N) : qrow :=
  let tm := is_me s target in
  let key := if tm then from else target in
  mkQ (encf_of v1 th) (s_am s) (is_me s from) tm
      (option_map (fun r => (r_st r, r_rem r =? init)) (rec_by_addr (t_recs th) key))
      (match primary s target with
       | None => None
       | Some p => match tun s p with
                   | None => None
                   | Some tp => Some (t_valid tp, option_map r_st (rec_by_addr (t_recs tp) from))
                   end
       end).

(* apply the action on the other tunnel's record; None = AddRelay failed, the handler returns *)
Definition do_pact (pa : pact) (p key : N) (am : bool) (org : origin) (cs : list N) (s : state) : option (state * list N) :=
  match pa with
  | PNone => Some (s, cs)
  | PSet st => Some (set_state_by_addr p key st s, cs)
  | PCreate ty st =>
      match add_relay p key 0 ty st am org cs s with
      | (s', Some _, cs') => Some (s', cs')
      | (_, None, _) => None
      end
  end.

(* apply the action on the arrival tunnel's record. The handler re-reads the map just before AddRelay, so a
   record created a moment ago by the same message (from = target on the same tunnel) is not created twice. *)
Definition do_hact (ha : hact) (h key rem : N) (am : bool) (org : origin) (cs : list N) (s : state) : option (state * list N) :=
  match ha with
  | HNone => Some (s, cs)
  | HSet st => Some (set_state_by_addr h key st s, cs)
  | HComplete => Some (complete_by_addr h key rem s, cs)
  | HCreate ty st =>
      match tun s h with
      | None => None
      | Some t =>
          if is_some (rec_by_addr (t_recs t) key) then Some (s, cs)
          else match add_relay h key rem ty st am org cs s with
               | (s', Some _, cs') => Some (s', cs')
               | (_, None, _) => None
               end
      end
  end.

Definition rec_of (s : state) (h key : N) : option relay :=
  match tun s h with Some t => rec_by_addr (t_recs t) key | None => None end.

Definition is_top (a : sact) : bool := match a with SToP => true | _ => false end.
Definition is_toh (a : sact) : bool := match a with SToH => true | _ => false end.

Definition send_if (c : bool) (s : state) (m : option omsg) : state * list omsg :=
  if c then match m with Some x => deliver_to s x | None => (s, []) end else (s, []).

(* second half of handleCreateRelayRequest: the arrival tunnel's record, then the answer on the same tunnel *)
Definition request_tail (a : act) (h key from target init : N) (v1 tm am : bool) (s1 : state) (cs1 : list N)
                        (sendP : list omsg) (hs : option N) : state * list omsg * option N :=
  match do_hact (a_h a) h key init am (if tm then GTerminal else GOwnReq) cs1 s1 with
  | None => (s1, sendP, hs)
  | Some (s2, _) =>
      let (s2', sendH) := send_if (is_toh (a_s a)) s2
                            (option_map (fun r => mkO h 2 v1 from target (r_rem r) (r_idx r)) (rec_of s2 h from)) in
      (s2', sendP ++ sendH, hs)
  end.

(* handleCreateRelayRequest: the target's tunnel is looked up first; its record is updated / created and the request
   passed on before the arrival tunnel's own record is created *)
Definition step_request (s : state) (h : N) (th : tunnel) (v1 : bool) (from target init : N) (cs : list N)
  : state * list omsg * option N :=
  match req_decide (qrow_of s th v1 from target init) with
  | None => (s, [], None)
  | Some a =>
      let tm := is_me s target in
      let key := if tm then from else target in
      let hs := if a_hs a then Some target else None in
      match primary s target with
      | Some p =>
          match do_pact (a_p a) p from (s_am s) (GTargetLeg h) cs s with
          | None => (s, [], hs)
          | Some (s1, cs1) =>
              let (s1', sendP) := send_if (is_top (a_s a)) s1
                                    (option_map (fun r => mkO p 1 v1 (addr0 th) target (r_idx r) 0) (rec_of s1 p from)) in
              request_tail a h key from target init v1 tm (s_am s) s1' cs1 sendP hs
          end
      | None => request_tail a h key from target init v1 tm (s_am s) s cs [] hs
      end
  end.

(* the features handleCreateRelayResponse reads; the peer's record is read after EstablishRelay completed the
   arrival tunnel's record (they are the same record when the peer is the arrival tunnel and RelayToAddr is
   the record's own PeerAddr) *)
Definition xrow_of (s : state) (h : N) (th : tunnel) (v1 : bool) (to init resp : N) : xrow :=
  let e0 := if v1 then EV1 else EV2 in
  match rec_by_idx (t_recs th) init with
  | None => mkX e0 None None
  | Some r =>
      let feat := Some (r_ty r, r_st r, r_rem r =? resp) in
      match primary s (r_peer r) with
      | None => mkX e0 feat None
      | Some p =>
          match tun (complete_by_idx h init resp s) p with
          | None => mkX e0 feat None
          | Some tp => mkX (encf_of v1 tp) feat (Some (option_map r_st (rec_by_addr (t_recs tp) to)))
          end
      end
  end.

(* handleCreateRelayResponse *)
Definition step_response (s : state) (h : N) (th : tunnel) (v1 : bool) (to init resp : N) : state * list omsg * option N :=
  match resp_decide (xrow_of s h th v1 to init resp) with
  | None => (s, [], None)
  | Some a =>
      let s1 := match a_h a with
                | HComplete => complete_by_idx h init resp s
                | HSet st => set_state_by_idx h init st s
                | _ => s
                end in
      match rec_by_idx (t_recs th) init with
      | None => (s1, [], None)
      | Some r =>
          match primary s (r_peer r) with
          | None => (s1, [], None)
          | Some p =>
              let s2 := match a_p a with PSet st => set_state_by_addr p to st s1 | _ => s1 end in
              let (s3, send) := send_if (is_top (a_s a)) s2
                                  (match rec_of s1 p to, tun s1 p with
                                   | Some pr, Some tp => Some (mkO p 2 v1 (addr0 tp) to (r_rem pr) (r_idx pr))
                                   | _, _ => None
                                   end) in
              (s3, send, None)
          end
      end
  end.

(* HandleControlMsg on tunnel h (which may already have been deleted: callers race teardown) *)
Definition control_step (s : state) (h : N) (w : wire) (cs : list N) : state * list omsg * option N :=
  match tun s h with
  | None => (s, [], None)
  | Some th =>
      match decode w with
      | None => (s, [], None)
      | Some (v1, from, to) =>
          if w_typ w =? 1 then step_request s h th v1 from to (w_init w) cs
          else if w_typ w =? 2 then step_response s h th v1 to (w_init w) (w_resp w)
          else (s, [], None)
      end
  end.

(* ---------- StartRelays (initiator side), for one candidate relay address ----------------------- *)

(* the CreateRelayRequest this node writes for itself; a v1 relay can only carry IPv4 addresses *)
Definition own_request (s : state) (rh : N) (t : tunnel) (vpn idx : N) : list omsg :=
  let me0 := hd 0 (s_me s) in
  if t_v1 t then (if is4 me0 && is4 vpn then [mkO rh 1 true me0 vpn idx 0] else [])
  else [mkO rh 1 false me0 vpn idx 0].

Definition start_relays (s : state) (relay vpn : N) (cs : list N) : state * list omsg * option N :=
  if s_am s then (s, [], None)                    (* use_relays is forced off on a relay node *)
  else if (relay =? vpn) || is_me s relay then (s, [], None)
  else
    match primary s relay with
    | None => (s, [], Some relay)                 (* handshake to the relay *)
    | Some rh =>
        match tun s rh with
        | None => (s, [], None)
        | Some t =>
            if negb (t_valid t) then (s, [], None)
            else
              match rec_by_addr (t_recs t) vpn with
              | None =>
                  match add_relay rh vpn 0 TTerm SReq (s_am s) GStart cs s with
                  | (s', Some i, _) => (s', own_request s rh t vpn i, None)
                  | (_, None, _) => (s, [], None)
                  end
              | Some r =>
                  match r_st r with
                  | SEst => (s, [], None)         (* the handshake packet itself goes through the relay *)
                  | SDis => (set_state_by_addr rh vpn SReq s, own_request s rh t vpn (r_idx r), None)
                  | SReq => (s, own_request s rh t vpn (r_idx r), None)
                  | SPeerReq => (s, [], None)
                  end
              end
        end
    end.

(* ---------- histories ------------------------------------------------------------------------------ *)

Inductive op :=
| OAdd (id : N) (addrs : list N) (local : N) (valid v1 : bool)   (* a handshake completed: unlockedAddHostInfo *)
| ODel (id : N)                                                  (* DeleteHostInfo *)
| OSetAm (b : bool)                                              (* reload of relay.am_relay *)
| OMsg (h : N) (w : wire) (cs : list N)                          (* a control message arrives on tunnel h *)
| OStart (relay vpn : N) (cs : list N)                           (* StartRelays for target vpn through relay *)
| OVia (h ip : N).                                               (* InsertRelayTo *)

Definition step (s : state) (o : op) : state * list omsg * option N :=
  match o with
  | OAdd id addrs local valid v1 => (add_tunnel id addrs local valid v1 s, [], None)
  | ODel id => (delete_tunnel id s, [], None)
  | OSetAm b => (with_am s b, [], None)
  | OMsg h w cs => control_step s h w cs
  | OStart relay vpn cs => start_relays s relay vpn cs
  | OVia h ip => (insert_via h ip s, [], None)
  end.

Definition step_state (s : state) (o : op) : state := fst (fst (step s o)).
Definition run (s : state) (ops : list op) : state := fold_left step_state ops s.

(* ---------- forwarding ------------------------------------------------------------------------------ *)

(* handleOutsideRelayPacket, ForwardingType path: a relay packet authenticated on tunnel h carrying relay index
   idx is re-sent on tunnel t under record r (header index r_rem r), or dropped *)
Definition forward (s : state) (h idx : N) : option (N * relay) :=
  match tun s h with
  | None => None
  | Some th =>
      match rec_by_idx (t_recs th) idx with
      | None => None
      | Some rin =>
          match r_ty rin with
          | TTerm => None
          | TFwd =>
              match query_relay_for s (hostlist s (r_peer rin)) (t_addrs th) with
              | Some (t, r) =>
                  if rstate_eqb (r_st r) SEst then match r_ty r with TFwd => Some (t, r) | TTerm => None end else None
              | None => None
              end
          end
      end
  end.

(* readOutsidePackets for a relay message: the tunnel is found through HostMap.Relays *)
Definition forward_pkt (s : state) (idx : N) : option (N * N * relay) :=
  match mget idx (s_relays s) with
  | Some h => match forward s h idx with Some (t, r) => Some (h, t, r) | None => None end
  | None => None
  end.

(* ---------- the documented rules (written from the property text, not from the tables) -------------- *)

(* state changes a relay record may go through *)
Definition documented_transitions : list (rstate * rstate) :=
  [(SReq, SEst); (SPeerReq, SEst); (SEst, SDis); (SDis, SEst); (SDis, SReq)].
(* further changes the code performs; none of them enters Established: a repeated / crossing CreateRelayRequest puts
   the target leg back to Requested until the target confirms again, and losing the last tunnel to a peer marks
   the legs that are still being set up Disestablished as well *)
Definition conservative_transitions : list (rstate * rstate) :=
  [(SPeerReq, SReq); (SEst, SReq); (SReq, SDis); (SPeerReq, SDis)].
Definition allowed_transitions : list (rstate * rstate) := documented_transitions ++ conservative_transitions.
(* what control messages alone may do *)
Definition message_transitions : list (rstate * rstate) :=
  [(SReq, SEst); (SPeerReq, SEst); (SDis, SEst); (SDis, SReq); (SPeerReq, SReq); (SEst, SReq)].

Definition trans_ok (l : list (rstate * rstate)) (a b : rstate) : bool :=
  rstate_eqb a b || existsb (pair_eqb rstate_eqb rstate_eqb (a, b)) l.

(* the transitions a table row performs *)
Definition hact_trans (old : rstate) (ha : hact) : list (rstate * rstate) :=
  match ha with HSet st => [(old, st)] | HComplete => [(old, SEst)] | _ => [] end.
Definition pact_trans (old : rstate) (pa : pact) : list (rstate * rstate) :=
  match pa with PSet st => [(old, st)] | _ => [] end.
Definition qrow_trans (ra : qrow * act) : list (rstate * rstate) :=
  let (r, a) := ra in
  match q_ex r with Some (st, _) => hact_trans st (a_h a) | None => [] end ++
  match q_peer r with Some (_, Some st) => pact_trans st (a_p a) | _ => [] end.
Definition xrow_trans (ra : xrow * act) : list (rstate * rstate) :=
  let (r, a) := ra in
  match x_rec r with Some (_, st, _) => hact_trans st (a_h a) | None => [] end ++
  match x_peer r with Some (Some st) => pact_trans st (a_p a) | _ => [] end.
Definition nontrivial (p : rstate * rstate) : bool := negb (rstate_eqb (fst p) (snd p)).
Definition table_transitions : list (rstate * rstate) :=
  filter nontrivial (flat_map qrow_trans tab_req ++ flat_map xrow_trans tab_resp).

(* the documented gates of the request handler, for one row: what the row may do *)
Definition creates_fwd_h (a : act) : bool := match a_h a with HCreate TFwd _ => true | _ => false end.
Definition creates_fwd_p (a : act) : bool := match a_p a with PCreate TFwd _ => true | _ => false end.
Definition creates_term_p (a : act) : bool := match a_p a with PCreate TTerm _ => true | _ => false end.
Definition touches_p (a : act) : bool := match a_p a with PNone => false | _ => true end.
Definition touches_h (a : act) : bool := match a_h a with HNone => false | _ => true end.
Definition sends (a : act) : bool := match a_s a with SNone => false | _ => true end.

(* C39, request handler: forwarding state is created, the target leg touched and a request passed on only by a node
   configured as relay, for a target that is not this node, from a source that is not this node, towards a known
   peer with a direct underlay address; a request from "myself" does nothing at all; as target only terminal
   state is created and the answer goes back on the same tunnel *)
Definition qrow_gate_ok (ra : qrow * act) : bool :=
  let (r, a) := ra in
  let fwd_ok := q_am r && negb (q_tgt_me r) && negb (q_from_me r) &&
                match q_peer r with Some (true, _) => true | _ => false end in
  implb (creates_fwd_h a || creates_fwd_p a || touches_p a || match a_s a with SToP => true | _ => false end) fwd_ok &&
  implb (q_from_me r) (negb (touches_h a) && negb (touches_p a) && negb (sends a) && negb (a_hs a)) &&
  implb (q_tgt_me r) (negb (creates_fwd_h a) && negb (touches_p a) && match a_s a with SToP => false | _ => true end) &&
  implb (negb (q_tgt_me r)) (match a_h a with HCreate TTerm _ | HSet _ | HComplete => false | _ => true end &&
                              match a_s a with SToH => false | _ => true end) &&
  negb (creates_term_p a) &&
  implb (a_hs a) (q_am r && negb (q_tgt_me r) && negb (q_from_me r) && negb (is_some (q_peer r))) &&
  (* as target: an Established / Disestablished relay is never re-keyed to another initiator index, and not answered *)
  match q_tgt_me r, q_ex r with
  | true, Some (SEst, false) | true, Some (SDis, false) => negb (touches_h a) && negb (sends a)
  | _, _ => true
  end.

(* C39, response handler: only the record named by the message is completed; the peer leg is touched and told only
   for a forwarding record whose peer is known; nothing is ever created *)
Definition xrow_gate_ok (ra : xrow * act) : bool :=
  let (r, a) := ra in
  match a_h a with HNone | HComplete | HSet SEst => true | _ => false end &&
  implb (negb (is_some (x_rec r))) (negb (touches_h a)) &&
  match a_p a with PNone | PSet SEst => true | _ => false end &&
  implb (touches_p a || sends a)
        (match x_rec r, x_peer r with Some (TFwd, _, _), Some (Some _) => true | _, _ => false end) &&
  match a_s a with SToH => false | _ => true end &&
  negb (a_hs a) &&
  (* a leg this node itself requested and that has not been answered yet is not established by somebody else's answer *)
  match x_peer r with Some (Some SReq) => negb (touches_p a) && negb (sends a) | _ => true end.

(* Firewall: executable model of nebula's firewall rule engine (/repo/firewall.go). Definitions only.

   Part 1  the nested rule table exactly as AddRule builds it and FirewallTable.match walks it
           (protocol table -> port map -> CA node -> rule node -> local-CIDR node);
   Part 2  the documented semantics [rule_matches] of ONE rule (property C16) - a flat predicate;
   Part 3  Drop: the address checks that precede conntrack and rule matching (C17), an untimed conntrack
           (insert / hit / revalidate-after-reload); timing and reload are modelled by the conntrack component.

   Strings are lists of bytes. bart tables are modelled by lib/Ip.v. Constants come from gen/Consts_Firewall.v
   (printed from /repo/firewall/packet.go on every run). *)
From Coq Require Import List NArith ZArith Bool.
Import ListNotations.
From NV Require Import lib.Corr lib.Ip gen.Consts_Firewall.
Open Scope N_scope.

Definition str := list N.
Definition str_eqb : str -> str -> bool := list_eqb N.eqb.
Definition s_any : str := [97; 110; 121].                     (* "any" *)
Definition nonempty {A} (l : list A) : bool := match l with [] => false | _ => true end.
Definition str_mem (s : str) (l : list str) : bool := existsb (str_eqb s) l.
Definition odef {A} (d : A) (o : option A) : A := match o with Some x => x | None => d end.

(* a cidr / local_cidr argument of AddRule: "" | "any" | a string netip.ParsePrefix accepts | anything else *)
Inductive csel := CNone | CAny | CPfx (p : prefix) | CBad.

(* the arguments of Firewall.AddRule (the direction selects the table and is kept outside) *)
Record rule := mkRule {
  r_proto : N;            (* uint8 *)
  r_start : Z; r_end : Z; (* int32; exact while r_end < MaxInt32 (at MaxInt32 the Go loop does not terminate) *)
  r_groups : list str; r_host : str; r_cidr : csel; r_local : csel; r_ca_name : str; r_ca_sha : str }.

(* what NewFirewall keeps of the node's own certificate, plus firewall.default_local_cidr_any *)
Record fwconf := mkConf { my_nets : list prefix; my_unsafe : list prefix; dlca : bool }.

Record packet := mkPkt { pk_local : addr; pk_remote : addr; pk_lport : N; pk_rport : N; pk_proto : N; pk_frag : bool }.

(* the peer certificate as the firewall reads it *)
Record peer := mkPeer { p_name : str; p_groups : list str; p_issuer : str; p_nets : list prefix; p_unsafe : list prefix }.

(* CAPool.CAs: fingerprint -> name of that CA certificate. GetCAForCert fails on an empty issuer. *)
Definition pool := list (str * str).
Definition pool_ca_name (pl : pool) (issuer : str) : option str :=
  if nonempty issuer then aget str_eqb issuer pl else None.

(* ---------------------------------------------------------------------------------------------- *)
(* Part 1: the table *)

(* firewallLocalCIDR *)
Record lcidr := mkLc { lc_any : bool; lc_set : lite }.
Definition lc_empty := mkLc false [].

Definition lc_add (cf : fwconf) (sel : csel) (lc : lcidr) : option lcidr :=
  match sel with
  | CAny => Some (mkLc true (lc_set lc))
  | CNone =>
      if negb (nonempty (my_unsafe cf)) || dlca cf then Some (mkLc true (lc_set lc))
      else Some (mkLc (lc_any lc) (fold_left (fun s n => lite_insert n s) (my_nets cf) (lc_set lc)))
  | CPfx p => Some (mkLc (lc_any lc) (lite_insert p (lc_set lc)))
  | CBad => None
  end.

Definition lc_match (lc : lcidr) (pkt : packet) : bool :=
  lc_any lc || any_contains (lc_set lc) (pk_local pkt).
Definition olc_match (o : option lcidr) (pkt : packet) : bool :=
  match o with Some lc => lc_match lc pkt | None => false end.

(* FirewallRule *)
Record rnode := mkRn {
  rn_any : option lcidr;
  rn_groups : list (list str * lcidr);
  rn_hosts : list (str * lcidr);
  rn_cidr : @tbl lcidr }.
Definition rn_empty := mkRn None [] [] [].

(* FirewallRule.isAny *)
Definition is_any (groups : list str) (host : str) (cidr : csel) : bool :=
  (negb (nonempty groups) && negb (nonempty host) && match cidr with CNone => true | _ => false end)
  || str_mem s_any groups || str_eqb host s_any || match cidr with CAny => true | _ => false end.

Definition rn_add (cf : fwconf) (r : rule) (rn : rnode) : option rnode :=
  if is_any (r_groups r) (r_host r) (r_cidr r) then
    match lc_add cf (r_local r) (odef lc_empty (rn_any rn)) with
    | None => None
    | Some lc => Some (mkRn (Some lc) (rn_groups rn) (rn_hosts rn) (rn_cidr rn))
    end
  else
    match (if nonempty (r_groups r) then
             match lc_add cf (r_local r) lc_empty with
             | None => None
             | Some lc => Some (rn_groups rn ++ [(r_groups r, lc)])
             end
           else Some (rn_groups rn)) with
    | None => None
    | Some gs =>
      match (if nonempty (r_host r) then
               match lc_add cf (r_local r) (odef lc_empty (aget str_eqb (r_host r) (rn_hosts rn))) with
               | None => None
               | Some lc => Some (aset str_eqb (r_host r) lc (rn_hosts rn))
               end
             else Some (rn_hosts rn)) with
      | None => None
      | Some hs =>
        match (match r_cidr r with
               | CNone | CAny => Some (rn_cidr rn)         (* CAny is unreachable here: isAny *)
               | CPfx p =>
                   match lc_add cf (r_local r) (odef lc_empty (tbl_get p (rn_cidr rn))) with
                   | None => None
                   | Some lc => Some (tbl_insert p lc (rn_cidr rn))
                   end
               | CBad => None
               end) with
        | None => None
        | Some cs => Some (mkRn (rn_any rn) gs hs cs)
        end
      end
    end.

(* the loop over sg.Groups: found only if the list is non-empty and every group is in the certificate *)
Definition groups_all (gs : list str) (pr : peer) : bool :=
  nonempty gs && forallb (fun g => str_mem g (p_groups pr)) gs.

Definition rn_match (rn : rnode) (pkt : packet) (pr : peer) : bool :=
  olc_match (rn_any rn) pkt
  || existsb (fun g => groups_all (fst g) pr && lc_match (snd g) pkt) (rn_groups rn)
  || olc_match (aget str_eqb (p_name pr) (rn_hosts rn)) pkt
  || existsb (fun lc => lc_match lc pkt) (tbl_supernets (pk_remote pkt) (rn_cidr rn)).
Definition orn_match (o : option rnode) (pkt : packet) (pr : peer) : bool :=
  match o with Some rn => rn_match rn pkt pr | None => false end.

(* FirewallCA *)
Record canode := mkCa { ca_any : option rnode; ca_names : list (str * rnode); ca_shas : list (str * rnode) }.
Definition ca_empty := mkCa None [] [].

Definition ca_add (cf : fwconf) (r : rule) (ca : canode) : option canode :=
  if negb (nonempty (r_ca_sha r)) && negb (nonempty (r_ca_name r)) then
    match rn_add cf r (odef rn_empty (ca_any ca)) with
    | None => None
    | Some rn => Some (mkCa (Some rn) (ca_names ca) (ca_shas ca))
    end
  else
    match (if nonempty (r_ca_sha r) then
             match rn_add cf r (odef rn_empty (aget str_eqb (r_ca_sha r) (ca_shas ca))) with
             | None => None
             | Some rn => Some (aset str_eqb (r_ca_sha r) rn (ca_shas ca))
             end
           else Some (ca_shas ca)) with
    | None => None
    | Some shas =>
      match (if nonempty (r_ca_name r) then
               match rn_add cf r (odef rn_empty (aget str_eqb (r_ca_name r) (ca_names ca))) with
               | None => None
               | Some rn => Some (aset str_eqb (r_ca_name r) rn (ca_names ca))
               end
             else Some (ca_names ca)) with
      | None => None
      | Some names => Some (mkCa (ca_any ca) names shas)
      end
    end.

Definition ca_match (ca : canode) (pkt : packet) (pr : peer) (pl : pool) : bool :=
  orn_match (ca_any ca) pkt pr
  || orn_match (aget str_eqb (p_issuer pr) (ca_shas ca)) pkt pr
  || match pool_ca_name pl (p_issuer pr) with
     | None => false
     | Some n => orn_match (aget str_eqb n (ca_names ca)) pkt pr
     end.
Definition oca_match (o : option canode) (pkt : packet) (pr : peer) (pl : pool) : bool :=
  match o with Some ca => ca_match ca pkt pr pl | None => false end.

(* firewallPort: map[int32]*FirewallCA *)
Definition portmap := list (Z * canode).

Fixpoint port_add_loop (cf : fwconf) (r : rule) (n : nat) (i : Z) (pm : portmap) : option portmap :=
  match n with
  | O => Some pm
  | S n' =>
      match ca_add cf r (odef ca_empty (aget Z.eqb i pm)) with
      | None => None
      | Some ca => port_add_loop cf r n' (i + 1)%Z (aset Z.eqb i ca pm)
      end
  end.

(* for i := startPort; i <= endPort; i++ *)
Definition port_add (cf : fwconf) (r : rule) (s e : Z) (pm : portmap) : option portmap :=
  if (e <? s)%Z then None else port_add_loop cf r (Z.to_nat (e - s + 1)) s pm.

Definition is_icmp (p : N) : bool := (p =? proto_icmp) || (p =? proto_icmpv6).

Definition pkt_port (incoming : bool) (pkt : packet) : Z :=
  if pk_frag pkt then port_fragment
  else if incoming then Z.of_N (pk_lport pkt) else Z.of_N (pk_rport pkt).

Definition port_match (pm : portmap) (incoming : bool) (pkt : packet) (pr : peer) (pl : pool) : bool :=
  if is_icmp (pk_proto pkt) then oca_match (aget Z.eqb port_any pm) pkt pr pl
  else oca_match (aget Z.eqb (pkt_port incoming pkt) pm) pkt pr pl
       || oca_match (aget Z.eqb port_any pm) pkt pr pl.

(* FirewallTable *)
Record table := mkTab { t_tcp : portmap; t_udp : portmap; t_icmp : portmap; t_anyp : portmap }.
Definition empty_table := mkTab [] [] [] [].

(* Firewall.AddRule for one direction's table; None = error returned *)
Definition add_rule (cf : fwconf) (r : rule) (t : table) : option table :=
  if r_proto r =? proto_tcp then
    option_map (fun pm => mkTab pm (t_udp t) (t_icmp t) (t_anyp t)) (port_add cf r (r_start r) (r_end r) (t_tcp t))
  else if r_proto r =? proto_udp then
    option_map (fun pm => mkTab (t_tcp t) pm (t_icmp t) (t_anyp t)) (port_add cf r (r_start r) (r_end r) (t_udp t))
  else if is_icmp (r_proto r) then
    option_map (fun pm => mkTab (t_tcp t) (t_udp t) pm (t_anyp t)) (port_add cf r port_any port_any (t_icmp t))
  else if r_proto r =? proto_any then
    option_map (fun pm => mkTab (t_tcp t) (t_udp t) (t_icmp t) pm) (port_add cf r (r_start r) (r_end r) (t_anyp t))
  else None.

Fixpoint add_rules (cf : fwconf) (rs : list rule) (t : table) : option table :=
  match rs with
  | [] => Some t
  | r :: rest => match add_rule cf r t with None => None | Some t' => add_rules cf rest t' end
  end.

Definition table_match (t : table) (incoming : bool) (pkt : packet) (pr : peer) (pl : pool) : bool :=
  port_match (t_anyp t) incoming pkt pr pl
  || (if pk_proto pkt =? proto_tcp then port_match (t_tcp t) incoming pkt pr pl
      else if pk_proto pkt =? proto_udp then port_match (t_udp t) incoming pkt pr pl
      else if is_icmp (pk_proto pkt) then port_match (t_icmp t) incoming pkt pr pl
      else false).

(* ---------------------------------------------------------------------------------------------- *)
(* Part 2: the documented meaning of one rule *)

Definition in_range (s e p : Z) : bool := ((s <=? p) && (p <=? e))%Z.

(* an icmp rule has no ports: AddRule coerces them to "any" *)
Definition eff_ports (r : rule) : Z * Z :=
  if is_icmp (r_proto r) then (port_any, port_any) else (r_start r, r_end r).

(* any matches every protocol; tcp, udp match themselves; icmp (1 or 58 in a rule) matches ICMP and ICMPv6 *)
Definition proto_ok (r : rule) (pkt : packet) : bool :=
  (r_proto r =? proto_any)
  || ((r_proto r =? proto_tcp) && (pk_proto pkt =? proto_tcp))
  || ((r_proto r =? proto_udp) && (pk_proto pkt =? proto_udp))
  || (is_icmp (r_proto r) && is_icmp (pk_proto pkt)).

(* a range that includes 0 is "any port"; otherwise the packet's port must be in the range, where the port is the
   local port for incoming and the remote port for outgoing packets, -1 for a non-first fragment; ICMP packets
   have no port and match only "any port" rules *)
Definition port_ok (incoming : bool) (r : rule) (pkt : packet) : bool :=
  let '(s, e) := eff_ports r in
  in_range s e port_any || (negb (is_icmp (pk_proto pkt)) && in_range s e (pkt_port incoming pkt)).

(* no CA constraint, or the peer certificate's issuer is the given fingerprint, or the issuer is in the pool and
   named as given (a rule with both matches either) *)
Definition ca_ok (r : rule) (pr : peer) (pl : pool) : bool :=
  (negb (nonempty (r_ca_sha r)) && negb (nonempty (r_ca_name r)))
  || (nonempty (r_ca_sha r) && str_eqb (r_ca_sha r) (p_issuer pr))
  || (nonempty (r_ca_name r) &&
      match pool_ca_name pl (p_issuer pr) with Some n => str_eqb (r_ca_name r) n | None => false end).

(* local_cidr: any; a prefix; absent = any, unless the node has unsafe networks and default_local_cidr_any is off,
   in which case absent = the node's own overlay networks *)
Definition local_ok (cf : fwconf) (r : rule) (pkt : packet) : bool :=
  match r_local r with
  | CAny => true
  | CNone => if negb (nonempty (my_unsafe cf)) || dlca cf then true else any_contains (my_nets cf) (pk_local pkt)
  | CPfx p => contains p (pk_local pkt)
  | CBad => false
  end.

(* no selector at all, or an "any" wildcard in groups / host / cidr: everyone; otherwise any one of: every listed
   group is in the certificate, the certificate name is the host, the remote address is inside the cidr *)
Definition sel_ok (r : rule) (pkt : packet) (pr : peer) : bool :=
  is_any (r_groups r) (r_host r) (r_cidr r)
  || groups_all (r_groups r) pr
  || (nonempty (r_host r) && str_eqb (r_host r) (p_name pr))
  || match r_cidr r with CPfx p => contains p (pk_remote pkt) | _ => false end.

Definition rule_matches (cf : fwconf) (incoming : bool) (pkt : packet) (pr : peer) (pl : pool) (r : rule) : bool :=
  proto_ok r pkt && port_ok incoming r pkt && ca_ok r pr pl && local_ok cf r pkt && sel_ok r pkt pr.

(* AddRule returns nil exactly for these rules *)
Definition rule_valid (r : rule) : bool :=
  ((r_proto r =? proto_tcp) || (r_proto r =? proto_udp) || is_icmp (r_proto r) || (r_proto r =? proto_any))
  && (let '(s, e) := eff_ports r in (s <=? e)%Z)
  && match r_local r with CBad => false | _ => true end
  && (is_any (r_groups r) (r_host r) (r_cidr r) || match r_cidr r with CBad => false | _ => true end).

(* ---------------------------------------------------------------------------------------------- *)
(* Part 3: Drop *)

(* HostInfo.networks / vpnAddrs as built from the peer certificate (handshake: vpnAddrs = addresses of
   cert.Networks(); HostInfo.buildNetworks). mynets = the node's own overlay networks (myVpnNetworksTable). *)
Inductive nwtype := NwVPN | NwPeer | NwUnsafe.
Record hostinfo := mkHi { h_addrs : list addr; h_networks : option (@tbl nwtype) }.

Definition simple_case (mynets : lite) (pr : peer) : bool :=
  match p_nets pr, p_unsafe pr with
  | [n], [] => any_contains mynets (fst n)
  | _, _ => false
  end.

Definition networks_table (mynets : lite) (pr : peer) : @tbl nwtype :=
  fold_left (fun t u => tbl_insert u NwUnsafe t) (p_unsafe pr)
    (fold_left (fun t n => tbl_insert (full (fst n)) (if any_contains mynets (fst n) then NwVPN else NwPeer) t)
               (p_nets pr) []).

Definition hostinfo_of (mynets : lite) (pr : peer) : hostinfo :=
  mkHi (map fst (p_nets pr)) (if simple_case mynets pr then None else Some (networks_table mynets pr)).

Inductive verdict := VAllow | VInvalidRemote | VPeerRejected | VInvalidLocal | VNoRule | VPanic.

(* None = the remote address is accepted *)
Definition remote_check (h : hostinfo) (a : addr) : option verdict :=
  match h_networks h with
  | None =>
      match h_addrs h with
      | [] => Some VPanic                                      (* vpnAddrs[0] on an empty slice *)
      | a0 :: _ => if addr_eqb a0 a then None else Some VInvalidRemote
      end
  | Some t =>
      match lpm t a with
      | None => Some VInvalidRemote
      | Some NwVPN => None
      | Some NwPeer => Some VPeerRejected
      | Some NwUnsafe => None
      end
  end.

(* Firewall.routableNetworks: own addresses as full-length prefixes, plus own unsafe networks *)
Definition routable (cf : fwconf) : lite :=
  fold_left (fun s u => lite_insert u s) (my_unsafe cf)
    (fold_left (fun s n => lite_insert (full (fst n)) s) (my_nets cf) []).

Record firewall := mkFw { fw_conf : fwconf; fw_in : table; fw_out : table; fw_version : N }.
Definition fw_table (fw : firewall) (incoming : bool) : table := if incoming then fw_in fw else fw_out fw.

(* NewFirewall + AddRule for every inbound and outbound rule *)
Definition new_firewall (cf : fwconf) (inr outr : list rule) : option firewall :=
  match add_rules cf inr empty_table, add_rules cf outr empty_table with
  | Some ti, Some to => Some (mkFw cf ti to 0)
  | _, _ => None
  end.

(* Drop with the answer of inConns (conntrack map and routine-local cache) abstracted to [tracked] *)
Definition drop (fw : firewall) (incoming : bool) (pkt : packet) (h : hostinfo) (pr : peer) (pl : pool)
           (tracked : bool) : verdict :=
  match remote_check h (pk_remote pkt) with
  | Some v => v
  | None =>
      if negb (any_contains (routable (fw_conf fw)) (pk_local pkt)) then VInvalidLocal
      else if tracked then VAllow
      else if table_match (fw_table fw incoming) incoming pkt pr pl then VAllow else VNoRule
  end.

(* untimed conntrack: Conns map with the direction and rules version that admitted the flow *)
Record centry := mkCe { ce_incoming : bool; ce_version : N }.
Definition conns := list (packet * centry).

Definition pkt_eqb (a b : packet) : bool :=
  addr_eqb (pk_local a) (pk_local b) && addr_eqb (pk_remote a) (pk_remote b)
  && (pk_lport a =? pk_lport b) && (pk_rport a =? pk_rport b) && (pk_proto a =? pk_proto b)
  && Bool.eqb (pk_frag a) (pk_frag b).

Fixpoint adel (k : packet) (m : conns) : conns :=
  match m with
  | [] => []
  | (k', v) :: r => if pkt_eqb k k' then adel k r else (k', v) :: adel k r
  end.

(* inConns without cache and without expiry *)
Definition in_conns (fw : firewall) (cs : conns) (pkt : packet) (pr : peer) (pl : pool) : bool * conns :=
  match aget pkt_eqb pkt cs with
  | None => (false, cs)
  | Some c =>
      if ce_version c =? fw_version fw then (true, cs)
      else if table_match (fw_table fw (ce_incoming c)) (ce_incoming c) pkt pr pl
           then (true, aset pkt_eqb pkt (mkCe (ce_incoming c) (fw_version fw)) cs)
           else (false, adel pkt cs)
  end.

Definition add_conn (fw : firewall) (cs : conns) (pkt : packet) (incoming : bool) : conns :=
  aset pkt_eqb pkt (mkCe incoming (fw_version fw)) cs.

Definition drop_ct (fw : firewall) (cs : conns) (incoming : bool) (pkt : packet) (h : hostinfo) (pr : peer)
           (pl : pool) : verdict * conns :=
  match remote_check h (pk_remote pkt) with
  | Some v => (v, cs)
  | None =>
      if negb (any_contains (routable (fw_conf fw)) (pk_local pkt)) then (VInvalidLocal, cs)
      else
        let '(hit, cs1) := in_conns fw cs pkt pr pl in
        if hit then (VAllow, cs1)
        else if table_match (fw_table fw incoming) incoming pkt pr pl
             then (VAllow, add_conn fw cs1 pkt incoming)
             else (VNoRule, cs1)
  end.

(* ---------------------------------------------------------------------------------------------- *)
(* Part 4: Drop over an abstract match function m (direction -> packet -> peer -> pool -> bool). With
   m = table_match of the built tables this is drop / drop_ct (proofs/Firewall_drop.v: drop_ct_m_table); by C16_refine
   the same value is obtained with m = "some rule of that direction matches", which lets the correspondence evaluate
   rule sets whose port ranges are too wide to build entry by entry inside Coq (1-65535 is 65535 map entries). *)
Definition matcher := bool -> packet -> peer -> pool -> bool.

Definition in_conns_m (m : matcher) (ver : N) (cs : conns) (pkt : packet) (pr : peer) (pl : pool) : bool * conns :=
  match aget pkt_eqb pkt cs with
  | None => (false, cs)
  | Some c =>
      if ce_version c =? ver then (true, cs)
      else if m (ce_incoming c) pkt pr pl
           then (true, aset pkt_eqb pkt (mkCe (ce_incoming c) ver) cs)
           else (false, adel pkt cs)
  end.

Definition drop_m (m : matcher) (cf : fwconf) (incoming : bool) (pkt : packet) (h : hostinfo) (pr : peer) (pl : pool)
           (tracked : bool) : verdict :=
  match remote_check h (pk_remote pkt) with
  | Some v => v
  | None =>
      if negb (any_contains (routable cf) (pk_local pkt)) then VInvalidLocal
      else if tracked then VAllow
      else if m incoming pkt pr pl then VAllow else VNoRule
  end.

Definition drop_ct_m (m : matcher) (ver : N) (cf : fwconf) (cs : conns) (incoming : bool) (pkt : packet) (h : hostinfo)
           (pr : peer) (pl : pool) : verdict * conns :=
  match remote_check h (pk_remote pkt) with
  | Some v => (v, cs)
  | None =>
      if negb (any_contains (routable cf) (pk_local pkt)) then (VInvalidLocal, cs)
      else
        let '(hit, cs1) := in_conns_m m ver cs pkt pr pl in
        if hit then (VAllow, cs1)
        else if m incoming pkt pr pl
             then (VAllow, aset pkt_eqb pkt (mkCe incoming ver) cs1)
             else (VNoRule, cs1)
  end.

Definition table_matcher (fw : firewall) : matcher := fun inc => table_match (fw_table fw inc) inc.
Definition rules_matcher (cf : fwconf) (inr outr : list rule) : matcher :=
  fun inc pkt pr pl => existsb (rule_matches cf inc pkt pr pl) (if inc then inr else outr).

(* ---------------------------------------------------------------------------------------------- *)
(* Part 5: Interface.reloadFirewall. The node's certificate was re-issued with unsafe networks [unsafe'] (its overlay
   networks cannot change on reload, C42); [changed] = config.HasChanged("firewall"). The firewall is rebuilt when the
   config changed or the certified unsafe networks differ (slices.Equal: same prefixes in the same order) from the
   ones the firewall was built with; a rebuild that fails keeps the old firewall. rulesVersion is a uint16; conntrack is
   carried over unless the version wraps to 0. *)
Definition reload_triggered (fw : firewall) (unsafe' : list prefix) (changed : bool) : bool :=
  changed || negb (list_eqb pfx_eqb unsafe' (my_unsafe (fw_conf fw))).

Definition reload_firewall (fw : firewall) (cs : conns) (unsafe' : list prefix) (changed : bool) (dlca' : bool)
           (inr outr : list rule) : firewall * conns :=
  if reload_triggered fw unsafe' changed then
    match new_firewall (mkConf (my_nets (fw_conf fw)) unsafe' dlca') inr outr with
    | None => (fw, cs)
    | Some fw' =>
        let v := (fw_version fw + 1) mod 65536 in
        (mkFw (fw_conf fw') (fw_in fw') (fw_out fw') v, if v =? 0 then [] else cs)
    end
  else (fw, cs).

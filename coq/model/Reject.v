(* Model of /repo/iputil/packet.go CreateRejectPacket and helpers (ipv4CreateRejectICMPPacket,
   ipv4CreateRejectTCPPacket, ipv6CreateRejectPacket, ipv6CreateRejectICMPPacket, ipv6CreateRejectTCPPacket,
   tcpipChecksum, ipv4/ipv6PseudoheaderChecksum), plus the independent validator [reply_ok] of a reply and the
   predicate [must_be_silent].  Executable definitions only.

   [create_reject p cap] : p = the rejected packet, cap = cap(out).  Result Ok out (out = [] is Go's nil / empty
   slice: no reply) or Panic (a failed bounds check; every read is a checked read, see model/IpParse.v).
   Every byte of the reply is written by the code, so the previous content of the buffer does not matter. *)
From Coq Require Import List NArith Bool.
Import ListNotations.
From NV Require Import lib.Bytes lib.Ones lib.Corr gen.Consts_IpParse gen.Consts_Reject model.IpParse.
Open Scope N_scope.

(* ------------------------------------------------------------------------------------------------ *)
(* checksums as the code computes them                                                                *)

(* tcpipChecksum(data, csum uint32) uint16: accumulate big-endian words in a uint32 (odd tail byte is a high
   byte), `for csum > 0xffff { csum = (csum >> 16) + (csum & 0xffff) }`, return ^uint16(csum).
   Two folding steps always suffice for a 32-bit value; the loop is given 4. *)
Definition tcpip_checksum (data : list N) (init : N) : N :=
  cpl16 (w16 (fold_loop 4 (w32 (init + sum16 data)))).

(* ipv4PseudoheaderChecksum / ipv6PseudoheaderChecksum: uint32 sums *)
Definition pseudo_sum (src dst : list N) (proto len : N) : N :=
  w32 (sum16 src + sum16 dst + proto + len mod 65536 + len / 65536).

Definition be16 (v : N) : list N := be16_bytes v.

(* a block whose 16-bit checksum field sits between [pre] and [post]: the field is zero while summing *)
Definition with_csum (pre post : list N) (init : N) : list N :=
  pre ++ be16 (tcpip_checksum (pre ++ [0; 0] ++ post) init) ++ post.

(* ------------------------------------------------------------------------------------------------ *)
(* builders                                                                                           *)

Definition ip4_header (total proto : N) (src dst : list N) : list N :=
  with_csum ([69; 0] ++ be16 (w16 total) ++ [0; 0; 0; 0; 64; proto]) (src ++ dst) 0.

Definition ip6_header (payload_len nh : N) (src dst : list N) : list N :=
  [96; 0; 0; 0] ++ be16 (w16 payload_len) ++ [nh; 64] ++ src ++ dst.

Definition icmp_unreach (ty code : N) (body : list N) (init : N) : list N :=
  with_csum [ty; code] ([0; 0; 0; 0] ++ body) init.

(* the TCP RST built from the incoming segment tcp_in = packet[offset:] (at least 20 bytes), netfilter style *)
Definition tcp_rst (tcp_in : list N) (init : N) : res (list N) :=
  rd tcp_in 13 (fun fl =>
  rd tcp_in 12 (fun doff =>
  rds tcp_in 8 4 (fun ack_in =>
  rds tcp_in 4 4 (fun seq_in =>
  rds tcp_in 2 2 (fun dport =>
  rds tcp_in 0 2 (fun sport =>
  let in_ack := negb (N.land fl 16 =? 0) in
  let seq := if in_ack then be_dec ack_in else 0 in
  let in_syn := N.shiftr (N.land fl 2) 1 in
  let in_fin := N.land fl 1 in
  (* ackSeq = seq_in + inSyn + inFin + uint32(len(tcpIn)) - uint32(tcpIn[12]>>4)<<2     (uint32 arithmetic) *)
  let ack := if in_ack then 0
             else w32 (be_dec seq_in + in_syn + in_fin + w32 (blen tcp_in) + (4294967296 - N.shiftl (N.shiftr doff 4) 2)) in
  let flags := if in_ack then 4 else 20 in
  Ok (with_csum (dport ++ sport ++ be_enc 4 seq ++ be_enc 4 ack ++ [80; flags; 0; 0]) [0; 0] init))))))).

Definition is_icmp4_error (t : N) : bool := (t =? 3) || (t =? 4) || (t =? 5) || (t =? 11) || (t =? 12).
Definition is_icmp6_error (t : N) : bool := (1 <=? t) && (t <=? 4).

(* ipv4CreateRejectICMPPacket *)
Definition v4_icmp (p : list N) (cap : N) : res (list N) :=
  rd p 0 (fun b0 =>
  let ihl := N.land b0 15 * 4 in
  if blen p <? ihl then Ok [] else
  rd p 9 (fun proto =>
  let build (_ : unit) : res (list N) :=
    let plen := N.min (blen p) (ihl + 8) in
    let out_len := 20 + 8 + plen in
    if cap <? out_len then Ok [] else
    rds p 16 4 (fun dst => rds p 12 4 (fun src => rds p 0 plen (fun body =>
      Ok (ip4_header out_len 1 dst src ++ icmp_unreach 3 13 body 0)))) in
  if (proto =? 1) && (ihl <? blen p)
  then rd p ihl (fun t => if is_icmp4_error t then Ok [] else build tt)
  else build tt)).

(* ipv4CreateRejectTCPPacket *)
Definition v4_tcp (p : list N) (cap : N) : res (list N) :=
  rd p 0 (fun b0 =>
  let ihl := N.land b0 15 * 4 in
  if blen p <? ihl + 20 then Ok [] else
  if cap <? 40 then Ok [] else
  rds p 16 4 (fun dst => rds p 12 4 (fun src =>
  rds p ihl (blen p - ihl) (fun tcp_in =>
  match tcp_rst tcp_in (pseudo_sum dst src 6 20) with
  | Ok seg => Ok (ip4_header 40 6 dst src ++ seg)
  | Err e => Err e
  | Panic => Panic
  end)))).

(* ipv6CreateRejectICMPPacket *)
Definition v6_icmp (p : list N) (cap proto off : N) : res (list N) :=
  let build (_ : unit) : res (list N) :=
    let plen := N.min (blen p) 1000 in
    let out_len := 40 + 8 + plen in
    if cap <? out_len then Ok [] else
    rds p 24 16 (fun dst => rds p 8 16 (fun src => rds p 0 plen (fun body =>
      let payload_len := w16 (out_len - 40) in
      Ok (ip6_header payload_len 58 dst src ++ icmp_unreach 1 1 body (pseudo_sum dst src 58 payload_len))))) in
  if (proto =? 58) && (off <? blen p)
  then rd p off (fun t => if is_icmp6_error t then Ok [] else build tt)
  else build tt.

(* ipv6CreateRejectTCPPacket *)
Definition v6_tcp (p : list N) (cap off : N) : res (list N) :=
  if blen p <? off + 20 then Ok [] else
  if cap <? 60 then Ok [] else
  rds p 24 16 (fun dst => rds p 8 16 (fun src =>
  rds p off (blen p - off) (fun tcp_in =>
  match tcp_rst tcp_in (pseudo_sum dst src 6 20) with
  | Ok seg => Ok (ip6_header 20 6 dst src ++ seg)
  | Err e => Err e
  | Panic => Panic
  end))).

(* ipv6CreateRejectPacket *)
Definition v6_reject (p : list N) (cap : N) : res (list N) :=
  match find_upper p with
  | Panic => Panic
  | Err _ => Ok []
  | Ok (proto, off, isf, _) =>
      if isf then Ok []
      else if proto =? 6 then v6_tcp p cap off
      else v6_icmp p cap proto off
  end.

(* CreateRejectPacket *)
Definition create_reject (p : list N) (cap : N) : res (list N) :=
  if blen p <? 1 then Ok [] else
  rd p 0 (fun b0 =>
  let version := N.shiftr b0 4 in
  if version =? 4 then
    if blen p <? 20 then Ok [] else
    rd p 6 (fun b6 => rd p 7 (fun b7 =>
    if negb (N.land b6 31 =? 0) || negb (b7 =? 0) then Ok [] else      (* non-first fragment *)
    rd p 9 (fun proto => if proto =? 6 then v4_tcp p cap else v4_icmp p cap)))
  else if version =? 6 then
    if blen p <? 40 then Ok [] else v6_reject p cap
  else Ok []).

(* ------------------------------------------------------------------------------------------------ *)
(* The independent validator of a reply: decodes [out] and compares it with the rejected packet [p].

   IPv4 reply: version 4, IHL 5, total length = |out|, not fragmented, TTL 64, header checksum valid, source =
   p's destination, destination = p's source; protocol TCP iff p's protocol is TCP, ICMP otherwise.
   IPv6 reply: version 6, traffic class / flow label 0, payload length = |out| - 40, hop limit 64, addresses
   swapped; next header TCP iff p's upper layer protocol (reference walk of model/IpParse.v) is TCP, ICMPv6 otherwise.
   TCP: exactly 20 bytes, ports swapped, data offset 5, window 0, urgent 0, checksum valid over pseudo header + segment;
        incoming ACK set   => flags = RST,     seq = incoming ack, ack = 0
        incoming ACK clear => flags = RST|ACK, seq = 0, ack = incoming seq + SYN + FIN + (bytes after the IP header(s)
                              - 4 * data offset)  mod 2^32   (the segment length is taken from the byte count, as netfilter's
                              skb->len - ip_hdrlen - (doff << 2), the total-length field is not consulted).
   ICMPv4: type 3 code 13 (communication administratively prohibited), unused = 0, body = the first
           min(|p|, 4*IHL + 8) bytes of p (the original header and 8 bytes of its payload), checksum valid.
   ICMPv6: type 1 code 1 (administratively prohibited), unused = 0, body = the first min(|p|, 1000) bytes of p,
           checksum valid over pseudo header + message.
   |out| <= MaxRejectPacketSize. *)

Definition be16_at (l : list N) (i : nat) : N := nth i l 0 * 256 + nth (S i) l 0.
Definition be32_at (l : list N) (i : nat) : N := be_dec (slice l i 4).

Definition rst_ok (tcp_in seg : list N) : bool :=
  let fl := nth 13 tcp_in 0 in
  let ack_set := (fl / 16) mod 2 =? 1 in
  let syn := (fl / 2) mod 2 in
  let fin := fl mod 2 in
  let seglen_mod := (blen tcp_in + 4294967296 - 4 * (nth 12 tcp_in 0 / 16)) mod 4294967296 in
  (blen seg =? 20) &&
  (be16_at seg 0 =? be16_at tcp_in 2) && (be16_at seg 2 =? be16_at tcp_in 0) &&
  (nth 12 seg 0 =? 80) && (be16_at seg 14 =? 0) && (be16_at seg 18 =? 0) &&
  (if ack_set
   then (nth 13 seg 0 =? 4) && (be32_at seg 4 =? be32_at tcp_in 8) && (be32_at seg 8 =? 0)
   else (nth 13 seg 0 =? 20) && (be32_at seg 4 =? 0) &&
        (be32_at seg 8 =? (be32_at tcp_in 4 + syn + fin + seglen_mod) mod 4294967296)).

Definition icmp_ok (ty code : N) (body msg : list N) : bool :=
  (nth 0 msg 0 =? ty) && (nth 1 msg 0 =? code) && nlist_eqb (slice msg 4 4) [0; 0; 0; 0] && nlist_eqb (skipn 8 msg) body.

Definition reply4_ok (p out : list N) : bool :=
  let n := blen out in
  let ihl := 4 * (nth 0 p 0 mod 16) in
  let seg := skipn 20 out in
  (nth 0 p 0 / 16 =? 4) && (20 <=? blen p) &&
  (nth 0 out 0 =? 69) && (be16_at out 2 =? n) && (n <=? rej_max_reject_packet_size) &&
  (be16_at out 6 =? 0) && (nth 8 out 0 =? 64) &&
  valid_csumb (firstn 20 out) &&
  nlist_eqb (slice out 12 4) (slice p 16 4) && nlist_eqb (slice out 16 4) (slice p 12 4) &&
  (if nth 9 p 0 =? 6
   then (nth 9 out 0 =? 6) && rst_ok (skipn (N.to_nat ihl) p) seg &&
        valid_csumb (slice out 12 8 ++ [0; 6] ++ be16 (blen seg) ++ seg)
   else (nth 9 out 0 =? 1) &&
        icmp_ok 3 13 (firstn (N.to_nat (N.min (blen p) (ihl + 8))) p) seg && valid_csumb seg).

Definition reply6_ok (p out : list N) : bool :=
  let n := blen out in
  let seg := skipn 40 out in
  (nth 0 p 0 / 16 =? 6) && (40 <=? blen p) && (40 <=? n) &&
  nlist_eqb (firstn 4 out) [96; 0; 0; 0] && (be16_at out 4 =? n - 40) && (n <=? rej_max_reject_packet_size) &&
  (nth 7 out 0 =? 64) &&
  nlist_eqb (slice out 8 16) (slice p 24 16) && nlist_eqb (slice out 24 16) (slice p 8 16) &&
  match spec_walk p with
  | CDone nh off payload _ _ =>
      let pseudo := slice out 8 32 ++ be_enc 4 (blen seg) ++ [0; 0; 0; nth 6 out 0] in
      if nh =? 6
      then (nth 6 out 0 =? 6) && rst_ok payload seg && valid_csumb (pseudo ++ seg)
      else (nth 6 out 0 =? 58) &&
           icmp_ok 1 1 (firstn (N.to_nat (N.min (blen p) 1000)) p) seg && valid_csumb (pseudo ++ seg)
  | _ => false
  end.

Definition reply_ok (p out : list N) : bool :=
  if nth 0 out 0 / 16 =? 4 then reply4_ok p out
  else if nth 0 out 0 / 16 =? 6 then reply6_ok p out
  else false.

(* the size of the reply CreateRejectPacket would like to send *)
Definition reply_size (p : list N) : N :=
  if nth 0 p 0 / 16 =? 4 then
    if nth 9 p 0 =? 6 then 40 else 28 + N.min (blen p) (4 * (nth 0 p 0 mod 16) + 8)
  else
    match spec_walk p with
    | CDone nh _ _ _ _ => if nh =? 6 then 60 else 48 + N.min (blen p) 1000
    | _ => 0
    end.

(* the situations in which no reply may be sent:
   - a non-first fragment (IPv4: fragment offset <> 0; IPv6: the chain reaches a fragment header with offset <> 0),
   - an ICMP error message (ICMPv4 types 3, 4, 5, 11, 12; ICMPv6 types 1..4, the assigned error types),
   - an output buffer smaller than the reply. *)
Definition must_be_silent (p : list N) (cap : N) : bool :=
  match p with
  | [] => true
  | b0 :: _ =>
      if b0 / 16 =? 4 then
        (20 <=? blen p) &&
        (let ihl := 4 * (b0 mod 16) in
         negb (be16_at p 6 mod 8192 =? 0) ||
         ((nth 9 p 0 =? 1) && (ihl <? blen p) && is_icmp4_error (nth (N.to_nat ihl) p 0)) ||
         (cap <? reply_size p))
      else if b0 / 16 =? 6 then
        (40 <=? blen p) &&
        match spec_walk p with
        | CNonFirst _ _ _ => true
        | CDone nh _ payload _ _ =>
            ((nh =? 58) && match payload with t :: _ => is_icmp6_error t | [] => false end) || (cap <? reply_size p)
        | CBad => false
        end
      else false
  end.

(* ------------------------------------------------------------------------------------------------ *)
(* The callers (inside.go).  rejectInside(packet, out, q): out is the routine's reject buffer of [buflen] bytes
   (make([]byte, mtu)), the reply is written to the tun queue.  rejectOutside(packet, ..., rejectBuf, q): the
   reply is built in the second half of the [buflen]-byte scratch buffer, dropped if it exceeds
   MaxRejectPacketSize, and handed to the tunnel.  Result: the list of replies emitted (none or one).
   The reject switches (firewall.OutboundSendReject / InboundSendReject) are on. *)
Definition reject_inside (p : list N) (buflen : N) : res (list (list N)) :=
  match create_reject p buflen with
  | Ok [] => Ok []
  | Ok o => Ok [o]
  | Err e => Err e
  | Panic => Panic
  end.

Definition outside_cap (buflen : N) : N := buflen - buflen / 2.

Definition reject_outside (p : list N) (buflen : N) : res (list (list N)) :=
  match create_reject p (outside_cap buflen) with
  | Ok [] => Ok []
  | Ok o => if rej_max_reject_packet_size <? blen o then Ok [] else Ok [o]
  | Err e => Err e
  | Panic => Panic
  end.

(* what a caller may emit for the rejected packet p: nothing, or exactly one reply that passes the validator
   against the whole packet p, is within the documented maximum, and is not an answer to a packet that must not be answered *)
Definition emitted_ok (p : list N) (cap : N) (ws : list (list N)) : bool :=
  match ws with
  | [] => true
  | [w] => reply_ok p w && (blen w <=? rej_max_reject_packet_size) && negb (must_be_silent p cap)
  | _ => false
  end.

(* Segment: executable model of nebula's TSO/USO superpacket segmentation.
   Mirrors /repo/overlay/tio/virtio/segment_linux.go (CheckValid, CorrectHdrLen, segCount, basePseudoSum,
   baseIPv4HdrSum, baseTCPHdrSum, SegmentTCP, SegmentUDP, foldComplement) and the dispatch of
   /repo/overlay/tio (decodeRead's superpacket branch, protoFromGSOType, SegmentSuperpacket).

   Conventions
     - bytes are N values (< 256), packets are [list N]; lengths and offsets are [nat];
     - every fixed-width Go expression is written with its wrap-around (w16 / w32 / w64);
       `x & 0x0f` is `x mod 16`, `x >> 4` is `x / 16`, `x &^ m` is [N.ldiff x m];
     - checksum.Checksum(buf, init) is [osum buf init] = fold16 (init + sum16 buf): the NOT complemented
       one's-complement sum (that the assembly returns exactly this value is property C25);
     - the Go code works in place: segment i is the slice pkt[i*gso : i*gso+hdrLen+len_i] after the saved
       header has been stamped at i*gso and patched.  [segment_tcp]/[segment_udp] below give each segment
       as  patched-IP-header ++ patched-L4-header ++ payload chunk  with the incremental checksum
       arithmetic of the code;  [segment_tcp_inplace]/[segment_udp_inplace] replay the buffer
       manipulation (stamp, in-place field writes at absolute offsets, slice) literally; proofs/ shows the
       two coincide;
     - [segments_ref_tcp]/[segments_ref_udp] are the from-scratch reference: every segment is built from
       the original header and its payload chunk by setting the fields and computing each checksum over
       the complete region (IPv4 header; pseudo-header ++ L4 header ++ payload) with the field zeroed.
   No proofs in this file. *)
From Coq Require Import List NArith Bool Arith.
Import ListNotations.
From NV Require Import lib.Bytes lib.Ones.
Open Scope N_scope.

(* ---------------------------------------------------------------------------------------------- *)
(** * byte buffers *)

Definition bat (l : list N) (i : nat) : N := nth i l 0.
Definition rd16 (l : list N) (off : nat) : N := bat l off * 256 + bat l (S off).
Definition rd32 (l : list N) (off : nat) : N := rd16 l off * 65536 + rd16 l (off + 2).
(* l[a:b] *)
Definition sub (l : list N) (a b : nat) : list N := firstn (b - a) (skipn a l).
(* copy(l[off:], bs) *)
Definition wr (l : list N) (off : nat) (bs : list N) : list N :=
  firstn off l ++ bs ++ skipn (off + length bs) l.
Definition wr8 (l : list N) (off : nat) (v : N) : list N := wr l off [v mod 256].
(* binary.BigEndian.PutUint16 / PutUint32 *)
Definition wr16 (l : list N) (off : nat) (v : N) : list N := wr l off (be16_bytes v).
Definition wr32 (l : list N) (off : nat) (v : N) : list N :=
  wr16 (wr16 l off ((v / 65536) mod 65536)) (off + 2) (v mod 65536).

(* ---------------------------------------------------------------------------------------------- *)
(** * arithmetic helpers of segment_linux.go *)

Definition checksum (buf : list N) (init : N) : N := osum buf init.

(* sum = (sum & 0xffff) + (sum >> 16), twice *)
Definition fold2 (x : N) : N := fold_step (fold_step x).
(* foldComplement(sum uint32) uint16 *)
Definition fold_complement (sum : N) : N := cpl16 (w16 (fold2 sum)).

Definition seg_count (payLen g : nat) : nat :=
  let n := ((payLen + g - 1) / g)%nat in if (n =? 0)%nat then 1%nat else n.

Definition IPPROTO_TCP : N := 6.
Definition IPPROTO_UDP : N := 17.

Definition is_v4 (pkt : list N) : bool := bat pkt 0 / 16 =? 4.
Definition ihl_of (pkt : list N) : nat := (N.to_nat (bat pkt 0 mod 16) * 4)%nat.

Definition base_pseudo_sum (pkt : list N) (isV4 : bool) (proto : N) : N :=
  if isV4 then w32 (checksum (sub pkt 12 20) 0 + proto)
  else w32 (checksum (sub pkt 8 40) 0 + proto).

Definition base_ipv4_hdr_sum (pkt : list N) (cs : nat) : option N :=
  let ihl := ihl_of pkt in
  if (ihl <? 20)%nat || (cs <? ihl)%nat then None
  else Some (fold2 (w32 (checksum (firstn ihl pkt) 0 + cpl16 (rd16 pkt 2) + cpl16 (rd16 pkt 10) + cpl16 (rd16 pkt 4)))).

Definition base_tcp_hdr_sum (pkt : list N) (cs hl : nat) : N :=
  let seq := rd32 pkt (cs + 4) in
  let flags := bat pkt (cs + 13) in
  fold2 (w32 (checksum (sub pkt cs hl) 0 + cpl16 (w16 (seq / 65536)) + cpl16 (w16 seq) + cpl16 flags
              + cpl16 (rd16 pkt (cs + 16)))).

(* the L3 patch of one segment, on the L3 part [iph] = pkt[:csumStart] of the saved header *)
Definition ip_patch (isV4 : bool) (iph : list N) (hl segPayLen i : nat) (origID baseIP : N) : list N :=
  if isV4 then
    let totalLen := N.of_nat (hl + segPayLen) in
    let segID := w16 (origID + w16 (N.of_nat i)) in
    let s := wr16 iph 2 (w16 totalLen) in
    let s := wr16 s 4 segID in
    wr16 s 10 (fold_complement (w32 (baseIP + w32 totalLen + segID)))
  else
    (* uint16(headerLen - ipv6FixedLen + segPayLen): int arithmetic, may be negative, then truncated *)
    wr16 iph 4 (w16 (65536 + N.of_nat (hl + segPayLen) - 40)).

(* flags of segment i of numSeg: CWR (0x80) kept only on the first, FIN|PSH (0x09) only on the last *)
Definition tcp_flags (origFlags : N) (i numSeg : nat) : N :=
  let f := if (i =? 0)%nat then origFlags else N.ldiff origFlags 128 in
  if (i =? numSeg - 1)%nat then f else N.ldiff f 9.

Definition seg_start (g i : nat) : nat := (i * g)%nat.
Definition seg_end (g payLen i : nat) : nat := Nat.min (i * g + g) payLen.

(* payload chunk i as the code addresses it: pkt[headerLen+segStart : headerLen+segEnd] *)
Definition chunk_of (pkt : list N) (hl g i : nat) : list N :=
  let payLen := (length pkt - hl)%nat in
  sub pkt (hl + seg_start g i) (hl + seg_end g payLen i).

(* ---------------------------------------------------------------------------------------------- *)
(** * SegmentTCP *)

Definition tcp_l4_patch (l4h : list N) (segSeq segFlags csum : N) : list N :=
  let s := wr32 l4h 4 segSeq in
  let s := wr8 s 13 segFlags in
  wr16 s 16 csum.

Definition tcp_seg (pkt : list N) (hl cs g : nat) (isV4 : bool) (tcpHdrLen numSeg : nat)
    (origSeq origFlags baseProto baseTcp origID baseIP : N) (i : nat) : list N :=
  let payLen := (length pkt - hl)%nat in
  let segStart := seg_start g i in
  let segPayLen := (seg_end g payLen i - segStart)%nat in
  let chunk := chunk_of pkt hl g i in
  let segSeq := w32 (origSeq + w32 (N.of_nat segStart)) in
  let segFlags := tcp_flags origFlags i numSeg in
  let tcpLen := N.of_nat (tcpHdrLen + segPayLen) in
  let paySum := checksum chunk 0 in
  let wide := w64 (baseTcp + paySum + baseProto + segSeq + segFlags + tcpLen) in
  let wide := fold32_step (fold32_step wide) in
  ip_patch isV4 (firstn cs pkt) hl segPayLen i origID baseIP
  ++ tcp_l4_patch (sub pkt cs hl) segSeq segFlags (fold_complement (w32 wide))
  ++ chunk.

(* None = an error is returned before anything is yielded *)
Definition segment_tcp (pkt : list N) (hl cs g : nat) : option (list (list N)) :=
  if (g =? 0)%nat then None else
  if (cs =? 0)%nat then None else
  if (120 <? hl)%nat then None else
  let isV4 := is_v4 pkt in
  let tcpHdrLen := (N.to_nat (bat pkt (cs + 12) / 16) * 4)%nat in
  let payLen := (length pkt - hl)%nat in
  let numSeg := seg_count payLen g in
  let origSeq := rd32 pkt (cs + 4) in
  let origFlags := bat pkt (cs + 13) in
  let baseProto := base_pseudo_sum pkt isV4 IPPROTO_TCP in
  let baseTcp := base_tcp_hdr_sum pkt cs hl in
  match (if isV4 then option_map (fun b => (rd16 pkt 4, b)) (base_ipv4_hdr_sum pkt cs) else Some (0, 0)) with
  | None => None
  | Some (origID, baseIP) =>
      Some (map (tcp_seg pkt hl cs g isV4 tcpHdrLen numSeg origSeq origFlags baseProto baseTcp origID baseIP)
                (seq 0 numSeg))
  end.

(* ---------------------------------------------------------------------------------------------- *)
(** * SegmentUDP *)

Definition udp_seg (pkt : list N) (hl cs g : nat) (isV4 : bool) (baseProto origID baseIP : N) (i : nat) : list N :=
  let payLen := (length pkt - hl)%nat in
  let segStart := seg_start g i in
  let segPayLen := (seg_end g payLen i - segStart)%nat in
  let chunk := chunk_of pkt hl g i in
  let udpLen := N.of_nat (8 + segPayLen) in
  let l4 := wr16 (sub pkt cs hl) 4 (w16 udpLen) in
  let l4 := wr l4 6 [0; 0] in
  let pseudo := fold2 (w32 (baseProto + w32 udpLen)) in
  let csum := cpl16 (checksum (l4 ++ chunk) (w16 pseudo)) in
  let csum := if csum =? 0 then 65535 else csum in
  ip_patch isV4 (firstn cs pkt) hl segPayLen i origID baseIP ++ wr16 l4 6 csum ++ chunk.

Definition segment_udp (pkt : list N) (hl cs g : nat) : option (list (list N)) :=
  if (g =? 0)%nat then None else
  if (cs =? 0)%nat then None else
  if (120 <? hl)%nat then None else
  if negb (hl =? cs + 8)%nat then None else
  let isV4 := is_v4 pkt in
  let payLen := (length pkt - hl)%nat in
  let numSeg := seg_count payLen g in
  let baseProto := base_pseudo_sum pkt isV4 IPPROTO_UDP in
  match (if isV4 then option_map (fun b => (rd16 pkt 4, b)) (base_ipv4_hdr_sum pkt cs) else Some (0, 0)) with
  | None => None
  | Some (origID, baseIP) =>
      Some (map (udp_seg pkt hl cs g isV4 baseProto origID baseIP) (seq 0 numSeg))
  end.

(* ---------------------------------------------------------------------------------------------- *)
(** * the in-place versions: the buffer is threaded through the loop exactly as in the Go code *)

Definition ip_patch_at (isV4 : bool) (buf : list N) (base hl segPayLen i : nat) (origID baseIP : N) : list N :=
  if isV4 then
    let totalLen := N.of_nat (hl + segPayLen) in
    let segID := w16 (origID + w16 (N.of_nat i)) in
    let s := wr16 buf (base + 2) (w16 totalLen) in
    let s := wr16 s (base + 4) segID in
    wr16 s (base + 10) (fold_complement (w32 (baseIP + w32 totalLen + segID)))
  else
    wr16 buf (base + 4) (w16 (65536 + N.of_nat (hl + segPayLen) - 40)).

(* one loop iteration: returns the buffer after the iteration and the yielded slice *)
Definition tcp_iter (savedHdr : list N) (hl cs g : nat) (isV4 : bool) (tcpHdrLen payLen numSeg : nat)
    (origSeq origFlags baseProto baseTcp origID baseIP : N) (buf : list N) (i : nat) : list N * list N :=
  let segStart := seg_start g i in
  let segEnd := seg_end g payLen i in
  let segPayLen := (segEnd - segStart)%nat in
  let segLen := (hl + segPayLen)%nat in
  let headerOff := (i * g)%nat in
  let buf := if (0 <? i)%nat then wr buf headerOff savedHdr else buf in
  let segSeq := w32 (origSeq + w32 (N.of_nat segStart)) in
  let segFlags := tcp_flags origFlags i numSeg in
  let buf := ip_patch_at isV4 buf headerOff hl segPayLen i origID baseIP in
  let buf := wr32 buf (headerOff + (cs + 4)) segSeq in
  let buf := wr8 buf (headerOff + (cs + 13)) segFlags in
  let tcpLen := N.of_nat (tcpHdrLen + segPayLen) in
  let paySum := checksum (sub buf (hl + segStart) (hl + segEnd)) 0 in
  let wide := w64 (baseTcp + paySum + baseProto + segSeq + segFlags + tcpLen) in
  let wide := fold32_step (fold32_step wide) in
  let buf := wr16 buf (headerOff + (cs + 16)) (fold_complement (w32 wide)) in
  (buf, sub buf headerOff (headerOff + segLen)).

Fixpoint run_iters (iter : list N -> nat -> list N * list N) (buf : list N) (is : list nat) : list (list N) :=
  match is with
  | [] => []
  | i :: r => let (buf', seg) := iter buf i in seg :: run_iters iter buf' r
  end.

Definition segment_tcp_inplace (pkt : list N) (hl cs g : nat) : option (list (list N)) :=
  if (g =? 0)%nat then None else
  if (cs =? 0)%nat then None else
  if (120 <? hl)%nat then None else
  let isV4 := is_v4 pkt in
  let tcpHdrLen := (N.to_nat (bat pkt (cs + 12) / 16) * 4)%nat in
  let payLen := (length pkt - hl)%nat in
  let numSeg := seg_count payLen g in
  let origSeq := rd32 pkt (cs + 4) in
  let origFlags := bat pkt (cs + 13) in
  let baseProto := base_pseudo_sum pkt isV4 IPPROTO_TCP in
  let baseTcp := base_tcp_hdr_sum pkt cs hl in
  match (if isV4 then option_map (fun b => (rd16 pkt 4, b)) (base_ipv4_hdr_sum pkt cs) else Some (0, 0)) with
  | None => None
  | Some (origID, baseIP) =>
      Some (run_iters (tcp_iter (firstn hl pkt) hl cs g isV4 tcpHdrLen payLen numSeg origSeq origFlags baseProto
                                baseTcp origID baseIP) pkt (seq 0 numSeg))
  end.

Definition udp_iter (savedHdr : list N) (hl cs g : nat) (isV4 : bool) (payLen : nat)
    (baseProto origID baseIP : N) (buf : list N) (i : nat) : list N * list N :=
  let segStart := seg_start g i in
  let segEnd := seg_end g payLen i in
  let segPayLen := (segEnd - segStart)%nat in
  let segLen := (hl + segPayLen)%nat in
  let headerOff := (i * g)%nat in
  let buf := if (0 <? i)%nat then wr buf headerOff savedHdr else buf in
  let udpLen := N.of_nat (8 + segPayLen) in
  let buf := ip_patch_at isV4 buf headerOff hl segPayLen i origID baseIP in
  let buf := wr16 buf (headerOff + (cs + 4)) (w16 udpLen) in
  let buf := wr buf (headerOff + (cs + 6)) [0; 0] in
  let pseudo := fold2 (w32 (baseProto + w32 udpLen)) in
  let csum := cpl16 (checksum (sub buf (headerOff + cs) (headerOff + segLen)) (w16 pseudo)) in
  let csum := if csum =? 0 then 65535 else csum in
  let buf := wr16 buf (headerOff + (cs + 6)) csum in
  (buf, sub buf headerOff (headerOff + segLen)).

Definition segment_udp_inplace (pkt : list N) (hl cs g : nat) : option (list (list N)) :=
  if (g =? 0)%nat then None else
  if (cs =? 0)%nat then None else
  if (120 <? hl)%nat then None else
  if negb (hl =? cs + 8)%nat then None else
  let isV4 := is_v4 pkt in
  let payLen := (length pkt - hl)%nat in
  let numSeg := seg_count payLen g in
  let baseProto := base_pseudo_sum pkt isV4 IPPROTO_UDP in
  match (if isV4 then option_map (fun b => (rd16 pkt 4, b)) (base_ipv4_hdr_sum pkt cs) else Some (0, 0)) with
  | None => None
  | Some (origID, baseIP) =>
      Some (run_iters (udp_iter (firstn hl pkt) hl cs g isV4 payLen baseProto origID baseIP) pkt (seq 0 numSeg))
  end.

(* ---------------------------------------------------------------------------------------------- *)
(** * the from-scratch reference *)

Definition be32_bytes (v : N) : list N := be16_bytes ((v / 65536) mod 65536) ++ be16_bytes (v mod 65536).

(* the pseudo-header of RFC 793/768 (IPv4) and RFC 8200 section 8.1 (IPv6), read from the segment's own addresses *)
Definition pseudo_hdr (isV4 : bool) (seg : list N) (proto l4len : N) : list N :=
  if isV4 then sub seg 12 20 ++ [0; proto] ++ be16_bytes l4len
  else sub seg 8 40 ++ be32_bytes l4len ++ [0; 0; 0; proto].

(* payload chunk i of a payload cut into pieces of g bytes *)
Definition chunk_ref (payload : list N) (g i : nat) : list N := firstn g (skipn (i * g) payload).

(* set total length (v4) / payload length (v6) from the real segment length, the ID, and a freshly computed
   header checksum over the complete IPv4 header with the checksum field zeroed *)
Definition ref_ip (isV4 : bool) (iph : list N) (segLen i : nat) (origID : N) : list N :=
  if isV4 then
    let s := wr16 iph 2 (N.of_nat segLen) in
    let s := wr16 s 4 ((origID + N.of_nat i) mod 65536) in
    let z := wr16 s 10 0 in
    wr16 z 10 (csum16 (firstn (ihl_of iph) z) 0)
  else wr16 iph 4 (N.of_nat (segLen - 40)).

Definition ref_tcp_seg (isV4 : bool) (iph l4h : list N) (numSeg i : nat) (payOff : nat) (chunk : list N) : list N :=
  let segLen := (length iph + length l4h + length chunk)%nat in
  let iph' := ref_ip isV4 iph segLen i (rd16 iph 4) in
  let s := wr32 l4h 4 ((rd32 l4h 4 + N.of_nat payOff) mod 4294967296) in
  let s := wr8 s 13 (tcp_flags (bat l4h 13) i numSeg) in
  let z := wr16 s 16 0 in
  let l4len := N.of_nat (length l4h + length chunk) in
  iph' ++ wr16 z 16 (csum16 (pseudo_hdr isV4 iph' IPPROTO_TCP l4len ++ z ++ chunk) 0) ++ chunk.

Definition segments_ref_tcp (pkt : list N) (hl cs g : nat) : list (list N) :=
  let payload := skipn hl pkt in
  let numSeg := seg_count (length payload) g in
  map (fun i => ref_tcp_seg (is_v4 pkt) (firstn cs pkt) (sub pkt cs hl) numSeg i (i * g) (chunk_ref payload g i))
      (seq 0 numSeg).

Definition ref_udp_seg (isV4 : bool) (iph l4h : list N) (i : nat) (chunk : list N) : list N :=
  let segLen := (length iph + length l4h + length chunk)%nat in
  let iph' := ref_ip isV4 iph segLen i (rd16 iph 4) in
  let l4len := N.of_nat (length l4h + length chunk) in
  let s := wr16 l4h 4 l4len in
  let z := wr16 s 6 0 in
  let c := csum16 (pseudo_hdr isV4 iph' IPPROTO_UDP l4len ++ z ++ chunk) 0 in
  (* RFC 768: a computed zero is transmitted as all ones *)
  iph' ++ wr16 z 6 (if c =? 0 then 65535 else c) ++ chunk.

Definition segments_ref_udp (pkt : list N) (hl cs g : nat) : list (list N) :=
  let payload := skipn hl pkt in
  let numSeg := seg_count (length payload) g in
  map (fun i => ref_udp_seg (is_v4 pkt) (firstn cs pkt) (sub pkt cs hl) i (chunk_ref payload g i)) (seq 0 numSeg).

(* ---------------------------------------------------------------------------------------------- *)
(** * virtio_net_hdr validation and dispatch (decodeRead's superpacket branch + SegmentSuperpacket) *)

Record vhdr := mkVhdr { v_flags : N; v_gso : N; v_hdrlen : N; v_gsosize : N; v_csumstart : N; v_csumoff : N }.

Definition GSO_NONE : N := 0.
Definition GSO_TCPV4 : N := 1.
Definition GSO_TCPV6 : N := 4.
Definition GSO_UDP_L4 : N := 5.
Definition gso_type (h : vhdr) : N := N.ldiff (v_gso h) 128.          (* gsoType &^ GSO_ECN *)
Definition has_ecn (h : vhdr) : bool := negb (N.land (v_gso h) 128 =? 0).

(* CheckValid: true = no error *)
Definition check_valid (pkt : list N) (h : vhdr) : bool :=
  if negb (N.land (v_flags h) 4 =? 0) then false else             (* RSC_INFO *)
  if (length pkt <? 20)%nat then false else
  let ver := bat pkt 0 / 16 in
  if (ver =? 6) && (length pkt <? 40)%nat then false else
  let t := gso_type h in
  if negb (t =? GSO_NONE) && (v_gsosize h =? 0) then false else
  if has_ecn h && negb ((t =? GSO_TCPV4) || (t =? GSO_TCPV6)) then false else
  if t =? GSO_TCPV4 then ver =? 4
  else if t =? GSO_TCPV6 then ver =? 6
  else (ver =? 4) || (ver =? 6).

(* CorrectHdrLen: the corrected HdrLen, or None for an error; all sums are uint16 sums *)
Definition correct_hdr_len (pkt : list N) (h : vhdr) : option N :=
  let cs := v_csumstart h in
  let len := N.of_nat (length pkt) in
  match (if gso_type h =? GSO_UDP_L4 then Some (w16 (cs + 8))
         else if len <=? w16 (cs + 12) then None
         else let tcpHLen := w8 (bat pkt (N.to_nat (w16 (cs + 12))) / 16 * 4) in
              if (tcpHLen <? 20) || (60 <? tcpHLen) then None else Some (w16 (cs + tcpHLen))) with
  | None => None
  | Some hl =>
      if len <? hl then None else
      if hl <? cs then None else
      if len <=? w16 (cs + v_csumoff h) + 1 then None else Some hl
  end.

Inductive decoded :=
| DErr                                  (* the read is dropped *)
| DPlain                                (* GSO_NONE: one ordinary datagram (FinishChecksum is outside C24) *)
| DSuper (tcp : bool) (hl cs g : nat).  (* GSOInfo{Proto, HdrLen, CsumStart, Size} *)

Definition decode_read (pkt : list N) (h : vhdr) : decoded :=
  if (length pkt =? 0)%nat then DErr else
  if gso_type h =? GSO_NONE then DPlain else
  if negb (check_valid pkt h) then DErr else
  match correct_hdr_len pkt h with
  | None => DErr
  | Some hl =>
      let t := gso_type h in
      if (t =? GSO_TCPV4) || (t =? GSO_TCPV6) then DSuper true (N.to_nat hl) (N.to_nat (v_csumstart h)) (N.to_nat (v_gsosize h))
      else if t =? GSO_UDP_L4 then DSuper false (N.to_nat hl) (N.to_nat (v_csumstart h)) (N.to_nat (v_gsosize h))
      else DErr
  end.

(* SegmentSuperpacket on what decodeRead produced *)
Definition segment_super (pkt : list N) (d : decoded) : option (list (list N)) :=
  match d with
  | DErr => None
  | DPlain => Some [pkt]
  | DSuper true hl cs g => if (g =? 0)%nat then Some [pkt] else segment_tcp pkt hl cs g
  | DSuper false hl cs g => if (g =? 0)%nat then Some [pkt] else segment_udp pkt hl cs g
  end.

(* ---------------------------------------------------------------------------------------------- *)
(** * well-formed superpackets (the hypotheses of the theorems) *)

Definition tcp_hdr_len (pkt : list N) (cs : nat) : nat := (N.to_nat (bat pkt (cs + 12) / 16) * 4)%nat.

(* geometry shared by TCP and UDP: hl = L3+L4 header length, cs = L3 header length, g = segment size *)
Definition wf_common (pkt : list N) (hl cs g : nat) : Prop :=
  bytes_ok pkt = true /\ (1 <= g)%nat /\ (hl <= length pkt)%nat /\ (hl <= 120)%nat /\
  (* every segment fits the 16-bit length fields *)
  N.of_nat (hl + Nat.min g (length pkt - hl)) <= 65535 /\
  ((bat pkt 0 / 16 = 4 /\ (20 <= ihl_of pkt <= cs)%nat) \/ (bat pkt 0 / 16 = 6 /\ (40 <= cs)%nat)).

Definition wf_tcp (pkt : list N) (hl cs g : nat) : Prop :=
  wf_common pkt hl cs g /\ (20 <= tcp_hdr_len pkt cs)%nat /\ hl = (cs + tcp_hdr_len pkt cs)%nat.

Definition wf_udp (pkt : list N) (hl cs g : nat) : Prop :=
  wf_common pkt hl cs g /\ hl = (cs + 8)%nat.

(* boolean forms (used by the correspondence to decide whether the property's hypotheses hold for a case) *)
Definition wf_commonb (pkt : list N) (hl cs g : nat) : bool :=
  bytes_ok pkt && (1 <=? g)%nat && (hl <=? length pkt)%nat && (hl <=? 120)%nat &&
  (N.of_nat (hl + Nat.min g (length pkt - hl)) <=? 65535) &&
  (((bat pkt 0 / 16 =? 4) && (20 <=? ihl_of pkt)%nat && (ihl_of pkt <=? cs)%nat) ||
   ((bat pkt 0 / 16 =? 6) && (40 <=? cs)%nat)).
Definition wf_tcpb (pkt : list N) (hl cs g : nat) : bool :=
  wf_commonb pkt hl cs g && (20 <=? tcp_hdr_len pkt cs)%nat && (hl =? cs + tcp_hdr_len pkt cs)%nat.
Definition wf_udpb (pkt : list N) (hl cs g : nat) : bool :=
  wf_commonb pkt hl cs g && (hl =? cs + 8)%nat.

(* both protocols under one name (tcp = true: TSO, false: USO) *)
Definition segment_l4 (tcp : bool) (pkt : list N) (hl cs g : nat) : option (list (list N)) :=
  if tcp then segment_tcp pkt hl cs g else segment_udp pkt hl cs g.
Definition segments_ref (tcp : bool) (pkt : list N) (hl cs g : nat) : list (list N) :=
  if tcp then segments_ref_tcp pkt hl cs g else segments_ref_udp pkt hl cs g.
Definition wf_l4 (tcp : bool) (pkt : list N) (hl cs g : nat) : Prop :=
  if tcp then wf_tcp pkt hl cs g else wf_udp pkt hl cs g.
Definition l4_proto (tcp : bool) : N := if tcp then IPPROTO_TCP else IPPROTO_UDP.

(* header offsets segmentation rewrites: IPv4 total length, ID, header checksum / IPv6 payload length;
   TCP sequence number, flag byte, checksum / UDP length, checksum. Every other header byte is copied. *)
Definition rewritten (tcp isV4 : bool) (cs k : nat) : bool :=
  (if isV4 then ((2 <=? k) && (k <? 6))%nat || ((10 <=? k) && (k <? 12))%nat else ((4 <=? k) && (k <? 6))%nat) ||
  (if tcp then ((cs + 4 <=? k) && (k <? cs + 8))%nat || (k =? cs + 13)%nat || ((cs + 16 <=? k) && (k <? cs + 18))%nat
   else ((cs + 4 <=? k) && (k <? cs + 8))%nat).

(* which flag bits survive on segment i of n: CWR (bit 7) on the first only, FIN (0) and PSH (3) on the last only *)
Definition flag_kept (bit : N) (i n : nat) : bool :=
  if bit =? 7 then (i =? 0)%nat else if (bit =? 0) || (bit =? 3) then (i =? n - 1)%nat else true.

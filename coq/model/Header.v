(* Model of /repo/header/header.go: Encode, H.Parse, IsValidSubType (the last one is the table
   generated from the real function, gen/Tab_Header.v). Executable definitions only. *)
From Coq Require Import List NArith Bool.
Import ListNotations.
From NV Require Import lib.Bytes gen.Tab_Header.
Open Scope N_scope.

Record hdr := mkHdr { h_ver : N; h_typ : N; h_sub : N; h_res : N; h_ri : N; h_ctr : N }.

(* b[0] = v<<4 | byte(t&0x0f)   (v is a uint8, so the shift wraps at 8 bits) *)
Definition byte0 (v t : N) : N := N.lor (w8 (N.shiftl v 4)) (N.land t 15).

Definition encode (v t st ri c : N) : list N :=
  [byte0 v t; w8 st] ++ be_enc 2 0 ++ be_enc 4 ri ++ be_enc 8 c.

Definition parse (b : list N) : option hdr :=
  if (N.of_nat (length b) <? header_len) then None else
  let b0 := nth 0 b 0 in
  Some (mkHdr (N.land (N.shiftr b0 4) 15) (N.land b0 15) (nth 1 b 0)
              (be_dec (slice b 2 2)) (be_dec (slice b 4 4)) (be_dec (slice b 8 8))).

Definition pair_eqb (p q : N * N) : bool := (fst p =? fst q) && (snd p =? snd q).

Definition is_valid_subtype (t s : N) : bool := existsb (pair_eqb (t, s)) valid_subtype_pairs.

(* The documented combinations (header.go constants and README of the wire format). *)
Definition documented_pairs : list (N * N) :=
  [ (0, 0)           (* handshake: ix_psk0 *)
  ; (1, 0); (1, 1)   (* message: none, relay *)
  ; (2, 0)           (* recv_error *)
  ; (3, 0)           (* lighthouse *)
  ; (4, 0); (4, 1)   (* test: request, reply *)
  ; (5, 0)           (* close tunnel *)
  ; (6, 0) ].        (* control *)

(* Model of /repo/overlay/batch/tx_batch.go (SendBatch: Commit / Flush) on top of model/WriteBatch.v.
   Executable definitions only.

   Commit(pkt, dst) appends to bufs/dsts.  Flush():  if len(bufs) > 0 { written, err = out.WriteBatch(bufs, dsts) };
   then, whatever WriteBatch returned, clear(bufs), bufs = bufs[:0], dsts = dsts[:0], arena.Reset(); return written, err.
   Every committed datagram gets an id (0, 1, 2, .. in commit order) so that the history can speak about
   "the same datagram".  The kernel oracle is one function for the whole history: sb_k counts the sendFn calls
   made by earlier flushes, and the batchWriter's GSO flag (w.gsoSupported) carries over between flushes. *)
From Coq Require Import List NArith ZArith Bool Arith.
Import ListNotations.
From NV Require Import lib.Bytes gen.Consts_WriteBatch model.WriteBatch.
Open Scope N_scope.

Inductive op := Commit (p : pkt) | Flush.

Record sb_state := mkSB {
  sb_queue : list (nat * pkt);   (* bufs/dsts: (id, packet) in commit order *)
  sb_next : nat;                 (* id of the next committed datagram *)
  sb_gso : bool;                 (* w.gsoSupported of the underlying batchWriter *)
  sb_k : nat                     (* sendFn calls made so far *)
}.

(* one Flush: the ids of the datagrams handed to WriteBatch (in order) and what WriteBatch did with them;
   the indexes inside f_res are positions in f_ids *)
Record flush_rec := mkFlush { f_ids : list nat; f_res : result }.

Definition shift (orc : oracle) (k0 : nat) : oracle := fun k n => orc (k0 + k)%nat n.

Fixpoint run_ops (cap maxSegs : nat) (orc : oracle) (st : sb_state) (ops : list op) : list flush_rec :=
  match ops with
  | [] => []
  | Commit p :: r =>
      run_ops cap maxSegs orc (mkSB (sb_queue st ++ [(sb_next st, p)]) (S (sb_next st)) (sb_gso st) (sb_k st)) r
  | Flush :: r =>
      let res := match sb_queue st with
                 | [] => mkResult [] (Done 0) (sb_gso st)            (* len(bufs) == 0: WriteBatch is not called *)
                 | _ => write_batch_cap cap (sb_gso st) maxSegs (map snd (sb_queue st)) (shift orc (sb_k st))
                 end in
      mkFlush (map fst (sb_queue st)) res
      :: run_ops cap maxSegs orc (mkSB [] (sb_next st) (r_gso res) (sb_k st + length (r_calls res))) r   (* drained either way *)
  end.

Definition send_batch (cap : nat) (gso : bool) (maxSegs : nat) (orc : oracle) (ops : list op) : list flush_rec :=
  run_ops cap maxSegs orc (mkSB [] 0 gso 0) ops.

(* ids of the datagrams the kernel accepted during this flush, in hand-over order *)
Definition accepted_ids (f : flush_rec) : list nat :=
  map (fun i => nth i (f_ids f) 0%nat) (sent_indices (r_calls (f_res f))).

(* number of datagrams that the flushes of a history must hand to WriteBatch: everything committed before the
   last Flush. qlen = datagrams already queued *)
Fixpoint handed (qlen : nat) (ops : list op) : nat :=
  match ops with
  | [] => 0%nat
  | Commit _ :: r => handed (S qlen) r
  | Flush :: r => (qlen + handed 0 r)%nat
  end.

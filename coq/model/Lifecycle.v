(* Lifecycle: the Control state machine of control.go (Start / Stop / RebindUDPServer / fatal reader error),
   Interface.Close of interface.go, and - as data - the table of everything a node keeps running or open:
   each goroutine class with where it is created (Main or Control.Start), how many there are for a configuration,
   the condition that makes it return (its guard: a resource being closed / cancelled) and what it closes on its way
   out; each resource with the operation that closes it.  Executable definitions only.

   Mirrors: control.go (Start, Stop, RebindUDPServer), interface.go (activate failure path, run, listenOut, listenIn,
   onFatal, Close with its closed flag and the construction token of the WaitGroup), main.go (what Main starts before
   returning: HandshakeManager.Run, emitStats, Punchy scheduler, lighthouse query worker), lighthouse.go
   (StartUpdateWorker), connection_manager.go (Start), firewall/cache.go (ConntrackCacheTicker), dns_server.go (Start
   and its context watcher), ssh.go / sshd/server.go (Run and its listener watcher).
   The table is validated against the running code by the goroutine census of harness component lifecyclenet. *)
From Coq Require Import List NArith Bool Arith.
Import ListNotations.

Inductive cstate := SReady | SStarted | SStopping | SStopped.

(* what can be closed: the service context (cancel), the underlay sockets, the tun device, the construction token of
   Interface.wg (released by Close, what Wait waits for besides the readers), the DNS server, the sshd listener *)
Inductive res := RCtx | RUdp | RTun | RToken | RDns | RSsh.
Definition res_eqb (a b : res) : bool :=
  match a, b with
  | RCtx, RCtx | RUdp, RUdp | RTun, RTun | RToken, RToken | RDns, RDns | RSsh, RSsh => true
  | _, _ => false
  end.
Definition has (r : res) (l : list res) : bool := existsb (res_eqb r) l.

Inductive phase := PMain | PStart.

Record cfg := mkCfg {
  k_configured : nat;    (* `routines` of the configuration: Main opens this many udp listeners (Interface.writers) *)
  k_queues : nat;        (* queues the overlay device hands out when asked for that many (it may give fewer) *)
  k_multi : bool;        (* udp backend: SupportsMultipleReaders *)
  k_lhclient : bool;     (* lighthouses configured and we are not one: query worker *)
  k_lhupdate : bool;     (* lighthouse update worker *)
  k_ctcache : bool;      (* routine-local conntrack cache: two tickers per reader pair *)
  k_dns : bool;          (* lighthouse.serve_dns on a lighthouse *)
  k_sshd : bool
}.

(* one goroutine class *)
Record row := mkRow {
  r_code : N;            (* creation site, numbered as in harness lifecyclenet *)
  r_phase : phase;
  r_mult : cfg -> nat;
  r_guard : res;         (* it returns once this is closed / cancelled *)
  r_closes : list res    (* and closes these on its way out *)
}.

Definition b2n (b : bool) : nat := if b then 1 else 0.

(* Interface.activate: one reader pair per routine, clamped to one when the udp backend cannot be read by several
   goroutines, and to the number of queues the device actually opened.  The LISTENERS are not clamped: every socket
   Main opened stays in Interface.writers and is closed by Interface.Close, reader or not. *)
Definition k_routines (c : cfg) : nat :=
  let r := if Nat.ltb 1 (k_configured c) && negb (k_multi c) then 1 else k_configured c in
  Nat.min r (k_queues c).

Definition table : list row := [
  mkRow 1  PMain  (fun _ => 1)                          RCtx [];       (* HandshakeManager.Run: select on ctx.Done *)
  mkRow 2  PMain  (fun _ => 1)                          RCtx [];       (* Interface.emitStats *)
  mkRow 3  PMain  (fun _ => 1)                          RCtx [];       (* Punchy scheduler *)
  mkRow 12 PMain  (fun c => b2n (k_lhclient c))         RCtx [];       (* LightHouse.startQueryWorker *)
  mkRow 4  PStart (fun _ => 1)                          RCtx [];       (* connectionManager.Start *)
  mkRow 5  PStart k_routines                            RUdp [];       (* listenOut: ListenOut returns when the socket closes *)
  mkRow 6  PStart k_routines                            RTun [];       (* listenIn: Read fails when the tun closes *)
  mkRow 7  PStart (fun c => b2n (k_lhupdate c))         RCtx [];       (* LightHouse.StartUpdateWorker *)
  mkRow 8  PStart (fun c => if k_ctcache c then 2 * k_routines c else 0) RCtx [];  (* ConntrackCacheTicker.tick *)
  mkRow 13 PStart (fun c => b2n (k_dns c))              RCtx [RDns];   (* dnsServer.Start's context watcher: shuts the server down *)
  mkRow 9  PStart (fun c => b2n (k_dns c))              RDns [];       (* dnsServer.Start: ListenAndServe returns on shutdown *)
  mkRow 14 PStart (fun c => b2n (k_sshd c))             RCtx [RSsh];   (* sshd Run's watcher: closes the listener *)
  mkRow 10 PStart (fun c => b2n (k_sshd c))             RSsh []        (* sshd Run: Accept fails once the listener is closed *)
].

Fixpoint rep {A} (n : nat) (x : A) : list A := match n with O => [] | S k => x :: rep k x end.

Definition spawn (c : cfg) (ph : phase) : list row :=
  flat_map (fun r => match r_phase r, ph with
                     | PMain, PMain | PStart, PStart => rep (r_mult r c) r
                     | _, _ => []
                     end) table.

(* resources a phase opens *)
Definition opens (c : cfg) (ph : phase) : list res :=
  match ph with
  | PMain => [RCtx; RUdp; RTun; RToken]
  | PStart => (if k_dns c then [RDns] else []) ++ (if k_sshd c then [RSsh] else [])
  end.

Record lst := mkL {
  l_cfg : cfg;
  l_state : cstate;
  l_closed : list res;     (* closed / cancelled so far *)
  l_opened : list res;     (* ever opened *)
  l_acts : list row;       (* goroutines that have not returned yet *)
  l_rebinds : nat;
  l_fatal : bool           (* a fatal reader error has been recorded (only the first one triggers the shutdown) *)
}.

Definition ready (c : cfg) : lst := mkL c SReady [] (opens c PMain) (spawn c PMain) 0 false.

Definition close (r : res) (l : list res) : list res := if has r l then l else r :: l.

(* Interface.Close: the closed flag makes every call after the first a no-op *)
Definition iface_close (closed : list res) : list res :=
  if has RToken closed then closed else close RToken (close RTun (close RUdp closed)).

Inductive op :=
| OStart (activate_ok : bool)
| OStop                  (* a Stop call that runs to completion before anything else happens *)
| OStopBegin             (* a Stop call up to the point where it gives up the state lock (state Stopping) *)
| OStopEnd               (* ... and its second half *)
| ORebind
| OFatal.                (* a reader reported an unexpected error: onFatal -> triggerShutdown -> go Stop *)

Definition set_state (s : lst) (st : cstate) (closed : list res) : lst :=
  mkL (l_cfg s) st closed (l_opened s) (l_acts s) (l_rebinds s) (l_fatal s).

Definition do_stop_begin (s : lst) : lst :=
  match l_state s with
  | SStarted => set_state s SStopping (close RCtx (l_closed s))
  | SReady => set_state s SStopped (iface_close (close RCtx (l_closed s)))   (* done under the lock in one go *)
  | _ => s
  end.
Definition do_stop_end (s : lst) : lst :=
  match l_state s with
  | SStopping => set_state s SStopped (iface_close (l_closed s))
  | _ => s
  end.

Definition step (s : lst) (o : op) : lst :=
  match o with
  | OStart ok =>
    match l_state s with
    | SReady =>
      if ok then mkL (l_cfg s) SStarted (l_closed s) (l_opened s ++ opens (l_cfg s) PStart)
                     (l_acts s ++ spawn (l_cfg s) PStart) (l_rebinds s) (l_fatal s)
      else set_state s SStopped (iface_close (close RCtx (l_closed s)))
    | _ => s
    end
  | OStop => match l_state s with
             | SStopping => s          (* another Stop is half way: this call returns at once *)
             | _ => do_stop_end (do_stop_begin s)
             end
  | OStopBegin => do_stop_begin s
  | OStopEnd => do_stop_end s
  | ORebind =>
    match l_state s with
    | SStarted => mkL (l_cfg s) (l_state s) (l_closed s) (l_opened s) (l_acts s) (S (l_rebinds s)) (l_fatal s)
    | _ => s
    end
  | OFatal =>
    if l_fatal s then s
    else
      let s1 := mkL (l_cfg s) (l_state s) (l_closed s) (l_opened s) (l_acts s) (l_rebinds s) true in
      match l_state s with
      | SStarted => do_stop_end (do_stop_begin s1)     (* triggerShutdown is set by Start only *)
      | _ => s1
      end
  end.

Fixpoint run (s : lst) (ops : list op) : lst :=
  match ops with [] => s | o :: r => run (step s o) r end.

(* ---- goroutines returning -------------------------------------------------------------------------------------- *)
(* one sweep: every goroutine whose guard holds returns, closing what it closes on the way out *)
Fixpoint sweep (closed : list res) (l : list row) : list row * list res :=
  match l with
  | [] => ([], closed)
  | a :: r =>
    let '(keep, cl) := sweep closed r in
    if has (r_guard a) closed then (keep, fold_right close cl (r_closes a)) else (a :: keep, cl)
  end.

(* watchers first, then what they unblock *)
Definition settle (s : lst) : lst :=
  let '(a1, c1) := sweep (l_closed s) (l_acts s) in
  let '(a2, c2) := sweep c1 a1 in
  mkL (l_cfg s) (l_state s) c2 (l_opened s) a2 (l_rebinds s) (l_fatal s).

Definition all_closed (s : lst) : bool := forallb (fun r => has r (l_closed s)) (l_opened s).

(* everything released: nothing running, nothing open *)
Definition released (s : lst) : bool :=
  let s' := settle s in
  match l_acts s' with [] => all_closed s' | _ => false end.

(* ---- what the census should see -------------------------------------------------------------------------------- *)
Definition count_code (code : N) (l : list row) : nat := length (filter (fun r => N.eqb (r_code r) code) l).
Definition codes : list N := map r_code table.
(* goroutines of one node in a phase: 0 after Main, 1 after Start, 2 after Stop (+ Wait), 3 after a failed Start *)
Definition node_acts (c : cfg) (ph : N) : list row :=
  match ph with
  | 0%N => spawn c PMain
  | 1%N => spawn c PMain ++ spawn c PStart
  | _ => []
  end.
Definition census (nodes : list (cfg * N)) : list (N * N) :=
  let all := flat_map (fun cn => node_acts (fst cn) (snd cn)) nodes in
  filter (fun p => negb (N.eqb (snd p) 0)) (map (fun code => (code, N.of_nat (count_code code all))) codes).

(* ---- blocking channel sends during Stop ------------------------------------------------------------------------- *)
(* Control.Stop cancels the context first and then, still before Interface.Close, sends a CloseTunnel on every tunnel
   (CloseAllTunnels -> Interface.send).  A channel send performed in that phase blocks for ever if every goroutine that
   receives from the channel has returned.  Channel 1 is LightHouse.queryChan (capacity handshakes.query_buffer), filled
   by LightHouse.QueryServer and drained only by the lighthouse query worker (table row 12, guard: context).  How many
   entries a send of a given message type puts into it is measured on the real code (gen/Tab_Lifecycle.v). *)
Definition receivers (ch : N) : list N := if N.eqb ch 1 then [12%N] else [].

(* the channels the tunnel-closing phase sends into, given what a CloseTunnel send does on a plain node whose tunnel has
   been idle since the last rebind (the worst case) *)
Definition stop_sends (close_tunnel_queries : N) : list N := if N.eqb close_tunnel_queries 0 then [] else [1%N].

Definition live_receiver (s : lst) (code : N) : bool :=
  existsb (fun r => N.eqb (r_code r) code && negb (has (r_guard r) (l_closed s))) (l_acts s).

(* some send of the list goes into a channel none of whose receivers is still running *)
Definition may_block (s : lst) (sends : list N) : bool :=
  existsb (fun ch => negb (existsb (live_receiver s) (receivers ch))) sends.

Definition lookup_queries (tab : list (N * bool * bool * N)) (t : N) (mism lh : bool) : option N :=
  match find (fun r => let '(t', m', l', _) := r in N.eqb t' t && Bool.eqb m' mism && Bool.eqb l' lh) tab with
  | Some (_, _, _, n) => Some n
  | None => None
  end.

(* ---- the socket ledger ----------------------------------------------------------------------------------------- *)
(* udp listeners of the node that are still open: all the configured ones until Interface.Close, none afterwards *)
Definition udp_open (s : lst) : nat := if has RUdp (l_closed s) then 0 else k_configured (l_cfg s).

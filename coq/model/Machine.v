(* Machine: nebula's handshake.Machine (handshake/machine.go) on top of the symbolic Noise interpreter.

   Mirrors NewMachine, Initiate, ProcessPacket, processPayload, validateCert, requireComplete, completed,
   marshalOutgoing, buildResponse, including every place that sets the `failed` flag and the repair of F5
   (commit "mark handshake machine failed when a rejected message moved the noise state"): the handshake hash
   is captured before ReadMessage and, if ReadMessage fails and the hash differs afterwards, failed = true.

   Oracles (everything the Machine gets from outside is data in [config], so runs are executable):
   the credentials per certificate version (getCred), the set of (certificate bytes, public key) pairs the
   CertVerifier accepts, what the index allocator returns, the clock, the ephemeral key the random source
   yields, and the byte length of the payload this machine marshals. *)
From Coq Require Import List NArith Bool.
Import ListNotations.
From NV Require Import lib.Sym model.Noise.
Open Scope N_scope.

(* handshake.Credential: Cert (version, curve, public key), Bytes (identified by cr_body) *)
Record cred := mkCred { cr_body : N; cr_ver : N; cr_curve : N; cr_pub : term }.

Record config := mkCfg {
  c_cipher : N;
  c_subtype : N;
  c_cred1 : option cred;            (* getCred(Version1) *)
  c_cred2 : option cred;            (* getCred(Version2) *)
  c_spriv : N;                      (* the static private key shared by all credentials *)
  c_accept : list (N * term);       (* (certificate bytes, public key) pairs the verifier accepts *)
  c_alloc : option N;               (* what allocIndex returns (None = error) *)
  c_now : N;                        (* time.Now().UnixNano() *)
  c_eph : N;                        (* the ephemeral private key GenerateKeypair will produce *)
  c_paylen : N                      (* len(MarshalPayload(...)) of the message this machine sends *)
}.

Definition get_cred (c : config) (v : N) : option cred :=
  if v =? 1 then c_cred1 c else if v =? 2 then c_cred2 c else None.

(* a wire packet: 16-byte nebula header (only what the Machine and its caller look at) + the noise message *)
Record packet := mkPkt {
  pk_short : bool;       (* shorter than header.Len *)
  pk_subtype : N;
  pk_ri : N;             (* header RemoteIndex *)
  pk_ctr : N;            (* header MessageCounter *)
  pk_body : term
}.

(* a recombined, verified peer certificate: its bytes and the public key it was recombined with *)
Definition rcert : Type := (N * term)%type.

Record result := mkRes {
  r_ekey : option term;
  r_dkey : option term;
  r_mycert : option N;
  r_remote_cert : option rcert;
  r_remote_idx : N;
  r_local_idx : N;
  r_time : N;
  r_msgidx : N;
  r_initiator : bool
}.

Record machine := mkM {
  m_cfg : config;
  m_hs : hstate;
  m_res : result;
  m_myver : N;
  m_index_allocated : bool;
  m_remote_cert_set : bool;
  m_payload_set : bool;
  m_failed : bool
}.

Definition set_hs (m : machine) (hs : hstate) : machine :=
  mkM (m_cfg m) hs (m_res m) (m_myver m) (m_index_allocated m) (m_remote_cert_set m) (m_payload_set m) (m_failed m).
Definition set_res (m : machine) (r : result) : machine :=
  mkM (m_cfg m) (m_hs m) r (m_myver m) (m_index_allocated m) (m_remote_cert_set m) (m_payload_set m) (m_failed m).
Definition fail (m : machine) : machine :=
  mkM (m_cfg m) (m_hs m) (m_res m) (m_myver m) (m_index_allocated m) (m_remote_cert_set m) (m_payload_set m) true.
Definition set_myver (m : machine) (v : N) : machine :=
  mkM (m_cfg m) (m_hs m) (m_res m) v (m_index_allocated m) (m_remote_cert_set m) (m_payload_set m) (m_failed m).
Definition set_flags (m : machine) (ia rc ps : bool) : machine :=
  mkM (m_cfg m) (m_hs m) (m_res m) (m_myver m) ia rc ps (m_failed m).

(* per-message content flags of the IX subtype: both messages carry payload and certificate *)
Definition ix_msgs : list (bool * bool) := [(true, true); (true, true)].

Definition flags_at (idx : N) : bool * bool := nth (N.to_nat idx) ix_msgs (false, false).
Definition my_flags (m : machine) : bool * bool := flags_at (hs_msgIdx (m_hs m)).
Definition peer_flags (m : machine) : bool * bool :=
  if hs_msgIdx (m_hs m) =? 0 then (false, false) else flags_at (hs_msgIdx (m_hs m) - 1).

(* NewMachine *)
Definition new_machine (c : config) (version : N) (initiator : bool) : option machine :=
  match get_cred c version with
  | None => None
  | Some cr =>
      Some (mkM c (init_hs (cr_curve cr) (c_cipher c) (c_spriv c) (cr_pub cr) initiator ix_pattern)
                (mkRes None None None None 0 0 0 0 initiator) version false false false false)
  end.

Definition m_initiator (m : machine) : bool := r_initiator (m_res m).

(* cert.Recombine(version, bytes, peer static, curve): parse the bytes in the format the version names, refuse
   bytes that carry a key of their own, install the peer static as the public key, refuse another curve *)
Definition recombine (ver : N) (p : payload) (rs : option term) (curve : N) : option (N * N * term) :=
  match rs with
  | None => None
  | Some key =>
      let fmt := if (ver =? 0) || (ver =? 1) then 1 else if ver =? 2 then 2 else 0 in
      if (fmt =? 0) || negb (p_cert_fmt p =? fmt) || p_cert_haskey p || negb (p_cert_curve p =? curve) then None
      else Some (p_cert_body p, fmt, key)      (* bytes, rc.Version(), rc.PublicKey() *)
  end.

Definition accepted (c : config) (body : N) (key : term) : bool :=
  existsb (fun bk => (fst bk =? body) && term_eqb (snd bk) key) (c_accept c).

(* validateCert; false = error (failed already set) *)
Definition validate_cert (m : machine) (p : payload) : machine * bool :=
  match get_cred (m_cfg m) (m_myver m) with
  | None => (fail m, false)
  | Some cr =>
      match recombine (p_cert_ver p) p (hs_rs (m_hs m)) (cr_curve cr) with
      | None => (fail m, false)
      | Some (body, ver, key) =>
          if negb (match hs_rs (m_hs m) with Some rs => term_eqb key rs | None => false end) then (fail m, false)     (* ErrPublicKeyMismatch *)
          else
            let m1 := if negb (ver =? m_myver m)
                      then match get_cred (m_cfg m) ver with Some _ => set_myver m ver | None => m end
                      else m in
            if accepted (m_cfg m1) body key then
              let r := m_res m1 in
              let r' := mkRes (r_ekey r) (r_dkey r) (r_mycert r) (Some (body, key)) (r_remote_idx r) (r_local_idx r)
                              (r_time r) (r_msgidx r) (r_initiator r) in
              (set_flags (set_res m1 r') (m_index_allocated m1) true (m_payload_set m1), true)
            else (fail m1, false)
      end
  end.

(* UnmarshalPayload succeeds exactly on well-formed payload bytes *)
Definition parse_payload (t : term) : option payload := match t with Pay p => Some p | _ => None end.

(* processPayload; false = error *)
Definition process_payload (m : machine) (msg : term) (expP expC : bool) : machine * bool :=
  if tlen (hs_dl (m_hs m)) msg =? 0 then
    if expP || expC then (fail m, false) else (m, true)
  else match parse_payload msg with
       | None => (fail m, false)
       | Some p =>
           let has_data := negb (p_init_idx p =? 0) || negb (p_resp_idx p =? 0) || negb (p_time p =? 0) in
           if negb (Bool.eqb has_data expP) then (fail m, false)
           else if negb (Bool.eqb (p_has_cert p) expC) then (fail m, false)
           else
             let step1 : machine * bool :=
               if expP then
                 let ri := if m_initiator m then p_resp_idx p else p_init_idx p in
                 if ri =? 0 then (fail m, false)
                 else
                   let r := m_res m in
                   let r' := mkRes (r_ekey r) (r_dkey r) (r_mycert r) (r_remote_cert r) ri (r_local_idx r)
                                   (p_time p) (r_msgidx r) (r_initiator r) in
                   (set_flags (set_res m r') (m_index_allocated m) (m_remote_cert_set m) true, true)
               else (m, true) in
             match step1 with
             | (m1, false) => (m1, false)
             | (m1, true) => if expC then validate_cert m1 p else (m1, true)
             end
       end.

(* marshalOutgoing: None = error *)
Definition marshal_outgoing (m : machine) (expP expC : bool) : option (machine * term) :=
  if negb expP && negb expC then Some (m, Empty)
  else
    let step1 : option machine :=
      if expP then
        if m_index_allocated m then Some m
        else match c_alloc (m_cfg m) with
             | None => None
             | Some idx =>
                 let r := m_res m in
                 let r' := mkRes (r_ekey r) (r_dkey r) (r_mycert r) (r_remote_cert r) (r_remote_idx r) idx
                                 (r_time r) (r_msgidx r) (r_initiator r) in
                 Some (set_flags (set_res m r') true (m_remote_cert_set m) (m_payload_set m))
             end
      else Some m in
    match step1 with
    | None => None
    | Some m1 =>
        let ii := if expP then (if m_initiator m1 then r_local_idx (m_res m1) else r_remote_idx (m_res m1)) else 0 in
        let ri := if expP then (if m_initiator m1 then 0 else r_local_idx (m_res m1)) else 0 in
        let tm := if expP then c_now (m_cfg m1) else 0 in
        if expC then
          match get_cred (m_cfg m1) (m_myver m1) with
          | None => None
          | Some cr =>
              let r := m_res m1 in
              let r' := mkRes (r_ekey r) (r_dkey r) (Some (cr_body cr)) (r_remote_cert r) (r_remote_idx r)
                              (r_local_idx r) (r_time r) (r_msgidx r) (r_initiator r) in
              Some (set_res m1 r',
                    Pay (mkPayload true (cr_body cr) (cr_ver cr) (cr_curve cr) false ii ri tm (cr_ver cr)
                                   (c_paylen (m_cfg m1))))
          end
        else Some (m1, Pay (mkPayload false 0 0 0 false ii ri tm 0 (c_paylen (m_cfg m1))))
    end.

(* buildResponse: None = error; otherwise (machine, packet, keys of WriteMessage (cs1, cs2)) *)
Definition build_response (m : machine) : option (machine * packet * option (term * term)) :=
  let '(expP, expC) := my_flags m in
  match marshal_outgoing m expP expC with
  | None => None
  | Some (m1, bytes) =>
      let ri := r_remote_idx (m_res m1) in
      let ctr := hs_msgIdx (m_hs m1) + 1 in
      match write_message (m_hs m1) (c_eph (m_cfg m1)) bytes with
      | (_, WErr) => None
      | (hs', WOk out keys) => Some (set_hs m1 hs', mkPkt false (c_subtype (m_cfg m1)) ri ctr out, keys)
      end
  end.

Definition require_complete (m : machine) : machine * bool :=
  if negb (m_payload_set m) || negb (m_remote_cert_set m) then (fail m, false) else (m, true).

Definition completed (m : machine) (ekey dkey : term) : machine * result :=
  let r := m_res m in
  let r' := mkRes (Some ekey) (Some dkey) (r_mycert r) (r_remote_cert r) (r_remote_idx r) (r_local_idx r) (r_time r)
                  (hs_msgIdx (m_hs m)) (r_initiator r) in
  (set_res m r', r').

Inductive outcome :=
| Reject                                                   (* an error was returned *)
| Done (out : option packet) (res : option result).        (* (out, result, nil) *)

(* Initiate *)
Definition initiate (m : machine) : machine * outcome :=
  if m_failed m then (m, Reject)
  else if negb (m_initiator m) then (fail m, Reject)
  else if negb (hs_msgIdx (m_hs m) =? 0) then (fail m, Reject)
  else match build_response m with
       | None => (fail m, Reject)
       | Some (m1, pkt, _) => (m1, Done (Some pkt) None)
       end.

(* ProcessPacket *)
Definition process (m : machine) (p : packet) : machine * outcome :=
  if m_failed m then (m, Reject)                                                   (* ErrMachineFailed *)
  else if pk_short p then (m, Reject)                                               (* ErrPacketTooShort *)
  else if negb (pk_subtype p =? c_subtype (m_cfg m)) then (m, Reject)               (* ErrSubtypeMismatch *)
  else if m_initiator m && (hs_msgIdx (m_hs m) =? 0) then (fail m, Reject)          (* ErrInitiateNotCalled *)
  else
    let hash_before := hs_h (m_hs m) in
    match read_message (m_hs m) (pk_body p) with
    | (hs', RErr) =>
        let m' := set_hs m hs' in
        ((if term_eqb hash_before (hs_h hs') then m' else fail m'), Reject)         (* the F5 repair *)
    | (hs', ROk msg keys) =>
        let m1 := set_hs m hs' in
        let '(expP, expC) := peer_flags m1 in
        match process_payload m1 msg expP expC with
        | (m2, false) => (m2, Reject)
        | (m2, true) =>
            match keys with
            | Some (cs1, cs2) =>                           (* ReadMessage completed: eKey = cs1, dKey = cs2 *)
                match require_complete m2 with
                | (m3, false) => (m3, Reject)
                | (m3, true) => let (m4, r) := completed m3 cs1 cs2 in (m4, Done None (Some r))
                end
            | None =>
                match build_response m2 with
                | None => (fail m2, Reject)
                | Some (m3, pkt, None) => (m3, Done (Some pkt) None)
                | Some (m3, pkt, Some (cs1, cs2)) =>      (* WriteMessage completed: dKey = cs1, eKey = cs2 *)
                    match require_complete m3 with
                    | (m4, false) => (m4, Reject)
                    | (m4, true) => let (m5, r) := completed m4 cs2 cs1 in (m5, Done (Some pkt) (Some r))
                    end
                end
            end
        end
    end.

(* ---- an honest exchange: both messages delivered unmodified ------------------------------------------ *)

(* initiator built from (cI, vI), responder from (cR, vR); Some (initiator's Result, responder's Result, message 1,
   message 2) when both sides completed *)
Definition honest_exchange (cI cR : config) (vI vR : N) : option (result * result * packet * packet) :=
  match new_machine cI vI true, new_machine cR vR false with
  | Some mI, Some mR =>
      match initiate mI with
      | (mI1, Done (Some p1) None) =>
          match process mR p1 with
          | (_, Done (Some p2) (Some rR)) =>
              match process mI1 p2 with
              | (_, Done None (Some rI)) => Some (rI, rR, p1, p2)
              | _ => None
              end
          | _ => None
          end
      | _ => None
      end
  | _, _ => None
  end.

(* ---- a network of machines driven by an arbitrary (adversarial) schedule ----------------------- *)

Inductive event :=
| EvInitiate (i : nat)                 (* call Initiate on machine i *)
| EvDeliver (i : nat) (p : packet).    (* hand packet p (anything at all) to ProcessPacket of machine i *)

Fixpoint upd {A} (l : list A) (i : nat) (x : A) : list A :=
  match l, i with
  | [], _ => []
  | _ :: r, O => x :: r
  | a :: r, S i' => a :: upd r i' x
  end.

Definition step (net : list machine) (ev : event) : list machine :=
  match ev with
  | EvInitiate i => match nth_error net i with Some m => upd net i (fst (initiate m)) | None => net end
  | EvDeliver i p => match nth_error net i with Some m => upd net i (fst (process m p)) | None => net end
  end.

Definition run (net : list machine) (evs : list event) : list machine := fold_left step evs net.

(* LockOrder: lock-order graphs (generated into gen/LockGraph.v by the translator go/lockgraph) and an executable
   acyclicity check.  Executable definitions only.
   A graph is a list of edges (a, b): "lock class b may be acquired while lock class a is held".
   [acyclicb] computes a rank for every node by relaxation (rank v >= 1 + rank w for every edge v -> w, as many
   rounds as there are nodes) and then CHECKS that every edge strictly decreases the rank.  The check is what the
   soundness proof uses; how the ranks were found does not matter. *)
From Coq Require Import List NArith Bool Arith.
Import ListNotations.
Open Scope N_scope.

Definition graph := list (N * N).

Definition succs (g : graph) (v : N) : list N := map snd (filter (fun e => fst e =? v) g).

Definition get_rank (r : list (N * nat)) (v : N) : nat :=
  match find (fun p => fst p =? v) r with Some p => snd p | None => 0%nat end.

Fixpoint dedup (l : list N) : list N :=
  match l with
  | [] => []
  | x :: r => if existsb (N.eqb x) r then dedup r else x :: dedup r
  end.

Definition nodes_of (g : graph) : list N := dedup (map fst g ++ map snd g).

Definition relax1 (g : graph) (nodes : list N) (r : list (N * nat)) : list (N * nat) :=
  map (fun v => (v, fold_right (fun w m => Nat.max m (S (get_rank r w))) (get_rank r v) (succs g v))) nodes.

Fixpoint iter {A} (n : nat) (f : A -> A) (x : A) : A := match n with O => x | S k => iter k f (f x) end.

Definition ranks (g : graph) : list (N * nat) :=
  let ns := nodes_of g in iter (length ns) (relax1 g ns) (map (fun v => (v, 0%nat)) ns).

Definition rank_ok (r : list (N * nat)) (g : graph) : bool :=
  forallb (fun e => Nat.ltb (get_rank r (snd e)) (get_rank r (fst e))) g.

Definition acyclicb (g : graph) : bool := rank_ok (ranks g) g.

Definition edge_eqb (a b : N * N) : bool := (fst a =? fst b) && (snd a =? snd b).
Definition has_edge (e : N * N) (g : graph) : bool := existsb (edge_eqb e) g.

(* the graph without the listed edges *)
Definition minus (g known : graph) : graph := filter (fun e => negb (has_edge e known)) g.

(* a path of at least one edge *)
Inductive reach (g : graph) : N -> N -> Prop :=
| reach1 a b : In (a, b) g -> reach g a b
| reachS a b c : In (a, b) g -> reach g b c -> reach g a c.

(* ---- threads, locks, waiting ------------------------------------------------------------------------------------- *)
Section Threads.
  Variable lock : Type.
  Variable class : lock -> N.

  Record thread := mkThread { holds : list lock; waits : option lock }.

  (* t waits for a lock that u holds *)
  Definition wait_for (t u : thread) : Prop := exists m, waits t = Some m /\ In m (holds u).

  (* a chain t -> ... -> u of at least one wait-for step through the threads of a system *)
  Inductive wf_path (sys : list thread) : thread -> thread -> Prop :=
  | wf1 t u : In t sys -> In u sys -> wait_for t u -> wf_path sys t u
  | wfS t x u : In t sys -> In x sys -> wait_for t x -> wf_path sys x u -> wf_path sys t u.

  (* the discipline the lock-order graph certifies: a thread that waits for m while holding h does so at a place
     where class m is acquired while class h is held - an edge of the graph *)
  Definition disciplined (g : graph) (t : thread) : Prop :=
    forall m, waits t = Some m -> forall h, In h (holds t) -> In (class h, class m) g.
End Threads.

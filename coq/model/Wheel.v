(* Model of /repo/timeout.go: TimerWheel[T] (NewTimerWheel, Add, findWheel, Advance, Purge) and, since it
   only wraps every call in a mutex, LockingTimerWheel[T]. Executable definitions only.

   Numbers: time.Duration and the `int` fields are Go int64; instants (time.Time) are nanoseconds since an
   arbitrary epoch. All of them are modelled as Z. Go's `/` on integers truncates toward zero: Z.quot.
   Nothing in this code can overflow int64 for parameters 0 < min, 0 <= max (the timeout is clamped before
   any arithmetic, `tickDuration * adv` is bounded by |now - lastTick|), except that time.Time.Sub
   saturates for instants more than ~292 years apart: the model is exact for |now - lastTick| < 2^63 ns.

   The item cache (itemCache / itemsCached / timerCacheMax) only recycles list cells; lists are values here,
   so it has no counterpart in the model - the correspondence check drives more than timerCacheMax recycled
   cells through the real code and compares the outputs with this cache-free model.

   Interface for clients (conntrack C18, handshake retries C32):
     wheel A, init, add, advance, purge, op, step/exec/outs/trace, waiting, items;
     characterising lemmas: proofs/Wheel_proofs.v. *)
From Coq Require Import List ZArith Bool.
Import ListNotations.
Open Scope Z_scope.

Record wheel (A : Type) := mkWheel {
  w_len   : Z;               (* wheelLen *)
  w_tick  : Z;               (* tickDuration  (min) *)
  w_max   : Z;               (* wheelDuration (max) *)
  w_cur   : Z;               (* current *)
  w_last  : option Z;        (* lastTick (nil until the first Advance) *)
  w_slots : list (list A);   (* wheel: one FIFO per slot, head first *)
  w_exp   : list A           (* expired FIFO, head first *)
}.
Arguments mkWheel {A}.
Arguments w_len {A}. Arguments w_tick {A}. Arguments w_max {A}. Arguments w_cur {A}.
Arguments w_last {A}. Arguments w_slots {A}. Arguments w_exp {A}.

(* wLen := int((max / min) + 2) *)
Definition wheel_len (mn mx : Z) : Z := Z.quot mx mn + 2.

(* NewTimerWheel(min, max). Go panics for min = 0 (division) and for wheel_len < 0 (make); the theorems
   assume 0 < min and 0 <= max. *)
Definition init {A} (mn mx : Z) : wheel A :=
  let l := wheel_len mn mx in
  mkWheel l mn mx 0 None (repeat [] (Z.to_nat l)) [].

Definition set_slots {A} (w : wheel A) (s : list (list A)) : wheel A :=
  mkWheel (w_len w) (w_tick w) (w_max w) (w_cur w) (w_last w) s (w_exp w).
Definition set_exp {A} (w : wheel A) (e : list A) : wheel A :=
  mkWheel (w_len w) (w_tick w) (w_max w) (w_cur w) (w_last w) (w_slots w) e.
Definition set_last {A} (w : wheel A) (t : option Z) : wheel A :=
  mkWheel (w_len w) (w_tick w) (w_max w) (w_cur w) t (w_slots w) (w_exp w).

Fixpoint upd_nth {B} (n : nat) (f : B -> B) (l : list B) : list B :=
  match l with
  | [] => []
  | x :: r => match n with O => f x :: r | S n' => x :: upd_nth n' f r end
  end.

Definition slot_at {A} (w : wheel A) (i : Z) : list A := nth (Z.to_nat i) (w_slots w) [].

(* findWheel: if timeout < tickDuration { timeout = tickDuration } else if timeout > wheelDuration
   { timeout = wheelDuration }  -- note the else-if: when max < min the result is min. *)
Definition clamp {A} (w : wheel A) (T : Z) : Z :=
  if T <? w_tick w then w_tick w else if w_max w <? T then w_max w else T.

(* tick := int(((timeout - 1) / tickDuration) + 1) : the clamped timeout in ticks, rounded up *)
Definition nticks {A} (w : wheel A) (T : Z) : Z := Z.quot (clamp w T - 1) (w_tick w) + 1.

(* tick += current + 1; if tick >= wheelLen { tick -= wheelLen } *)
Definition find_wheel {A} (w : wheel A) (T : Z) : Z :=
  let tick := nticks w T + w_cur w + 1 in
  if w_len w <=? tick then tick - w_len w else tick.

(* Add(v, timeout): append to the tail of the slot's list. (Go would panic on an index out of range;
   Wheel_proofs.find_wheel_ok shows the index is always in range.) *)
Definition add {A} (v : A) (T : Z) (w : wheel A) : wheel A :=
  set_slots w (upd_nth (Z.to_nat (find_wheel w T)) (fun s => s ++ [v]) (w_slots w)).

(* One iteration of the loop in Advance: step current (wrapping), append that slot to expired, clear it. *)
Definition tick1 {A} (w : wheel A) : wheel A :=
  let c := w_cur w + 1 in
  let c := if w_len w <=? c then 0 else c in
  mkWheel (w_len w) (w_tick w) (w_max w) c (w_last w)
          (upd_nth (Z.to_nat c) (fun _ => []) (w_slots w))
          (w_exp w ++ slot_at w c).

(* Advance(now): ticks = (now - lastTick) / tickDuration (truncating); the loop runs min(ticks, wheelLen)
   times (not at all for ticks <= 0); lastTick += tickDuration * ticks with the UNCAPPED (possibly
   negative) ticks. *)
Definition advance {A} (now : Z) (w : wheel A) : wheel A :=
  let lt := match w_last w with Some t => t | None => now end in
  let ticks := Z.quot (now - lt) (w_tick w) in
  let n := if w_len w <? ticks then w_len w else ticks in
  set_last (Nat.iter (Z.to_nat n) tick1 w) (Some (lt + w_tick w * ticks)).

(* Purge(): pop the head of expired. *)
Definition purge {A} (w : wheel A) : option A * wheel A :=
  match w_exp w with
  | [] => (None, w)
  | x :: r => (Some x, set_exp w r)
  end.

(* ---- histories ------------------------------------------------------------------------------ *)

Inductive op (A : Type) :=
| OAdd (v : A) (T : Z)
| OAdvance (now : Z)
| OPurge.
Arguments OAdd {A}. Arguments OAdvance {A}. Arguments OPurge {A}.

Definition step {A} (o : op A) (w : wheel A) : wheel A :=
  match o with
  | OAdd v T => add v T w
  | OAdvance now => advance now w
  | OPurge => snd (purge w)
  end.

(* what the operation returns to the caller: Purge's item when its second result is true *)
Definition step_out {A} (o : op A) (w : wheel A) : list A :=
  match o with
  | OPurge => match fst (purge w) with Some x => [x] | None => [] end
  | _ => []
  end.

Fixpoint exec {A} (h : list (op A)) (w : wheel A) : wheel A :=
  match h with [] => w | o :: h' => exec h' (step o w) end.

(* all items returned by the Purge calls of h, in order *)
Fixpoint outs {A} (h : list (op A)) (w : wheel A) : list A :=
  match h with [] => [] | o :: h' => step_out o w ++ outs h' (step o w) end.

(* one entry per Purge call: Some item / None (second result false) *)
Fixpoint trace {A} (h : list (op A)) (w : wheel A) : list (option A) :=
  match h with
  | [] => []
  | OPurge :: h' => fst (purge w) :: trace h' (snd (purge w))
  | o :: h' => trace h' (step o w)
  end.

(* items handed to Add, in order; instants handed to Advance, in order *)
Fixpoint adds {A} (h : list (op A)) : list A :=
  match h with [] => [] | OAdd v _ :: h' => v :: adds h' | _ :: h' => adds h' end.
Fixpoint nows {A} (h : list (op A)) : list Z :=
  match h with [] => [] | OAdvance t :: h' => t :: nows h' | _ :: h' => nows h' end.

Definition waiting {A} (w : wheel A) : list A := concat (w_slots w).
Definition items {A} (w : wheel A) : list A := w_exp w ++ waiting w.

(* ---- clock discipline of a history ---------------------------------------------------------- *)

(* [clock_ok j m h]: every instant handed to Advance is later than (the largest instant handed to Advance so
   far) - j;  m is the largest instant so far (None: no Advance yet).  j = 1: the clock never goes backwards
   (monotone);  j = tick: it may jitter backwards by less than one tick. *)
Definition clock_max (m : option Z) (now : Z) : option Z :=
  Some (match m with Some mm => Z.max mm now | None => now end).

Fixpoint clock_ok {A} (j : Z) (m : option Z) (h : list (op A)) : Prop :=
  match h with
  | [] => True
  | OAdvance now :: h' =>
      match m with Some mm => mm - j < now | None => True end /\ clock_ok j (clock_max m now) h'
  | _ :: h' => clock_ok j m h'
  end.

Fixpoint clock_okb {A} (j : Z) (m : option Z) (h : list (op A)) : bool :=
  match h with
  | [] => true
  | OAdvance now :: h' =>
      match m with Some mm => mm - j <? now | None => true end && clock_okb j (clock_max m now) h'
  | _ :: h' => clock_okb j m h'
  end.

Fixpoint clock_end {A} (m : option Z) (h : list (op A)) : option Z :=
  match h with
  | [] => m
  | OAdvance now :: h' => clock_end (clock_max m now) h'
  | _ :: h' => clock_end m h'
  end.

(* ---- relabelling (the wheel never inspects items) ------------------------------------------- *)

Definition map_op {A B} (f : A -> B) (o : op A) : op B :=
  match o with OAdd v T => OAdd (f v) T | OAdvance t => OAdvance t | OPurge => OPurge end.

Definition map_wheel {A B} (f : A -> B) (w : wheel A) : wheel B :=
  mkWheel (w_len w) (w_tick w) (w_max w) (w_cur w) (w_last w) (map (map f) (w_slots w)) (map f (w_exp w)).

(* tag the k-th Add of a history with the number i + k *)
Fixpoint label {A} (i : nat) (h : list (op A)) : list (op (nat * A)) :=
  match h with
  | [] => []
  | OAdd v T :: h' => OAdd (i, v) T :: label (S i) h'
  | OAdvance t :: h' => OAdvance t :: label i h'
  | OPurge :: h' => OPurge :: label i h'
  end.

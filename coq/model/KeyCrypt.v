(* Model of /repo/cert/crypto.go (EncryptAndMarshalSigningPrivateKey, DecryptAndUnmarshalSigningPrivateKey,
   UnmarshalNebulaEncryptedData, aes256Encrypt / aes256Decrypt, deriveKey) and of the key functions of
   /repo/cert/pem.go, for property C43. Executable definitions only.

   A PEM block is (banner, bytes): the text armour (encoding/pem: base64, line wrapping, text around the block) is
   not modelled. The bytes of an encrypted key are the protobuf message RawNebulaEncryptedData, modelled at the wire
   level (lib/Proto.v) the way google.golang.org/protobuf reads it (unknown fields skipped, last scalar wins,
   repeated sub-messages merged, proto3 strings must be UTF-8) and the way proto.Marshal writes it (fields in number
   order). AES-256-GCM and Argon2id are parameters ([Section Crypto]); banners, the algorithm name, the Argon2 version
   and the GCM sizes are the generated constants of gen/Consts_KeyCrypt.v. Curve: 0 = Curve25519/Ed25519, 1 = P256. *)
From Coq Require Import List NArith Bool.
Import ListNotations.
From NV Require Import lib.Bytes lib.Proto lib.Corr lib.KeyCrypt_lib gen.Consts_KeyCrypt.
Open Scope N_scope.

(* ---- the container ------------------------------------------------------------------------------ *)

Record argon := mkArgon { a_version : N; a_mem : N; a_par : N; a_it : N; a_salt : list N }.
Record meta := mkMeta { m_alg : list N; m_argon : option argon }.
Record edata := mkEData { e_meta : option meta; e_blob : list N }.

Definition argon0 : argon := mkArgon 0 0 0 0 [].
Definition meta0 : meta := mkMeta [] None.
Definition edata0 : edata := mkEData None [].

Definition set_version a v := mkArgon v (a_mem a) (a_par a) (a_it a) (a_salt a).
Definition set_mem a v := mkArgon (a_version a) v (a_par a) (a_it a) (a_salt a).
Definition set_par a v := mkArgon (a_version a) (a_mem a) v (a_it a) (a_salt a).
Definition set_it a v := mkArgon (a_version a) (a_mem a) (a_par a) v (a_salt a).
Definition set_salt a v := mkArgon (a_version a) (a_mem a) (a_par a) (a_it a) v.

(* RawNebulaArgon2Parameters: int32 version = 1; uint32 memory = 2; uint32 parallelism = 4; uint32 iterations = 3;
   bytes salt = 5. 32-bit fields keep the low 32 bits of the varint. *)
Definition argon_step (a : argon) (b : list N) : option (argon * list N) :=
  let? (num, typ, b1) := kc_tag_dec b in
  match num with
  | 1 => if typ =? 0 then kc_varint b1 (fun v => set_version a (w32 v)) else kc_unknown a num typ b1
  | 2 => if typ =? 0 then kc_varint b1 (fun v => set_mem a (w32 v)) else kc_unknown a num typ b1
  | 3 => if typ =? 0 then kc_varint b1 (fun v => set_it a (w32 v)) else kc_unknown a num typ b1
  | 4 => if typ =? 0 then kc_varint b1 (fun v => set_par a (w32 v)) else kc_unknown a num typ b1
  | 5 => if typ =? 2 then kc_bytes b1 (fun v => Some (set_salt a v)) else kc_unknown a num typ b1
  | _ => kc_unknown a num typ b1
  end.

(* RawNebulaEncryptionMetadata: string EncryptionAlgorithm = 1; RawNebulaArgon2Parameters Argon2Parameters = 2 *)
Definition meta_step (m : meta) (b : list N) : option (meta * list N) :=
  let? (num, typ, b1) := kc_tag_dec b in
  match num with
  | 1 => if typ =? 2 then kc_bytes b1 (fun v => if kc_utf8_valid v then Some (mkMeta v (m_argon m)) else None)
         else kc_unknown m num typ b1
  | 2 => if typ =? 2 then
           kc_bytes b1 (fun v => let? a := msg_run argon_step (match m_argon m with Some a => a | None => argon0 end) v in
                                 Some (mkMeta (m_alg m) (Some a)))
         else kc_unknown m num typ b1
  | _ => kc_unknown m num typ b1
  end.

(* RawNebulaEncryptedData: RawNebulaEncryptionMetadata EncryptionMetadata = 1; bytes Ciphertext = 2 *)
Definition edata_step (e : edata) (b : list N) : option (edata * list N) :=
  let? (num, typ, b1) := kc_tag_dec b in
  match num with
  | 1 => if typ =? 2 then
           kc_bytes b1 (fun v => let? m := msg_run meta_step (match e_meta e with Some m => m | None => meta0 end) v in
                                 Some (mkEData (Some m) (e_blob e)))
         else kc_unknown e num typ b1
  | 2 => if typ =? 2 then kc_bytes b1 (fun v => Some (mkEData (e_meta e) v)) else kc_unknown e num typ b1
  | _ => kc_unknown e num typ b1
  end.

Definition is_nil {A} (l : list A) : bool := match l with [] => true | _ => false end.

(* UnmarshalNebulaEncryptedData up to the protobuf part *)
Definition parse_edata (b : list N) : option edata := if is_nil b then None else msg_run edata_step edata0 b.

(* proto.Marshal of what EncryptAndMarshalSigningPrivateKey builds *)
Definition encode_argon (a : argon) : list N :=
  field_varint 1 (a_version a) ++ field_varint 2 (a_mem a) ++ field_varint 3 (a_it a) ++ field_varint 4 (a_par a) ++
  field_bytes 5 (a_salt a).
Definition encode_meta (alg : list N) (a : argon) : list N := field_bytes 1 alg ++ field_bytes 2 (encode_argon a).
Definition encode_edata (alg : list N) (a : argon) (blob : list N) : list N :=
  field_bytes 1 (encode_meta alg a) ++ field_bytes 2 blob.

(* the fields of a container that decode, flattened (None = something is missing) *)
Definition fields_of (e : edata) : option (list N * argon * list N) :=
  let? m := e_meta e in let? a := m_argon m in Some (m_alg m, a, e_blob e).

(* ---- curves, banners, key sizes -------------------------------------------------------------------- *)

Definition beq (a b : list N) : bool := nlist_eqb a b.
Definition ed25519_priv_len : N := 64.
Definition p256_priv_len : N := 32.
Definition min_salt_len : nat := 16.        (* deriveKey: "salt must be at least 128 bits" *)

Definition enc_banner (curve : N) : option (list N) :=
  match curve with 0 => Some banner_ed25519_enc | 1 => Some banner_ecdsa_p256_enc | _ => None end.
Definition enc_banner_curve (banner : list N) : option N :=
  if beq banner banner_ed25519_enc then Some 0 else if beq banner banner_ecdsa_p256_enc then Some 1 else None.
Definition signing_key_len (curve : N) : N := if curve =? 0 then ed25519_priv_len else p256_priv_len.
Definition key_len_ok (curve : N) (k : list N) : bool := N.of_nat (length k) =? signing_key_len curve.

(* unmarshalArgon2Parameters *)
Definition params_ok (a : argon) : bool :=
  negb (a_mem a =? 0) && negb (a_par a =? 0) && (a_par a <=? 255) && negb (a_it a =? 0).

Section Crypto.
  (* argon2.IDKey(passphrase, salt, iterations, memory, parallelism, 32) *)
  Variable kdf : list N -> list N -> N -> N -> N -> list N.
  (* AES-256-GCM: gcm.Seal(nil, nonce, plaintext, nil) and gcm.Open(nil, nonce, ciphertext, nil) *)
  Variable enc : list N -> list N -> list N -> list N.
  Variable dec : list N -> list N -> list N -> option (list N).

  Definition nonce_len : nat := N.to_nat gcm_nonce_len.

  (* EncryptAndMarshalSigningPrivateKey with the salt and nonce it drew: the PEM block *)
  Definition encrypt (curve : N) (key pass : list N) (mem par it : N) (salt nonce : list N) : option (list N * list N) :=
    let? banner := enc_banner curve in
    Some (banner, encode_edata alg_name (mkArgon argon2_version mem par it salt)
                               (nonce ++ enc (kdf pass salt it mem par) nonce key)).

  (* DecryptAndUnmarshalSigningPrivateKey on a PEM block: the curve and the key *)
  Definition decrypt (pass : list N) (blk : list N * list N) : option (N * list N) :=
    let? curve := enc_banner_curve (fst blk) in
    let? e := parse_edata (snd blk) in
    let? m := e_meta e in
    let? a := m_argon m in
    if negb (params_ok a) then None else
    if negb (beq (m_alg m) alg_name) then None else
    if negb (a_version a =? argon2_version) then None else
    if Nat.ltb (length (a_salt a)) min_salt_len then None else
    if Nat.leb (length (e_blob e)) nonce_len then None else
    let? pt := dec (kdf pass (a_salt a) (a_it a) (a_mem a) (a_par a))
                   (firstn nonce_len (e_blob e)) (skipn nonce_len (e_blob e)) in
    if key_len_ok curve pt then Some (curve, pt) else None.
End Crypto.

(* ---- plain key PEM blocks ---------------------------------------------------------------------------- *)

(* which banners each function takes, and the curve and length they stand for.
   0 UnmarshalPrivateKeyFromPEM, 1 UnmarshalSigningPrivateKeyFromPEM, 2 UnmarshalPublicKeyFromPEM,
   3 UnmarshalSigningPublicKeyFromPEM *)
Definition unmarshal_rule (fn : N) (banner : list N) : option (N * N) :=
  match fn with
  | 0 => if beq banner banner_x25519_priv then Some (0, 32) else if beq banner banner_p256_priv then Some (1, 32) else None
  | 1 => if beq banner banner_ed25519_priv then Some (0, 64)
         else if beq banner banner_ecdsa_p256_priv then Some (1, 32) else None
  | 2 => if beq banner banner_x25519_pub then Some (0, 32) else if beq banner banner_p256_pub then Some (1, 65) else None
  | 3 => if beq banner banner_ed25519_pub then Some (0, 32)
         else if beq banner banner_ecdsa_p256_pub then Some (1, 65) else None
  | _ => None
  end.

Definition unmarshal_key (fn : N) (blk : list N * list N) : option (list N * N) :=
  let? (curve, len) := unmarshal_rule fn (fst blk) in
  if N.of_nat (length (snd blk)) =? len then Some (snd blk, curve) else None.

(* 0 MarshalPrivateKeyToPEM, 1 MarshalSigningPrivateKeyToPEM, 2 MarshalPublicKeyToPEM, 3 MarshalSigningPublicKeyToPEM *)
Definition marshal_banner (fn curve : N) : option (list N) :=
  match fn, curve with
  | 0, 0 => Some banner_x25519_priv | 0, 1 => Some banner_p256_priv
  | 1, 0 => Some banner_ed25519_priv | 1, 1 => Some banner_ecdsa_p256_priv
  | 2, 0 => Some banner_x25519_pub | 2, 1 => Some banner_p256_pub
  | 3, 0 => Some banner_ed25519_pub | 3, 1 => Some banner_ecdsa_p256_pub
  | _, _ => None
  end.
Definition marshal_key (fn curve : N) (key : list N) : option (list N * list N) :=
  let? b := marshal_banner fn curve in Some (b, key).

(* every banner a key file can carry *)
Definition key_banners : list (list N) :=
  [banner_x25519_priv; banner_x25519_pub; banner_p256_priv; banner_p256_pub; banner_ecdsa_p256_enc;
   banner_ecdsa_p256_priv; banner_ecdsa_p256_pub; banner_ed25519_enc; banner_ed25519_priv; banner_ed25519_pub].

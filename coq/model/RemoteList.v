(* RemoteList: executable model of /repo/remote_list.go (RemoteList: per-owner cache, collect, sort, dedup,
   relays).  Definitions only - the lemmas are in proofs/RemoteList_*.v.

   Addresses are (family, numeric address, port).  A netip.Addr with a zone is not modelled (no source of
   the list produces one: protobuf entries carry no zone, the resolver results are plain addresses).

   What mirrors what:
     of_v4 / of_v6          protoV4AddrPortToNetAddrPort / protoV6AddrPortToNetAddrPort (port truncated to 16 bits,
                            v6 entries are Unmap()ed, so a v6 slot can hold an IPv4 address)
     pfx_contains           netip.Prefix.Contains (same family, top [bits] bits equal; low bits of the prefix ignored)
     is_private4            netip.Addr.IsPrivate on an IPv4 address (10/8, 172.16/12, 192.168/16)
     addr_compare           netip.Addr.Compare (bit length first, then the 128-bit value)
     less                   lessFunc inside unlockedSort, branch for branch
     set_reported           unlockedSetV4/V6: look at the first MaxRemotes entries, keep those the check accepts
     prepend_reported       unlockedPrependV4/V6
     set_relay              unlockedSetRelay
     collect_addrs          unlockedCollect (owners in the enumeration order of the cache - a Go map, so the
                            theorems quantify over every permutation -, then the resolver results)
     sort_by / dedup        sort.Slice + the in-place "compare with the last kept element" loop
     relays_of              map-dedup + slices.SortFunc(Addr.Compare) of the relays
     rebuild / copy_addrs   Rebuild / CopyAddrs, including the shouldRebuild flag *)
From Coq Require Import List NArith Bool.
Import ListNotations.
From NV Require Import gen.Consts_RemoteList.
Open Scope N_scope.

Inductive fam := F4 | F6.
Definition fam_eqb (a b : fam) : bool :=
  match a, b with F4, F4 => true | F6, F6 => true | _, _ => false end.

Definition addr := (fam * N)%type.          (* family, address value *)
Definition ap := (fam * N * N)%type.        (* family, address value, port *)
Definition prefix := (fam * N * N)%type.    (* family, address value, prefix length *)

Definition ap_addr (a : ap) : addr := fst a.
Definition ap_fam (a : ap) : fam := fst (fst a).
Definition ap_val (a : ap) : N := snd (fst a).
Definition ap_port (a : ap) : N := snd a.

Definition addr_eqb (a b : addr) : bool := fam_eqb (fst a) (fst b) && (snd a =? snd b).
Definition ap_eqb (a b : ap) : bool := addr_eqb (fst a) (fst b) && (snd a =? snd b).

Definition width (f : fam) : N := match f with F4 => 32 | F6 => 128 end.

(* ---- conversions from the protobuf entries ---- *)
Definition unmap_addr (a : addr) : addr :=
  match a with
  | (F6, v) => if N.shiftr v 32 =? 65535 then (F4, v mod 4294967296) else a
  | _ => a
  end.
Definition of_v4 (e : N * N) : ap := (F4, fst e, snd e mod 65536).
Definition of_v6 (e : N * N * N) : ap :=
  let '(hi, lo, p) := e in (unmap_addr (F6, hi * 18446744073709551616 + lo), p mod 65536).

(* ---- prefixes ---- *)
Definition pfx_contains (p : prefix) (a : addr) : bool :=
  let '(pf, pa, bits) := p in
  fam_eqb pf (fst a) && (bits <=? width pf) &&
  (N.shiftr (snd a) (width pf - bits) =? N.shiftr pa (width pf - bits)).
Definition in_any (ps : list prefix) (a : addr) : bool := existsb (fun p => pfx_contains p a) ps.

Definition is_private4 (v : N) : bool :=
  (N.shiftr v 24 =? 10) || (N.shiftr v 20 =? 2753) || (N.shiftr v 16 =? 49320).

(* ---- the order ---- *)
Definition is4 (a : ap) : bool := match ap_fam a with F4 => true | F6 => false end.

Definition addr_compare (a b : addr) : comparison :=
  match fst a, fst b with
  | F4, F6 => Lt
  | F6, F4 => Gt
  | _, _ => N.compare (snd a) (snd b)
  end.
Definition addr_ltb (a b : addr) : bool := match addr_compare a b with Lt => true | _ => false end.

Definition less (pref : list prefix) (a b : ap) : bool :=
  let aPref := in_any pref (ap_addr a) in
  let bPref := in_any pref (ap_addr b) in
  if aPref && negb bPref then true
  else if negb aPref && bPref then false
  else
    let a4 := is4 a in
    let b4 := is4 b in
    let by_addr_port :=
      match addr_compare (ap_addr a) (ap_addr b) with
      | Eq => ap_port a <? ap_port b
      | Lt => true
      | Gt => false
      end in
    if negb a4 && b4 then true
    else if a4 && negb b4 then false
    else if a4 && b4 then
      let aPriv := is_private4 (ap_val a) in
      let bPriv := is_private4 (ap_val b) in
      if negb aPriv && bPriv then true
      else if aPriv && negb bPriv then false
      else by_addr_port
    else by_addr_port.

(* ---- sorting and the dedup loop ---- *)
Section Sort.
  Context {A : Type} (lt : A -> A -> bool) (eqb : A -> A -> bool).
  Fixpoint insert_by (x : A) (l : list A) : list A :=
    match l with
    | [] => [x]
    | y :: r => if lt x y then x :: y :: r else y :: insert_by x r
    end.
  Fixpoint sort_by (l : list A) : list A :=
    match l with
    | [] => []
    | x :: r => insert_by x (sort_by r)
    end.
  (* a, b := 0, 1; for b < n { if addrs[a] != addrs[b] { a++; addrs[a] <- addrs[b] }; b++ }; addrs[:a+1]
     [last] is addrs[a], the last element kept *)
  Fixpoint dedup_from (last : A) (l : list A) : list A :=
    match l with
    | [] => []
    | x :: r => if eqb last x then dedup_from last r else x :: dedup_from x r
    end.
  Definition dedup (l : list A) : list A :=
    match l with
    | [] => []
    | x :: r => x :: dedup_from x r
    end.
  (* what a Go map keeps of a list of keys, in first-occurrence order (any other order is covered by the theorems) *)
  Fixpoint nodup_keys (l : list A) : list A :=
    match l with
    | [] => []
    | x :: r => x :: filter (fun y => negb (eqb x y)) (nodup_keys r)
    end.
End Sort.

Definition sort_addrs (pref : list prefix) (l : list ap) : list ap := dedup ap_eqb (sort_by (less pref) l).
Definition relays_of (l : list addr) : list addr := sort_by addr_ltb (nodup_keys addr_eqb l).

(* ---- the per-owner cache ---- *)
Record ocache := mkOC {
  oc_l4 : option ap; oc_r4 : list ap;
  oc_l6 : option ap; oc_r6 : list ap;
  oc_relay : list addr }.
Definition oc_empty : ocache := mkOC None [] None [] [].
Definition cache := list (addr * ocache).

Fixpoint cget (c : cache) (o : addr) : ocache :=
  match c with
  | [] => oc_empty
  | (k, v) :: r => if addr_eqb k o then v else cget r o
  end.
(* get-or-make, then modify *)
Fixpoint cupd (c : cache) (o : addr) (f : ocache -> ocache) : cache :=
  match c with
  | [] => [(o, f oc_empty)]
  | (k, v) :: r => if addr_eqb k o then (k, f v) :: r else (k, v) :: cupd r o f
  end.
(* modify only if present (ResetForOwner) *)
Fixpoint cmod (c : cache) (o : addr) (f : ocache -> ocache) : cache :=
  match c with
  | [] => []
  | (k, v) :: r => if addr_eqb k o then (k, f v) :: r else (k, v) :: cmod r o f
  end.

Definition cap : nat := N.to_nat MaxRemotes.

Definition set_reported (chk : ap -> bool) (to : list ap) : list ap := filter chk (firstn cap to).
Definition prepend_reported (x : ap) (cur : list ap) : list ap := firstn cap (x :: cur).
Definition set_relay (to : list addr) : list addr := firstn cap to.

Definition opt_list {A} (o : option A) : list A := match o with Some x => [x] | None => [] end.
Definition oc_addrs (c : ocache) : list ap := opt_list (oc_l4 c) ++ oc_r4 c ++ opt_list (oc_l6 c) ++ oc_r6 c.

Definition is_bad (bad : list ap) (a : ap) : bool := existsb (ap_eqb a) bad.

Definition cache_addrs (c : cache) : list ap := flat_map (fun e => oc_addrs (snd e)) c.
Definition collect_addrs (admission : addr -> bool) (c : cache) (dns bad : list ap) : list ap :=
  filter (fun a => negb (is_bad bad a)) (cache_addrs c)
  ++ filter (fun a => admission (ap_addr a) && negb (is_bad bad a)) dns.
Definition collect_relays (c : cache) : list addr := flat_map (fun e => oc_relay (snd e)) c.

(* ---- the RemoteList state machine ---- *)
Record rl := mkRL {
  rl_vpn : list addr;      (* vpnAddrs: handed to shouldAdd for the resolver results *)
  rl_cache : cache;
  rl_dns : list ap;        (* hostnamesResults.ips (a set) *)
  rl_bad : list ap;        (* badRemotes *)
  rl_addrs : list ap;      (* addrs *)
  rl_relays : list addr;   (* relays *)
  rl_dirty : bool }.       (* shouldRebuild *)

Definition rl_new (vpn : list addr) : rl := mkRL vpn [] [] [] [] [] false.

Inductive rop :=
| RLearn (o : addr) (a : ap)                          (* LearnRemote *)
| RSet4 (o vpn : addr) (to : list (N * N))            (* unlockedSetV4 owner vpnIp to check *)
| RSet6 (o vpn : addr) (to : list (N * N * N))        (* unlockedSetV6 *)
| RPre4 (o : addr) (e : N * N)                        (* unlockedPrependV4 *)
| RPre6 (o : addr) (e : N * N * N)                    (* unlockedPrependV6 *)
| RRelay (o : addr) (to : list addr)                  (* unlockedSetRelay *)
| RBlock (a : ap)                                     (* BlockRemote (not relayed) *)
| RUnblock                                            (* ResetBlockedRemotes *)
| RRefresh (vpn : list addr)                          (* RefreshFromHandshake *)
| RDns (l : list ap)                                  (* new resolver results + the onUpdate callback *)
| RClearDns                                           (* ClearHostnameResults *)
| RResetOwner (o : addr)                              (* ResetForOwner *)
| RRebuild (pref : list prefix).                      (* Rebuild / Len / ForEach / CopyAddrs *)

Section Step.
  (* admission vpnAddrs addr : the shouldAdd callback (fun _ _ => true when nil);
     chk vpn a           : the check callback given to unlockedSetV4/V6 *)
  Variable admission : list addr -> addr -> bool.
  Variable chk : addr -> ap -> bool.

  Definition with_cache (s : rl) (c : cache) : rl :=
    mkRL (rl_vpn s) c (rl_dns s) (rl_bad s) (rl_addrs s) (rl_relays s) true.

  Definition rebuild (pref : list prefix) (s : rl) : rl :=
    let addrs := if rl_dirty s then collect_addrs (admission (rl_vpn s)) (rl_cache s) (rl_dns s) (rl_bad s) else rl_addrs s in
    let relays := if rl_dirty s then collect_relays (rl_cache s) else rl_relays s in
    mkRL (rl_vpn s) (rl_cache s) (rl_dns s) (rl_bad s) (sort_addrs pref addrs) (relays_of relays) false.

  Definition rstep (s : rl) (o : rop) : rl :=
    match o with
    | RLearn ow a =>
        if is4 a
        then with_cache s (cupd (rl_cache s) ow (fun c => mkOC (Some a) (oc_r4 c) (oc_l6 c) (oc_r6 c) (oc_relay c)))
        else with_cache s (cupd (rl_cache s) ow (fun c => mkOC (oc_l4 c) (oc_r4 c) (Some (unmap_addr (ap_addr a), ap_port a)) (oc_r6 c) (oc_relay c)))
    | RSet4 ow vpn to =>
        with_cache s (cupd (rl_cache s) ow (fun c => mkOC (oc_l4 c) (set_reported (chk vpn) (map of_v4 to)) (oc_l6 c) (oc_r6 c) (oc_relay c)))
    | RSet6 ow vpn to =>
        with_cache s (cupd (rl_cache s) ow (fun c => mkOC (oc_l4 c) (oc_r4 c) (oc_l6 c) (set_reported (chk vpn) (map of_v6 to)) (oc_relay c)))
    | RPre4 ow e =>
        with_cache s (cupd (rl_cache s) ow (fun c => mkOC (oc_l4 c) (prepend_reported (of_v4 e) (oc_r4 c)) (oc_l6 c) (oc_r6 c) (oc_relay c)))
    | RPre6 ow e =>
        with_cache s (cupd (rl_cache s) ow (fun c => mkOC (oc_l4 c) (oc_r4 c) (oc_l6 c) (prepend_reported (of_v6 e) (oc_r6 c)) (oc_relay c)))
    | RRelay ow to =>
        with_cache s (cupd (rl_cache s) ow (fun c => mkOC (oc_l4 c) (oc_r4 c) (oc_l6 c) (oc_r6 c) (set_relay to)))
    | RBlock a =>
        if is_bad (rl_bad s) a then s
        else mkRL (rl_vpn s) (rl_cache s) (rl_dns s) (rl_bad s ++ [a]) (rl_addrs s) (rl_relays s) true
    | RUnblock => mkRL (rl_vpn s) (rl_cache s) (rl_dns s) [] (rl_addrs s) (rl_relays s) true
    | RRefresh vpn => mkRL vpn (rl_cache s) (rl_dns s) [] (rl_addrs s) (rl_relays s) true
    | RDns l => mkRL (rl_vpn s) (rl_cache s) l (rl_bad s) (rl_addrs s) (rl_relays s) true
    | RClearDns => mkRL (rl_vpn s) (rl_cache s) [] (rl_bad s) (rl_addrs s) (rl_relays s) true
    | RResetOwner ow =>
        with_cache s (cmod (rl_cache s) ow (fun c => mkOC (oc_l4 c) [] (oc_l6 c) [] (oc_relay c)))
    | RRebuild pref => rebuild pref s
    end.

  Definition rrun (s : rl) (ops : list rop) : rl := fold_left rstep ops s.

  (* CopyAddrs preferredRanges *)
  Definition copy_addrs (pref : list prefix) (s : rl) : list ap := rl_addrs (rebuild pref s).
  Definition copy_relays (pref : list prefix) (s : rl) : list addr := rl_relays (rebuild pref s).

  (* the set the property speaks about: learned + reported + admitted resolved, not blocked *)
  Definition sources (s : rl) : list ap := collect_addrs (admission (rl_vpn s)) (rl_cache s) (rl_dns s) (rl_bad s).
End Step.

(* Model of /repo/bits.go (the anti-replay window) and the abstract specification of property C11.
   Executable definitions only.

   Word level: every Go uint64 expression that can wrap goes through add64 / sub64 / shl64, so the
   behaviour near 2^64 is the behaviour of the code (this is what C11_wrap_refuted evaluates).
   &, |, &^ and >> cannot leave the uint64 range and are N.land / N.lor / N.ldiff / N.shiftr.
   Not modelled: the three metrics counters (lost / duplicate / out_of_window) and the debug log
   lines - they are not observables of the property. clearRange's return value (the popcount of the
   cleared bits) only feeds the lost-packet metric and is dropped for the same reason. *)
From Coq Require Import List NArith Bool.
Import ListNotations.
From NV Require Import lib.Bytes.
Open Scope N_scope.

Definition two64 : N := 18446744073709551616.
Definition max64 : N := 18446744073709551615.          (* math.MaxUint64 *)

Definition add64 (a b : N) : N := w64 (a + b).
Definition sub64 (a b : N) : N := w64 (a + two64 - b).   (* a - b on uint64 (a, b < 2^64) *)
Definition shl64 (a s : N) : N := w64 (N.shiftl a s).    (* a << s on uint64; s >= 64 gives 0 as in Go *)

Record bits := mkBits { b_len : N; b_mask : N; b_cur : N; b_words : list N }.

Definition with_words (b : bits) (ws : list N) : bits := mkBits (b_len b) (b_mask b) (b_cur b) ws.
Definition with_cur (b : bits) (c : N) : bits := mkBits (b_len b) (b_mask b) c (b_words b).

(* b.bits[w] read and write. An index outside the slice panics in Go; proofs/Bits_word.v shows that
   every index used below is inside the slice (word_index_ok), so the defaults are never reached. *)
Definition nth_word (ws : list N) (w : N) : N := nth (N.to_nat w) ws 0.
Fixpoint set_word (ws : list N) (w : nat) (v : N) : list N :=
  match ws, w with
  | [], _ => []
  | _ :: r, O => v :: r
  | x :: r, S w' => x :: set_word r w' v
  end.

(* NewBits: None stands for the panic on a length that is not a power of two. *)
Definition new_bits (L : N) : option bits :=
  if (L =? 0) || negb (N.land L (sub64 L 1) =? 0) then None
  else
    let nw := L / 64 in
    let nw := if nw =? 0 then 1 else nw in
    Some (mkBits L (sub64 L 1) 0 (set_word (repeat 0 (N.to_nat nw)) 0 1)).

Definition get (b : bits) (i : N) : bool :=
  let pos := N.land i (b_mask b) in
  negb (N.land (nth_word (b_words b) (N.shiftr pos 6)) (shl64 1 (N.land pos 63)) =? 0).

Definition set (b : bits) (i : N) : bits :=
  let pos := N.land i (b_mask b) in
  let word := N.shiftr pos 6 in
  with_words b (set_word (b_words b) (N.to_nat word)
                         (N.lor (nth_word (b_words b) word) (shl64 1 (N.land pos 63)))).

(* the "for remaining >= 64" loop of clearRange. It runs exactly remaining/64 times, which is the fuel
   handed in by clear_range (cr_loop_exits in proofs/Bits_word.v: it always leaves with remaining < 64). *)
Fixpoint cr_loop (fuel : nat) (mask : N) (ws : list N) (remaining pos : N) : list N * N * N :=
  match fuel with
  | O => (ws, remaining, pos)
  | S f =>
      if 64 <=? remaining
      then cr_loop f mask (set_word ws (N.to_nat (N.shiftr pos 6)) 0) (sub64 remaining 64)
                   (N.land (add64 pos 64) mask)
      else (ws, remaining, pos)
  end.

Definition clear_range (b : bits) (startPos count : N) : list N :=
  let ws := b_words b in
  if b_len b <=? count then map (fun _ => 0) ws            (* clear(b.bits) *)
  else
    let pos := startPos in
    let remaining := count in
    let word := N.shiftr pos 6 in
    let bit := N.land pos 63 in
    let take := sub64 64 bit in
    let take := if remaining <? take then remaining else take in
    let take := if sub64 (b_len b) pos <? take then sub64 (b_len b) pos else take in
    let mask := if take =? 64 then max64 else shl64 (sub64 (shl64 1 take) 1) bit in
    let ws := set_word ws (N.to_nat word) (N.ldiff (nth_word ws word) mask) in
    let remaining := sub64 remaining take in
    let pos := N.land (add64 pos take) (b_mask b) in
    let '(ws, remaining, pos) := cr_loop (N.to_nat (remaining / 64)) (b_mask b) ws remaining pos in
    if 0 <? remaining then
      let word := N.shiftr pos 6 in
      let mask := sub64 (shl64 1 remaining) 1 in
      set_word ws (N.to_nat word) (N.ldiff (nth_word ws word) mask)
    else ws.

Definition strictly_within (b : bits) (i : N) : bool :=
  let inWarmup := b_cur b <? b_len b in
  if (i <? b_len b) && inWarmup then true
  else if sub64 (b_cur b) (b_len b) <? i then true
  else false.

Definition check (b : bits) (i : N) : bool :=
  if b_cur b <? i then true
  else if strictly_within b i then negb (get b i)
  else false.

Definition update_slow (b : bits) (i : N) : bool * bits :=
  if b_cur b <? i then
    let end_ := i in
    let end_ := if add64 (b_cur b) (b_len b) <? end_ then add64 (b_cur b) (b_len b) else end_ in
    let count := sub64 end_ (b_cur b) in
    let startPos := N.land (add64 (b_cur b) 1) (b_mask b) in
    (* both arms (steady state and warm-up) call clearRange(startPos, count); they differ in metrics only *)
    let b1 := with_words b (clear_range b startPos count) in
    let b2 := set b1 i in
    (true, with_cur b2 i)
  else if strictly_within b i then
    let pos := N.land i (b_mask b) in
    let word := N.shiftr pos 6 in
    let mask := shl64 1 (N.land pos 63) in
    let w := nth_word (b_words b) word in
    if (b_cur b =? i) || negb (N.land w mask =? 0) then (false, b)
    else (true, with_words b (set_word (b_words b) (N.to_nat word) (N.lor w mask)))
  else (false, b).

Definition update (b : bits) (i : N) : bool * bits :=
  if i =? add64 (b_cur b) 1 then
    let pos := N.land i (b_mask b) in
    let word := N.shiftr pos 6 in
    let mask := shl64 1 (N.land pos 63) in
    let w := nth_word (b_words b) word in
    (true, mkBits (b_len b) (b_mask b) i (set_word (b_words b) (N.to_nat word) (N.lor w mask)))
  else update_slow b i.

(* operation histories *)
Inductive op := OCheck (i : N) | OUpdate (i : N).
Definition op_ctr (o : op) : N := match o with OCheck i => i | OUpdate i => i end.

Definition step_op (b : bits) (o : op) : bool * bits :=
  match o with
  | OCheck i => (check b i, b)
  | OUpdate i => update b i
  end.

Fixpoint run_ops (b : bits) (ops : list op) : list bool * bits :=
  match ops with
  | [] => ([], b)
  | o :: r => let '(v, b1) := step_op b o in let '(vs, b2) := run_ops b1 r in (v :: vs, b2)
  end.

(* ---------------------------------------------------------------------------------------------
   The abstract specification of C11: the highest accepted counter and the set of accepted
   counters. Counter 0 counts as seen from the start (there is no message number 0). A counter is
   accepted iff it has not been seen and it is above the highest accepted counter or inside the
   window of L counters ending at it (for cur < L that window is 0..cur: the initial window).
   --------------------------------------------------------------------------------------------- *)
Record spec_state := mkSpec { s_cur : N; s_acc : list N }.
Definition spec_init : spec_state := mkSpec 0 [].

Definition seen (s : spec_state) (i : N) : bool := (i =? 0) || existsb (N.eqb i) (s_acc s).
Definition in_window (L cur i : N) : bool := (i <=? cur) && (cur <? i + L).
Definition spec_accept (L : N) (s : spec_state) (i : N) : bool :=
  negb (seen s i) && ((s_cur s <? i) || in_window L (s_cur s) i).
Definition spec_update (L : N) (s : spec_state) (i : N) : bool * spec_state :=
  if spec_accept L s i then (true, mkSpec (N.max (s_cur s) i) (i :: s_acc s)) else (false, s).

Definition spec_step (L : N) (s : spec_state) (o : op) : bool * spec_state :=
  match o with
  | OCheck i => (spec_accept L s i, s)
  | OUpdate i => spec_update L s i
  end.

Fixpoint spec_run (L : N) (s : spec_state) (ops : list op) : list bool * spec_state :=
  match ops with
  | [] => ([], s)
  | o :: r => let '(v, s1) := spec_step L s o in let '(vs, s2) := spec_run L s1 r in (v :: vs, s2)
  end.

(* the hypothesis of the theorems: every counter of the history stays one window short of 2^64 *)
Definition in_range (L : N) (i : N) : bool := i <? two64 - L.
Definition ops_in_range (L : N) (ops : list op) : bool := forallb (fun o => in_range L (op_ctr o)) ops.

(* number of accepting Updates of counter c in a history with its verdicts *)
Fixpoint accepted_count (c : N) (ops : list op) (vs : list bool) : nat :=
  match ops, vs with
  | OUpdate i :: r, v :: vr => (if (i =? c) && v then 1 else 0) + accepted_count c r vr
  | _ :: r, _ :: vr => accepted_count c r vr
  | _, _ => 0
  end.

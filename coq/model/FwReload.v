(* Model of Interface.reloadFirewall (/repo/interface.go) on top of model/Conntrack.v, timed histories of
   packets / sleeps / reloads over a node, and the history-level specification of properties C18 and C19
   (one flow at a time). Executable definitions only.

   reloadFirewall, when it installs a new firewall: a new Firewall is built from the configuration (new rule
   tables, new timeouts, its own empty conntrack); rulesVersion = old + 1 in uint16; if that is 0 the counter has
   wrapped and the NEW (empty) conntrack is kept ("be safe and just reset conntrack"); otherwise the new firewall
   inherits the old conntrack (table and timer wheel, the wheel keeping the tick and span it was created with).
   A reload that detects no change (config text of `firewall` equal and unsafe networks equal) installs nothing and
   is not an event of the model. *)
From Coq Require Import List ZArith NArith Bool.
Import ListNotations.
From NV Require Import model.Wheel model.Conntrack.

Record node := mkNode { n_fw : fwcfg; n_ct : ctrack; n_now : Z }.

Definition next_ver (v : N) : N := ((v + 1) mod 65536)%N.

Definition reload (rs : N) (tcp udp def : Z) (n : node) : node :=
  let v := next_ver (f_ver (n_fw n)) in
  let fw := mkFw rs v tcp udp def in
  if N.eqb v 0 then mkNode fw (new_ct tcp udp def) (n_now n) else mkNode fw (n_ct n) (n_now n).

(* a node as main.go builds it: firewall from config, rulesVersion v0 (0 in nebula; the correspondence presets it
   near the wrap), empty conntrack, clock at t0 *)
Definition boot (rs v0 : N) (tcp udp def : Z) (t0 : Z) : node :=
  mkNode (mkFw rs v0 tcp udp def) (new_ct tcp udp def) t0.

Inductive ev :=
| EPkt (peer : N) (incoming : bool) (t : tuple)     (* Firewall.Drop on a classified packet *)
| ESleep (d : Z)                                    (* the clock moves forward by d (not at all if d < 0) *)
| EReload (rs : N) (tcp udp def : Z).               (* a reload that installs a new firewall *)

Section Run.
Variable allowed : N -> N -> bool -> tuple -> bool.
Variable addr_ok : N -> N -> tuple -> bool.

(* one event: the verdict (packets only) and the node afterwards *)
Definition step (e : ev) (n : node) : option bool * node :=
  match e with
  | EPkt p d t =>
      let (v, ct) := drop allowed addr_ok (n_fw n) p (n_now n) d t (n_ct n) in
      (Some v, mkNode (n_fw n) ct (n_now n))
  | ESleep d => (None, mkNode (n_fw n) (n_ct n) (n_now n + Z.max 0 d))
  | EReload rs tcp udp def => (None, reload rs tcp udp def n)
  end.

Fixpoint exec (h : list ev) (n : node) : node :=
  match h with [] => n | e :: r => exec r (snd (step e n)) end.

(* the verdicts of the packets of h, in order *)
Fixpoint verdicts (h : list ev) (n : node) : list bool :=
  match h with
  | [] => []
  | e :: r => match fst (step e n) with Some v => [v] | None => [] end ++ verdicts r (snd (step e n))
  end.

(* ---- the specification, for one flow f ------------------------------------------------------------------

   What is known about flow f from the history alone:
     FNone              not tracked (never allowed, expired, refused since, or the conntrack was reset);
     FKnown exp d0 fr   tracked: honoured last at exp - timeout, established by a rule in direction d0
                        (d0 = true: incoming), fr = validated under the rule set currently loaded.
   A packet of f passes iff the address checks pass and: a rule allows it, or f is tracked, now <= exp (idle for
   no longer than the timeout) and its original direction is valid under the rules now loaded (fr, or re-checked
   now for this packet's peer). A packet that passes (re)starts the idle period; a refused flow is forgotten.

   [wr] (wrap resets): true = as the code does, the reload that takes rulesVersion from 65535 to 0 forgets every
   flow; false = the property as stated (a reload only ever marks flows for revalidation). The two agree on
   histories without a wrap ([no_wrap]). *)
Inductive fstate := FNone | FKnown (exp : Z) (d0 fr : bool).

Record sstate := mkS { s_fw : fwcfg; s_now : Z; s_fs : fstate }.

Definition after_rules (now T : Z) (d v : bool) : fstate := if v then FKnown (now + T) d true else FNone.

(* is the tracked state live and valid for this packet's peer? *)
Definition fl_live (fw : fwcfg) (now : Z) (fs : fstate) (p : N) (f : tuple) : bool :=
  match fs with
  | FNone => false
  | FKnown e d0 fr => negb (e <? now)%Z && (fr || allowed (f_rules fw) p d0 f)
  end.

Definition fl_verdict (fw : fwcfg) (now : Z) (fs : fstate) (p : N) (d : bool) (f : tuple) : bool :=
  addr_ok (f_rules fw) p f && (fl_live fw now fs p f || allowed (f_rules fw) p d f).

Definition fl_next (fw : fwcfg) (now : Z) (fs : fstate) (p : N) (d : bool) (f : tuple) : fstate :=
  if negb (addr_ok (f_rules fw) p f) then fs
  else if fl_live fw now fs p f then
    match fs with FKnown _ d0 _ => FKnown (now + timeout_of fw f) d0 true | FNone => FNone end
  else after_rules now (timeout_of fw f) d (allowed (f_rules fw) p d f).

Definition s_reload (wr : bool) (rs : N) (tcp udp def : Z) (s : sstate) : sstate :=
  let v := next_ver (f_ver (s_fw s)) in
  let fs := if wr && N.eqb v 0 then FNone
            else match s_fs s with FKnown e d0 _ => FKnown e d0 false | x => x end in
  mkS (mkFw rs v tcp udp def) (s_now s) fs.

Definition s_step (wr : bool) (f : tuple) (e : ev) (s : sstate) : sstate :=
  match e with
  | ESleep d => mkS (s_fw s) (s_now s + Z.max 0 d) (s_fs s)
  | EReload rs tcp udp def => s_reload wr rs tcp udp def s
  | EPkt p d t =>
      if tuple_eqb f t then mkS (s_fw s) (s_now s) (fl_next (s_fw s) (s_now s) (s_fs s) p d f) else s
  end.

(* the verdicts the specification prescribes for the packets of f *)
Fixpoint flow_fn (wr : bool) (f : tuple) (s : sstate) (h : list ev) : list bool :=
  match h with
  | [] => []
  | EPkt p d t :: r =>
      if tuple_eqb f t then fl_verdict (s_fw s) (s_now s) (s_fs s) p d f :: flow_fn wr f (s_step wr f (EPkt p d t) s) r
      else flow_fn wr f s r
  | e :: r => flow_fn wr f (s_step wr f e s) r
  end.

(* [flow_ok wr f s h vs]: the verdict list vs (one per packet of h, all flows) is what the specification prescribes
   for the packets of flow f. *)
Fixpoint flow_ok (wr : bool) (f : tuple) (s : sstate) (h : list ev) (vs : list bool) : bool :=
  match h with
  | [] => match vs with [] => true | _ => false end
  | EPkt p d t :: r =>
      match vs with
      | [] => false
      | v :: vs' =>
          (if tuple_eqb f t then Bool.eqb v (fl_verdict (s_fw s) (s_now s) (s_fs s) p d f) else true)
          && flow_ok wr f (s_step wr f (EPkt p d t) s) r vs'
      end
  | e :: r => flow_ok wr f (s_step wr f e s) r vs
  end.

(* no packet of flow f in h is allowed by the rule set loaded when it arrives (rs: the one loaded at the start) *)
Fixpoint quiet (f : tuple) (rs : N) (h : list ev) : bool :=
  match h with
  | [] => true
  | EPkt p d t :: r => (if tuple_eqb f t then negb (addr_ok rs p t && allowed rs p d t) else true) && quiet f rs r
  | ESleep _ :: r => quiet f rs r
  | EReload rs' _ _ _ :: r => quiet f rs' r
  end.

End Run.

(* ---- a routine with a conntrack cache ----------------------------------------------------------------------

   firewall.ConntrackCacheTicker: a ticker of period P started at instant c0 counts ticks; Get() hands out the cache
   and replaces it by an empty one if a tick happened since the previous Get. Packets take no time, so this is: the
   cache is emptied whenever the clock passes (or reaches) an instant c0 + k*P, k >= 1. A reload does not touch the
   cache (it belongs to the receive routine, not to the firewall). *)
Record cnode := mkCN { cn_node : node; cn_cache : list tuple; cn_period : Z; cn_origin : Z }.

Definition tick_idx (P c0 t : Z) : Z := ((t - c0) / P)%Z.
(* did the ticker fire in (t, t'] ? *)
Definition ticked (P c0 t t' : Z) : bool := (tick_idx P c0 t <? tick_idx P c0 t')%Z.

Definition cboot (n : node) (P : Z) : cnode := mkCN n [] P (n_now n).

Section RunCache.
Variable allowed : N -> N -> bool -> tuple -> bool.
Variable addr_ok : N -> N -> tuple -> bool.

Definition cstep (e : ev) (cn : cnode) : option bool * cnode :=
  let n := cn_node cn in
  match e with
  | EPkt p d t =>
      let '(v, ch, ct) := drop_c allowed addr_ok (n_fw n) p (n_now n) d t (cn_cache cn) (n_ct n) in
      (Some v, mkCN (mkNode (n_fw n) ct (n_now n)) ch (cn_period cn) (cn_origin cn))
  | ESleep d =>
      let now' := (n_now n + Z.max 0 d)%Z in
      (None, mkCN (mkNode (n_fw n) (n_ct n) now')
                  (if ticked (cn_period cn) (cn_origin cn) (n_now n) now' then [] else cn_cache cn)
                  (cn_period cn) (cn_origin cn))
  | EReload rs tcp udp def =>
      (None, mkCN (reload rs tcp udp def n) (cn_cache cn) (cn_period cn) (cn_origin cn))
  end.

Fixpoint cexec (h : list ev) (cn : cnode) : cnode :=
  match h with [] => cn | e :: r => cexec r (snd (cstep e cn)) end.

Fixpoint cverdicts (h : list ev) (cn : cnode) : list bool :=
  match h with
  | [] => []
  | e :: r => match fst (cstep e cn) with Some v => [v] | None => [] end ++ cverdicts r (snd (cstep e cn))
  end.

(* the specification of flow f with a cache: the state of the flow as before, plus "f is in the cache".
   A cached flow passes (address checks first) and nothing changes - in particular the idle period is NOT
   restarted; f enters the cache when a packet of f is honoured by the table (live and valid); the cache is
   emptied at every tick. This is the documented staleness: a flow may be honoured for up to one cache period
   after it expired or lost its rule. *)
Record cstate := mkCS { cs_s : sstate; cs_cached : bool; cs_period : Z; cs_origin : Z }.

Definition cfl_verdict (cs : cstate) (p : N) (d : bool) (f : tuple) : bool :=
  let s := cs_s cs in
  addr_ok (f_rules (s_fw s)) p f
  && (cs_cached cs || fl_live allowed (s_fw s) (s_now s) (s_fs s) p f || allowed (f_rules (s_fw s)) p d f).

Definition cs_step (wr : bool) (f : tuple) (e : ev) (cs : cstate) : cstate :=
  let s := cs_s cs in
  match e with
  | ESleep d =>
      let now' := (s_now s + Z.max 0 d)%Z in
      mkCS (mkS (s_fw s) now' (s_fs s))
           (if ticked (cs_period cs) (cs_origin cs) (s_now s) now' then false else cs_cached cs)
           (cs_period cs) (cs_origin cs)
  | EReload rs tcp udp def => mkCS (s_reload wr rs tcp udp def s) (cs_cached cs) (cs_period cs) (cs_origin cs)
  | EPkt p d t =>
      if negb (tuple_eqb f t) then cs
      else if negb (addr_ok (f_rules (s_fw s)) p f) then cs
      else if cs_cached cs then cs
      else mkCS (mkS (s_fw s) (s_now s) (fl_next allowed addr_ok (s_fw s) (s_now s) (s_fs s) p d f))
                (fl_live allowed (s_fw s) (s_now s) (s_fs s) p f) (cs_period cs) (cs_origin cs)
  end.

Fixpoint cflow_ok (wr : bool) (f : tuple) (cs : cstate) (h : list ev) (vs : list bool) : bool :=
  match h with
  | [] => match vs with [] => true | _ => false end
  | EPkt p d t :: r =>
      match vs with
      | [] => false
      | v :: vs' =>
          (if tuple_eqb f t then Bool.eqb v (cfl_verdict cs p d f) else true)
          && cflow_ok wr f (cs_step wr f (EPkt p d t) cs) r vs'
      end
  | e :: r => cflow_ok wr f (cs_step wr f e cs) r vs
  end.

End RunCache.

Definition cspec_boot (s : sstate) (P : Z) : cstate := mkCS s false P (s_now s).

(* no tick of the cache ticker while h runs from instant t *)
Fixpoint no_tick (P c0 t : Z) (h : list ev) : bool :=
  match h with
  | [] => true
  | ESleep d :: r => negb (ticked P c0 t (t + Z.max 0 d)) && no_tick P c0 (t + Z.max 0 d)%Z r
  | _ :: r => no_tick P c0 t r
  end.

(* the verdicts of the packets of flow f among vs (one per packet of h) *)
Fixpoint restrict (f : tuple) (h : list ev) (vs : list bool) : list bool :=
  match h with
  | [] => []
  | EPkt _ _ t :: r =>
      match vs with
      | [] => []
      | v :: vs' => if tuple_eqb f t then v :: restrict f r vs' else restrict f r vs'
      end
  | _ :: r => restrict f r vs
  end.

(* the history with the packets of all other flows removed (sleeps and reloads kept) *)
Fixpoint proj (f : tuple) (h : list ev) : list ev :=
  match h with
  | [] => []
  | EPkt p d t :: r => if tuple_eqb f t then EPkt p d t :: proj f r else proj f r
  | e :: r => e :: proj f r
  end.

(* the tuples of the packets of h *)
Fixpoint tuples_of (h : list ev) : list tuple :=
  match h with
  | [] => []
  | EPkt _ _ t :: r => t :: tuples_of r
  | _ :: r => tuples_of r
  end.

Definition spec_boot (rs v0 : N) (tcp udp def : Z) (t0 : Z) : sstate := mkS (mkFw rs v0 tcp udp def) t0 FNone.

Definition elapsed (h : list ev) : Z :=
  fold_right (fun e acc => match e with ESleep d => (Z.max 0 d + acc)%Z | _ => acc end) 0%Z h.

(* no reload of h takes the rules version (v at the start) from 65535 to 0 *)
Fixpoint no_wrap (v : N) (h : list ev) : bool :=
  match h with
  | [] => true
  | EReload _ _ _ _ :: r => negb (N.eqb (next_ver v) 0) && no_wrap (next_ver v) r
  | _ :: r => no_wrap v r
  end.

Definition is_reload (e : ev) : bool := match e with EReload _ _ _ _ => true | _ => false end.
Definition on_flow (f : tuple) (e : ev) : bool := match e with EPkt _ _ t => tuple_eqb f t | _ => false end.
(* nothing but sleeps and packets of other flows *)
Definition others_only (f : tuple) (h : list ev) : bool :=
  forallb (fun e => negb (on_flow f e) && negb (is_reload e)) h.

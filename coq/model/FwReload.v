(* Model of Interface.reloadFirewall (/repo/interface.go) on top of model/Conntrack.v, timed histories of
   packets / sleeps / reloads over a node, and the history-level specification of properties C18 and C19
   (one flow at a time). Executable definitions only.

   reloadFirewall, when it installs a new firewall: a new Firewall is built from the configuration (new rule
   tables, new timeouts, its own empty conntrack); rulesVersion = old + 1 in uint16; if that is 0 the counter has
   wrapped and the NEW (empty) conntrack is kept ("be safe and just reset conntrack"); otherwise the new firewall
   inherits the old conntrack (table and timer wheel, the wheel keeping the tick and span it was created with).
   A reload that detects no change (config text of `firewall` equal and unsafe networks equal) installs nothing and
   is not an event of the model. *)
From Coq Require Import List ZArith NArith Bool.
Import ListNotations.
From NV Require Import model.Wheel model.Conntrack.

Record node := mkNode { n_fw : fwcfg; n_ct : ctrack; n_now : Z }.

Definition next_ver (v : N) : N := ((v + 1) mod 65536)%N.

Definition reload (rs : N) (tcp udp def : Z) (n : node) : node :=
  let v := next_ver (f_ver (n_fw n)) in
  let fw := mkFw rs v tcp udp def in
  if N.eqb v 0 then mkNode fw (new_ct tcp udp def) (n_now n) else mkNode fw (n_ct n) (n_now n).

(* a node as main.go builds it: firewall from config, rulesVersion v0 (0 in nebula; the correspondence presets it
   near the wrap), empty conntrack, clock at t0 *)
Definition boot (rs v0 : N) (tcp udp def : Z) (t0 : Z) : node :=
  mkNode (mkFw rs v0 tcp udp def) (new_ct tcp udp def) t0.

Inductive ev :=
| EPkt (peer : N) (incoming : bool) (t : tuple)     (* Firewall.Drop on a classified packet *)
| ESleep (d : Z)                                    (* the clock moves forward by d (not at all if d < 0) *)
| EReload (rs : N) (tcp udp def : Z).               (* a reload that installs a new firewall *)

Section Run.
Variable allowed : N -> N -> bool -> tuple -> bool.
Variable addr_ok : N -> N -> tuple -> bool.

(* one event: the verdict (packets only) and the node afterwards *)
Definition step (e : ev) (n : node) : option bool * node :=
  match e with
  | EPkt p d t =>
      let (v, ct) := drop allowed addr_ok (n_fw n) p (n_now n) d t (n_ct n) in
      (Some v, mkNode (n_fw n) ct (n_now n))
  | ESleep d => (None, mkNode (n_fw n) (n_ct n) (n_now n + Z.max 0 d))
  | EReload rs tcp udp def => (None, reload rs tcp udp def n)
  end.

Fixpoint exec (h : list ev) (n : node) : node :=
  match h with [] => n | e :: r => exec r (snd (step e n)) end.

(* the verdicts of the packets of h, in order *)
Fixpoint verdicts (h : list ev) (n : node) : list bool :=
  match h with
  | [] => []
  | e :: r => match fst (step e n) with Some v => [v] | None => [] end ++ verdicts r (snd (step e n))
  end.

(* ---- the specification, for one flow f ------------------------------------------------------------------

   What is known about flow f from the history alone:
     FNone              not tracked (never allowed, expired, refused since, or the conntrack was reset);
     FKnown exp d0 fr   tracked: honoured last at exp - timeout, established by a rule in direction d0
                        (d0 = true: incoming), fr = validated under the rule set currently loaded;
     FUnknown           only after a packet that arrived at exactly the instant exp, passed, and was also
                        allowed by a rule in the direction opposite to d0: the flow is tracked, but whether
                        with direction d0 or the packet's depends on whether the timer wheel evicted the entry
                        at that very instant.

   A packet of f is judged from this state:
     Forced b   the verdict must be b;
     Weak a     (only at the instant exp, and in FUnknown) either verdict, except that a packet allowed by a
                rule (a = true) must pass. *)
Inductive fstate := FNone | FKnown (exp : Z) (d0 fr : bool) | FUnknown.
Inductive judge := Forced (b : bool) | Weak (a : bool).

Record sstate := mkS { s_fw : fwcfg; s_now : Z; s_fs : fstate }.

Definition after_rules (now T : Z) (d v : bool) : fstate := if v then FKnown (now + T) d true else FNone.

Definition fl_judge (fw : fwcfg) (now : Z) (fs : fstate) (p : N) (d : bool) (f : tuple) : judge :=
  if negb (addr_ok (f_rules fw) p f) then Forced false
  else
    let a := allowed (f_rules fw) p d f in
    match fs with
    | FNone => Forced a
    | FUnknown => Weak a
    | FKnown e d0 fr =>
        let valid := fr || allowed (f_rules fw) p d0 f in
        if (now <? e)%Z then (if valid then Forced true else Forced a)
        else if (e <? now)%Z then Forced a
        else (if valid then Weak a else Forced a)
    end.

Definition fl_next (fw : fwcfg) (now : Z) (fs : fstate) (p : N) (d : bool) (f : tuple) (v : bool) : fstate :=
  if negb (addr_ok (f_rules fw) p f) then fs
  else
    let a := allowed (f_rules fw) p d f in
    let T := timeout_of fw f in
    match fs with
    | FNone => after_rules now T d v
    | FUnknown => if v then FUnknown else FNone
    | FKnown e d0 fr =>
        let valid := fr || allowed (f_rules fw) p d0 f in
        if (now <? e)%Z then (if valid then (if v then FKnown (now + T) d0 true else FNone) else after_rules now T d v)
        else if (e <? now)%Z then after_rules now T d v
        else if valid then
          (if v then (if a && xorb d d0 then FUnknown else FKnown (now + T) d0 true) else FNone)
        else after_rules now T d v
    end.

Definition judge_ok (j : judge) (v : bool) : bool :=
  match j with Forced b => Bool.eqb v b | Weak a => implb a v end.

Definition s_reload (rs : N) (tcp udp def : Z) (s : sstate) : sstate :=
  let v := next_ver (f_ver (s_fw s)) in
  let fs := if N.eqb v 0 then FNone
            else match s_fs s with FKnown e d0 _ => FKnown e d0 false | x => x end in
  mkS (mkFw rs v tcp udp def) (s_now s) fs.

(* [flow_ok f s h vs]: the verdict list vs (one per packet of h, all flows) is what the specification allows for
   the packets of flow f. *)
Fixpoint flow_ok (f : tuple) (s : sstate) (h : list ev) (vs : list bool) : bool :=
  match h with
  | [] => match vs with [] => true | _ => false end
  | ESleep d :: r => flow_ok f (mkS (s_fw s) (s_now s + Z.max 0 d) (s_fs s)) r vs
  | EReload rs tcp udp def :: r => flow_ok f (s_reload rs tcp udp def s) r vs
  | EPkt p d t :: r =>
      match vs with
      | [] => false
      | v :: vs' =>
          if tuple_eqb f t then
            judge_ok (fl_judge (s_fw s) (s_now s) (s_fs s) p d f) v
            && flow_ok f (mkS (s_fw s) (s_now s) (fl_next (s_fw s) (s_now s) (s_fs s) p d f v)) r vs'
          else flow_ok f s r vs'
      end
  end.

(* the verdicts the specification forces for the packets of f (a Weak judgement counts as "passes"), and whether
   every judgement on the way was Forced: then [flow_fn] is the only verdict sequence the specification allows *)
Definition forced_val (j : judge) : bool := match j with Forced b => b | Weak _ => true end.
Definition is_forced (j : judge) : bool := match j with Forced _ => true | Weak _ => false end.

Fixpoint flow_fn (f : tuple) (s : sstate) (h : list ev) : list bool :=
  match h with
  | [] => []
  | ESleep d :: r => flow_fn f (mkS (s_fw s) (s_now s + Z.max 0 d) (s_fs s)) r
  | EReload rs tcp udp def :: r => flow_fn f (s_reload rs tcp udp def s) r
  | EPkt p d t :: r =>
      if tuple_eqb f t then
        let v := forced_val (fl_judge (s_fw s) (s_now s) (s_fs s) p d f) in
        v :: flow_fn f (mkS (s_fw s) (s_now s) (fl_next (s_fw s) (s_now s) (s_fs s) p d f v)) r
      else flow_fn f s r
  end.

Fixpoint boundary_free (f : tuple) (s : sstate) (h : list ev) : bool :=
  match h with
  | [] => true
  | ESleep d :: r => boundary_free f (mkS (s_fw s) (s_now s + Z.max 0 d) (s_fs s)) r
  | EReload rs tcp udp def :: r => boundary_free f (s_reload rs tcp udp def s) r
  | EPkt p d t :: r =>
      if tuple_eqb f t then
        let j := fl_judge (s_fw s) (s_now s) (s_fs s) p d f in
        is_forced j
        && boundary_free f (mkS (s_fw s) (s_now s) (fl_next (s_fw s) (s_now s) (s_fs s) p d f (forced_val j))) r
      else boundary_free f s r
  end.

(* no packet of flow f in h is allowed by the rule set loaded when it arrives (rs: the one loaded at the start) *)
Fixpoint quiet (f : tuple) (rs : N) (h : list ev) : bool :=
  match h with
  | [] => true
  | EPkt p d t :: r => (if tuple_eqb f t then negb (addr_ok rs p t && allowed rs p d t) else true) && quiet f rs r
  | ESleep _ :: r => quiet f rs r
  | EReload rs' _ _ _ :: r => quiet f rs' r
  end.

End Run.

(* the verdicts of the packets of flow f among vs (one per packet of h) *)
Fixpoint restrict (f : tuple) (h : list ev) (vs : list bool) : list bool :=
  match h with
  | [] => []
  | EPkt _ _ t :: r =>
      match vs with
      | [] => []
      | v :: vs' => if tuple_eqb f t then v :: restrict f r vs' else restrict f r vs'
      end
  | _ :: r => restrict f r vs
  end.

(* the history with the packets of all other flows removed (sleeps and reloads kept) *)
Fixpoint proj (f : tuple) (h : list ev) : list ev :=
  match h with
  | [] => []
  | EPkt p d t :: r => if tuple_eqb f t then EPkt p d t :: proj f r else proj f r
  | e :: r => e :: proj f r
  end.

(* the tuples of the packets of h *)
Fixpoint tuples_of (h : list ev) : list tuple :=
  match h with
  | [] => []
  | EPkt _ _ t :: r => t :: tuples_of r
  | _ :: r => tuples_of r
  end.

Definition spec_boot (rs v0 : N) (tcp udp def : Z) (t0 : Z) : sstate := mkS (mkFw rs v0 tcp udp def) t0 FNone.

Definition elapsed (h : list ev) : Z :=
  fold_right (fun e acc => match e with ESleep d => (Z.max 0 d + acc)%Z | _ => acc end) 0%Z h.

Definition is_reload (e : ev) : bool := match e with EReload _ _ _ _ => true | _ => false end.
Definition on_flow (f : tuple) (e : ev) : bool := match e with EPkt _ _ t => tuple_eqb f t | _ => false end.
(* nothing but sleeps and packets of other flows *)
Definition others_only (f : tuple) (h : list ev) : bool :=
  forallb (fun e => negb (on_flow f e) && negb (is_reload e)) h.

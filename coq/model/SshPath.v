(* Model of /repo/ssh.go sshSanitizeFilePath and of the Unix path/filepath functions it uses
   (go1.26 internal/filepathlite: IsAbs, Clean with its lazybuf; path/filepath: Join).
   Paths are byte strings [list N]; only '/' (47) and '.' (46) are special.
   Second half: the independent specification (component-wise resolution against a stack).
   Executable definitions only. *)
From Coq Require Import List Arith NArith Bool.
Import ListNotations.
From NV Require Import lib.Corr.
Open Scope N_scope.

Definition slash : N := 47.
Definition dot : N := 46.
Definition is_sep (c : N) : bool := c =? slash.              (* filepathlite.IsPathSeparator (unix) *)

(* filepathlite.IsAbs (unix): strings.HasPrefix(path, "/") *)
Definition is_abs (p : list N) : bool := match p with c :: _ => is_sep c | [] => false end.

(* ---- filepathlite.Clean ------------------------------------------------------------------
   The lazybuf is modelled by its logical content out.buf[:out.w], kept REVERSED ([out], head =
   last byte written), so out.w = length out. [dotdot] is the index where ".." must stop. *)

(*  out.w--
    for out.w > dotdot && !IsPathSeparator(out.index(out.w)) { out.w-- }
   [c] is the byte at index out.w (the one just dropped), [r] the bytes still in the buffer. *)
Fixpoint backtrack (c : N) (r : list N) (dotdot : nat) : list N :=
  if (dotdot <? length r)%nat && negb (is_sep c) then
    match r with
    | c' :: r' => backtrack c' r' dotdot
    | [] => []
    end
  else r.

(* r+k == n || IsPathSeparator(path[r+k]) *)
Definition end_or_sep (r : list N) : bool := match r with [] => true | c :: _ => is_sep c end.

(* the ".." case of the switch: returns the new buffer and the new dotdot *)
Definition dotdot_elem (rooted : bool) (out : list N) (dotdot : nat) : list N * nat :=
  if (dotdot <? length out)%nat then                      (* case out.w > dotdot: can backtrack *)
    (match out with c :: r => backtrack c r dotdot | [] => [] end, dotdot)
  else if negb rooted then                                (* case !rooted: append a ".." element *)
    let out1 := if (0 <? length out)%nat then slash :: out else out in
    let out2 := dot :: dot :: out1 in
    (out2, length out2)
  else (out, dotdot).

(* default case, before the copy loop: add a slash if needed, then the first byte of the element
     if rooted && out.w != 1 || !rooted && out.w != 0 { out.append(Separator) } *)
Definition elem_start (rooted : bool) (out : list N) (c : N) : list N :=
  let need := if rooted then negb (length out =? 1)%nat else negb (length out =? 0)%nat in
  c :: (if need then slash :: out else out).

(* the main loop `for r < n { switch ... }`. [p] = path[r:]. [inelem] = we are inside the copy loop
   `for ; r < n && !IsPathSeparator(path[r]); r++ { out.append(path[r]) }` of the default case
   (leaving it on a separator, the separator is then skipped by the first case of the switch). *)
Fixpoint clean_loop (rooted inelem : bool) (p : list N) (out : list N) (dotdot : nat) : list N :=
  match p with
  | [] => out
  | c :: r =>
      if is_sep c then clean_loop rooted false r out dotdot            (* empty path element *)
      else if inelem then clean_loop rooted true r (c :: out) dotdot   (* copy element *)
      else if (c =? dot) && end_or_sep r then clean_loop rooted false r out dotdot   (* . element *)
      else
        match r with
        | c1 :: r1 =>
            if (c =? dot) && (c1 =? dot) && end_or_sep r1 then         (* .. element *)
              let '(o, d) := dotdot_elem rooted out dotdot in clean_loop rooted false r1 o d
            else clean_loop rooted true r (elem_start rooted out c) dotdot
        | [] => clean_loop rooted true r (elem_start rooted out c) dotdot
        end
  end.

Definition clean (p : list N) : list N :=
  match p with
  | [] => [dot]                                             (* path == "": originalPath + "." *)
  | c :: r =>
      let out := if is_sep c then clean_loop true false r [slash] 1     (* rooted: r, dotdot = 1, 1 *)
                 else clean_loop false false p [] 0 in
      match out with
      | [] => [dot]                                         (* turn empty string into "." *)
      | _ => rev out
      end
  end.

(* filepath.Join(a, b) (unix join): the first non-empty element onwards, joined with "/", cleaned *)
Definition join2 (a b : list N) : list N :=
  match a, b with
  | [], [] => []
  | [], _ => clean b
  | _, _ => clean (a ++ slash :: b)
  end.

Fixpoint has_prefix (s pre : list N) : bool :=              (* strings.HasPrefix *)
  match pre, s with
  | [], _ => true
  | x :: pre', y :: s' => (x =? y) && has_prefix s' pre'
  | _ :: _, [] => false
  end.

Inductive result := Ok (q : list N) | Refused.

(* sshSanitizeFilePath(sandboxDir, filePath) *)
Definition sanitize (sb p : list N) : result :=
  match sb with
  | [] => Ok p                                              (* no sandbox configured: as-is *)
  | _ =>
      let fp := if is_abs p then p else join2 sb p in
      let cleaned := clean fp in
      let cs := clean sb in
      if nlist_eqb cleaned cs then Refused                  (* the sandbox directory itself *)
      else if negb (has_prefix cleaned (cs ++ [slash])) then Refused   (* outside *)
      else Ok cleaned
  end.

(* ---- specification: component-wise resolution ----------------------------------------------- *)

(* split on '/': "" -> [""], "/a" -> [""; "a"], "a//b/" -> ["a"; ""; "b"; ""] *)
Fixpoint components (p : list N) : list (list N) :=
  match p with
  | [] => [[]]
  | c :: r =>
      if is_sep c then [] :: components r
      else match components r with
           | h :: t => (c :: h) :: t
           | [] => [[c]]
           end
  end.

Definition is_dot (e : list N) : bool := nlist_eqb e [dot].
Definition is_dotdot (e : list N) : bool := nlist_eqb e [dot; dot].

(* One component against the state (number of leading ".." kept, stack of names with the top first).
   "" and "." change nothing; ".." pops a name, or - with nothing to pop - stays at the root
   (rooted) or is kept as one more leading ".." (relative); any other component is pushed. *)
Definition step (rooted : bool) (st : nat * list (list N)) (e : list N) : nat * list (list N) :=
  match e with
  | [] => st
  | _ =>
      if is_dot e then st
      else if is_dotdot e then
        match snd st with
        | _ :: t => (fst st, t)
        | [] => if rooted then st else (S (fst st), [])
        end
      else (fst st, e :: snd st)
  end.

Definition walk (rooted : bool) (st : nat * list (list N)) (cs : list (list N)) : nat * list (list N) :=
  fold_left (step rooted) cs st.

Definition items (st : nat * list (list N)) : list (list N) := repeat [dot; dot] (fst st) ++ rev (snd st).

(* the normal form of a component list: leading ".."s (relative only) then the names *)
Definition normalise (rooted : bool) (cs : list (list N)) : list (list N) := items (walk rooted (O, []) cs).

Fixpoint join (l : list (list N)) : list N :=
  match l with
  | [] => []
  | e :: t => match t with [] => e | _ => e ++ slash :: join t end
  end.

(* how a normal form is written down *)
Definition render (rooted : bool) (its : list (list N)) : list N :=
  match (if rooted then [slash] else []) ++ join its with
  | [] => [dot]
  | s => s
  end.

(* An absolute location: the names from the root downwards. *)
Definition loc := list (list N).

Definition resolve_from (base : loc) (p : list N) : loc := rev (snd (walk true (O, rev base) (components p))).
Definition loc_of (p : list N) : loc := resolve_from [] p.         (* p absolute *)

(* what a user-supplied path means when the working directory is the (absolute) sandbox *)
Definition resolve (sb p : list N) : loc := if is_abs p then loc_of p else resolve_from (loc_of sb) p.

Fixpoint proper_prefix (a b : loc) : bool :=
  match a, b with
  | [], _ :: _ => true
  | x :: a', y :: b' => nlist_eqb x y && proper_prefix a' b'
  | _, _ => false
  end.

(* q lies strictly inside directory s: s's names are a proper prefix of q's (q = s does not count) *)
Definition strictly_inside (s q : loc) : bool := proper_prefix s q.

Definition abs_render (l : loc) : list N := slash :: join l.

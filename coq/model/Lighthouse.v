(* Lighthouse: executable model of LightHouseHandler.HandleRequest (lighthouse.go) and of the part of
   LightHouse.addrMap / RemoteList.cache it writes (remote_list.go).  Definitions only.

   The GATE of every handler (who may cause which kind of effect) is not written here: it is the table
   gen/Tab_Lighthouse.v, produced on every run by evaluating the real HandleRequest on the whole feature
   space (am_lighthouse, sender is a configured lighthouse, message type, claimed address class, encoding,
   details present, multi-address sender).  [step] looks the effect class up and then performs it.

   What is written by hand is what an admitted effect does:
     update  unlockedGetRemoteList(fromVpnAddrs); unlockedSetV4/V6/Relay under owner fromVpnAddrs[0]; ack
     reply   unlockedGetRemoteList([claimed]);    unlockedSetV4/V6/Relay under owner fromVpnAddrs[0]
     answer  queryAndPrepMessage / coalesceAnswers / sendHostPunchNotification
     punch   unlockedShouldAddV4/V6 filter, Punchy.Schedule, Punchy.ScheduleRespond
   plus [learn], what a completed handshake does to addrMap (QueryCache + LearnRemote).

   Messages are the decoded fields (decoding is done by the real generated Unmarshal in the harness).
   Addresses are lib/Ip.v [addr] = (is4, value), always unmapped (netip.Addr.Unmap). No remote_allow_list is
   configured (nil allow list = allow all), so the admission filter is "not inside my own networks". *)
From Coq Require Import List NArith Bool.
Import ListNotations.
From NV Require Import lib.Ip gen.Tab_Lighthouse.
Open Scope N_scope.

(* ---- messages -------------------------------------------------------------------------------------- *)

Record lmsg := mkMsg {
  m_type : N;                     (* uint32(int32(NebulaMeta.Type)) *)
  m_det : bool;                   (* the Details field is present on the wire *)
  m_old : N;                      (* Details.OldVpnAddr (v1) *)
  m_vpn : option (N * N);         (* Details.VpnAddr (v2): Hi, Lo *)
  m_v4 : list (N * N);            (* V4AddrPorts: Addr, Port *)
  m_v6 : list (N * N * N);        (* V6AddrPorts: Hi, Lo, Port *)
  m_orel : list N;                (* OldRelayVpnAddrs *)
  m_rel : list (N * N)            (* RelayVpnAddrs *)
}.

Inductive pkt := PGarbage | PMsg (m : lmsg).   (* PGarbage: Unmarshal returned an error *)

(* a sender: the vpn addresses of the authenticated tunnel the message arrived on, fromVpnAddrs (never empty) *)
Definition sender := (addr * list addr)%type.
Definition all_from (f : sender) : list addr := fst f :: snd f.

Inductive out :=
| OSend (dest : addr) (m : lmsg)             (* w.SendMessageToVpnAddr(header.LightHouse, 0, dest, m) *)
| OPunch (target : addr * N) (vpn : addr)    (* punchy.Schedule(target, vpn) *)
| ORespond (vpn : addr)                      (* punchy.ScheduleRespond(vpn), when punchy.respond *)
| OWeird (n : N).                            (* anything else the harness saw; the model never produces it *)

Record cfg := mkCfg {
  c_am : bool;                    (* lighthouse.am_lighthouse *)
  c_lhs : list addr;              (* lighthouse.hosts *)
  c_nets : list prefix;           (* my own overlay networks (certificate) *)
  c_v1 : bool;                    (* CertState.initiatingVersion = 1 *)
  c_respond : bool                (* punchy.respond *)
}.

(* ---- state ----------------------------------------------------------------------------------------- *)

(* RemoteList.cache[owner] *)
Record centry := mkCe {
  ce_l4 : option (N * N); ce_l6 : option (N * N * N);       (* learned *)
  ce_v4 : list (N * N); ce_v6 : list (N * N * N);           (* reported *)
  ce_rel : list addr
}.
Definition ce_empty := mkCe None None [] [] [].

Record rlist := mkRl { rl_addrs : list addr; rl_cache : list (addr * centry) }.

(* addrMap : vpn address -> RemoteList; the RemoteList objects are numbered in creation order *)
Record state := mkSt { s_amap : list (addr * N); s_recs : list (N * rlist); s_next : N }.

Definition amap_get (a : addr) (st : state) : option N := aget addr_eqb a (s_amap st).
Definition rec_get (r : N) (st : state) : option rlist := aget N.eqb r (s_recs st).

(* ---- address conversions --------------------------------------------------------------------------- *)

Definition two32 : N := 4294967296.
Definition two64 : N := 18446744073709551616.

(* protoAddrToNetAddr: AddrFrom16(hi, lo).Unmap() *)
Definition unmap_hl (hl : N * N) : addr :=
  let '(hi, lo) := hl in
  if (hi =? 0) && (lo / two32 =? 65535) then (true, lo mod two32) else (false, hi * two64 + lo).

(* netAddrToProtoAddr: As16 *)
Definition to_hl (a : addr) : N * N :=
  if fst a then (0, 65535 * two32 + snd a) else (snd a / two64, snd a mod two64).

Definition mem (a : addr) (l : list addr) : bool := existsb (addr_eqb a) l.

(* GetVpnAddrAndVersion / the inline copy in handleHostUpdateNotification: v1 field wins *)
Definition claimed (m : lmsg) : option addr :=
  if negb (m_old m =? 0) then Some (true, m_old m) else option_map unmap_hl (m_vpn m).
Definition is_v1 (m : lmsg) : bool := negb (m_old m =? 0).

(* GetRelays *)
Definition relays (m : lmsg) : list addr := map (fun r => (true, r)) (m_orel m) ++ map unmap_hl (m_rel m).

(* unlockedShouldAddV4/V6 with no remote allow list: not inside my networks *)
Definition should_add (c : cfg) (u : addr) : bool := negb (any_contains (c_nets c) u).
Definition ok4 (c : cfg) (e : N * N) : bool := should_add c (true, fst e).
Definition ok6 (c : cfg) (e : N * N * N) : bool := should_add c (unmap_hl (fst (fst e), snd (fst e))).

(* ---- gate: features and table lookup ----------------------------------------------------------------- *)

Definition row := (bool * bool * N * N * bool)%type.

Definition row_eqb (a b : row) : bool :=
  let '(a1, a2, a3, a4, a5) := a in let '(b1, b2, b3, b4, b5) := b in
  Bool.eqb a1 b1 && Bool.eqb a2 b2 && (a3 =? b3) && (a4 =? b4) && Bool.eqb a5 b5.

Definition tclass (t : N) : N := if t <=? lh_t_max then t else lh_t_max + 1.

(* IsAnyLighthouseAddr(fromVpnAddrs) *)
Definition sender_lh (c : cfg) (f : sender) : bool := existsb (fun a => mem a (c_lhs c)) (all_from f).

Definition claim_class (f : sender) (m : lmsg) : N :=
  match claimed m with
  | None => if m_det m then 1 else 0
  | Some a =>
      let base := if is_v1 m then 2 else 5 in
      if addr_eqb a (fst f) then base else if mem a (snd f) then base + 1 else base + 2
  end.

Definition multi (f : sender) : bool := match snd f with [] => false | _ => true end.

Definition features (c : cfg) (f : sender) (m : lmsg) : row :=
  (c_am c, sender_lh c f, tclass (m_type m), claim_class f m, multi f).

Inductive eff := ENone | EAnswer | EUpdate | EReply | EPunch | EOther.

Definition eff_of (n : N) : eff :=
  match n with 0 => ENone | 1 => EAnswer | 2 => EUpdate | 3 => EReply | 4 => EPunch | _ => EOther end.

Definition tab_lookup (r : row) : option N := aget row_eqb r lh_tab.

(* a row missing from the table is EOther, which no theorem accepts (see tab_total in the proofs) *)
Definition tab_eff (r : row) : eff := match tab_lookup r with Some n => eff_of n | None => EOther end.

(* ---- addrMap operations ------------------------------------------------------------------------------ *)

Fixpoint find_rl (am : list (addr * N)) (l : list addr) : option N :=
  match l with
  | [] => None
  | a :: r => match aget addr_eqb a am with Some rid => Some rid | None => find_rl am r end
  end.

(* unlockedGetRemoteList(allAddrs): an existing list of any of the addresses (it then also becomes the list of
   allAddrs[0]), or a new one registered under all of them *)
Definition get_rl (st : state) (all : list addr) : state * N :=
  match find_rl (s_amap st) all with
  | Some rid =>
      (match all with
       | a0 :: _ => mkSt (aset addr_eqb a0 rid (s_amap st)) (s_recs st) (s_next st)
       | [] => st
       end, rid)
  | None =>
      let rid := s_next st in
      (mkSt (fold_left (fun am a => aset addr_eqb a rid am) all (s_amap st))
            (s_recs st ++ [(rid, mkRl all [])]) (N.succ rid), rid)
  end.

(* QueryCache(vpnAddrs) *)
Definition query_cache (st : state) (f : sender) : state * N :=
  match amap_get (fst f) st with
  | Some rid => (st, rid)
  | None => get_rl st (all_from f)
  end.

(* apply [g] to cache[owner] of list [rid] (unlockedGetOrMake*: a missing entry is created empty first) *)
Definition upd_entry (st : state) (rid : N) (owner : addr) (g : centry -> centry) : state :=
  match rec_get rid st with
  | None => st
  | Some rl =>
      let old := match aget addr_eqb owner (rl_cache rl) with Some e => e | None => ce_empty end in
      mkSt (s_amap st)
           (aset N.eqb rid (mkRl (rl_addrs rl) (aset addr_eqb owner (g old) (rl_cache rl))) (s_recs st))
           (s_next st)
  end.

(* unlockedSetV4 + unlockedSetV6 + unlockedSetRelay: truncate to MaxRemotes, then filter *)
Definition set_reported (c : cfg) (m : lmsg) (e : centry) : centry :=
  mkCe (ce_l4 e) (ce_l6 e)
       (filter (ok4 c) (firstn (N.to_nat lh_max_remotes) (m_v4 m)))
       (filter (ok6 c) (firstn (N.to_nat lh_max_remotes) (m_v6 m)))
       (firstn (N.to_nat lh_max_remotes) (relays m)).

(* LearnRemote *)
Definition set_learned (ap : addr * N) (e : centry) : centry :=
  if fst (fst ap) then mkCe (Some (snd (fst ap), snd ap)) (ce_l6 e) (ce_v4 e) (ce_v6 e) (ce_rel e)
  else let '(hi, lo) := to_hl (fst ap) in mkCe (ce_l4 e) (Some (hi, lo, snd ap)) (ce_v4 e) (ce_v6 e) (ce_rel e).

(* a completed handshake with [f] from underlay address [ap] *)
Definition learn (st : state) (f : sender) (ap : addr * N) : state :=
  let '(st1, rid) := query_cache st f in upd_entry st1 rid (fst f) (set_learned ap).

(* ---- effects ------------------------------------------------------------------------------------------ *)

Definition blank (t : N) : lmsg := mkMsg t true 0 None [] [] [] [].

(* handleHostUpdateNotification after its gate *)
Definition do_update (c : cfg) (st : state) (f : sender) (m : lmsg) : state * list out :=
  let '(st1, rid) := get_rl st (all_from f) in
  let st2 := upd_entry st1 rid (fst f) (set_reported c m) in
  let ack :=
    if is_v1 m then
      if fst (fst f) then [OSend (fst f) (mkMsg t_host_update_ack true (snd (fst f)) None [] [] [] [])] else []
    else [OSend (fst f) (blank t_host_update_ack)] in
  (st2, ack).

(* handleHostQueryReply after its gate *)
Definition do_reply (c : cfg) (st : state) (f : sender) (m : lmsg) (a : addr) : state :=
  let '(st1, rid) := get_rl st [a] in upd_entry st1 rid (fst f) (set_reported c m).

(* queryAndPrepMessage: the cache entry a lighthouse answers from *)
Definition prep (st : state) (a : addr) : option centry :=
  match amap_get a st with
  | None => None
  | Some rid =>
      match rec_get rid st with
      | None => None
      | Some rl =>
          let p := if mem a (rl_addrs rl) then match rl_addrs rl with p :: _ => p | [] => a end else a in
          aget addr_eqb p (rl_cache rl)
      end
  end.

Definition opt_list {A} (o : option A) : list A := match o with Some x => [x] | None => [] end.

(* coalesceAnswers *)
Definition coalesce (v1 : bool) (t old : N) (vpn : option (N * N)) (e : centry) : lmsg :=
  mkMsg t true old vpn (opt_list (ce_l4 e) ++ ce_v4 e) (opt_list (ce_l6 e) ++ ce_v6 e)
        (if v1 then map snd (filter (fun r : addr => fst r) (ce_rel e)) else [])
        (if v1 then [] else map to_hl (ce_rel e)).

(* handleHostQuery after its gate, for queried address [q] *)
Definition do_query (c : cfg) (st : state) (f : sender) (m : lmsg) (q : addr) : list out :=
  match prep st q with
  | None => []
  | Some e =>
      let v1 := is_v1 m in
      let reply := coalesce v1 t_host_query_reply (if v1 then snd q else 0) (if v1 then None else Some (to_hl q)) e in
      OSend (fst f) reply ::
      (* sendHostPunchNotification: GetHostInfo gave nothing, so the version is the node's initiating version *)
      match prep st (fst f) with
      | None => []
      | Some e' =>
          if c_v1 c then
            if fst (fst f) then [OSend q (coalesce true t_host_punch (snd (fst f)) None e')] else []
          else [OSend q (coalesce false t_host_punch 0 (Some (to_hl (fst f))) e')]
      end
  end.

(* handleHostPunchNotification after its gate *)
Definition do_punch (c : cfg) (m : lmsg) (a : addr) : list out :=
  map (fun e : N * N => OPunch ((true, fst e), snd e mod 65536) a) (filter (ok4 c) (m_v4 m)) ++
  map (fun e : N * N * N => OPunch (unmap_hl (fst (fst e), snd (fst e)), snd e mod 65536) a) (filter (ok6 c) (m_v6 m)) ++
  (if c_respond c then [ORespond a] else []).

Definition step (c : cfg) (st : state) (f : sender) (p : pkt) : state * list out :=
  match p with
  | PGarbage => (st, [])
  | PMsg m =>
      match tab_eff (features c f m) with
      | ENone | EOther => (st, [])
      | EAnswer => match claimed m with Some q => (st, do_query c st f m q) | None => (st, []) end
      | EUpdate => do_update c st f m
      | EReply => match claimed m with Some a => (do_reply c st f m a, []) | None => (st, []) end
      | EPunch => match claimed m with Some a => (st, do_punch c m a) | None => (st, []) end
      end
  end.

(* ---- histories ---------------------------------------------------------------------------------------- *)

Inductive hop := HMsg (f : sender) (p : pkt) | HLearn (f : sender) (ap : addr * N).

Definition hstep (c : cfg) (st : state) (o : hop) : state * list out :=
  match o with
  | HMsg f p => step c st f p
  | HLearn f ap => (learn st f ap, [])
  end.

Definition run (c : cfg) (st : state) (h : list hop) : state :=
  fold_left (fun s o => fst (hstep c s o)) h st.

Definition init_state : state := mkSt [] [] 0.

(* ---- the documented gating rule (written from the property text and lighthouse.go's comments, NOT from the
   table): which effect a message may have, by row.  The proofs show the generated table equals it; the
   correspondence evaluates the implementation against it. ------------------------------------------------ *)

(* claim classes 2..7 carry an address; 4 and 7 are addresses that are not among the sender's *)
Definition cl_has_addr (cl : N) : bool := 2 <=? cl.
Definition cl_foreign (cl : N) : bool := (cl =? 4) || (cl =? 7).

Definition doc_eff (r : row) : eff :=
  let '(am, slh, tc, cl, _) := r in
  if tc =? t_host_query then (if am && cl_has_addr cl then EAnswer else ENone)                 (* only lighthouses answer *)
  else if tc =? t_host_query_reply then (if slh && cl_has_addr cl then EReply else ENone)     (* only from my lighthouses *)
  else if tc =? t_host_update then (if am && negb (cl_foreign cl) then EUpdate else ENone)    (* only lighthouses, only about the sender *)
  else if tc =? t_host_punch then (if slh && cl_has_addr cl then EPunch else ENone)           (* only from my lighthouses *)
  else ENone.

(* cache[owner] of RemoteList number [rid] *)
Definition entry (st : state) (rid : N) (o : addr) : option centry :=
  match rec_get rid st with Some rl => aget addr_eqb o (rl_cache rl) | None => None end.

Definition op_sender (o : hop) : sender := match o with HMsg f _ => f | HLearn f _ => f end.

(* CertTamper: what a certificate's signature covers and the P-256 low/high-S twin (definitions only, no proofs).

     cert/cert_v2.go   CheckSignature over rawDetails ‖ byte(curve) ‖ publicKey           [tbs_v2, in model/CertCodec.v]
     cert/cert_v1.go   CheckSignature over the re-marshalled details                       [tbs_v1, in model/CertCodec.v]
     cert/p256/p256.go parseSignature, swap, encodeSignature, Swap                         [parse_sig, swap_s, encode_sig, twin]
     cert/cert.go      CalculateAlternateFingerprint                                       [fp2]
     cert/ca_pool.go   the blocklist tests of VerifyCertificate / VerifyCachedCertificate  [blocklist_pass]

   The signature primitives (ed25519.Verify; ecdsa.VerifyASN1 over SHA-256) and SHA-256 are parameters. *)
From Coq Require Import List NArith ZArith Bool.
Import ListNotations.
From NV Require Import lib.Bytes lib.Corr lib.Proto lib.Der model.CertCodec.
Open Scope N_scope.

(* the order of the P-256 group (elliptic.P256().Params().N) *)
Definition p256_n : N := 115792089210356248762697446949407573529996955224135760342422259061068512044369.

(* ---- ECDSA signatures: SEQUENCE { INTEGER r, INTEGER s } ---- *)

(* ReadASN1Integer(&[]byte): the magnitude without its redundant leading zero *)
Definition read_uint (s : list N) : option (list N * list N) :=
  let? (c, rest) := read_asn1 tag_integer s in
  let? v := uint_dec_bytes c in Some (v, rest).

(* parseSignature: nothing may follow the sequence or the second integer *)
Definition parse_sig (sig : list N) : option (list N * list N) :=
  let? (inner, rest) := read_asn1 tag_sequence sig in
  if negb (is_nil rest) then None else
  let? (r, inner) := read_uint inner in
  let? (s, inner) := read_uint inner in
  if negb (is_nil inner) then None else Some (r, s).

(* encodeSignature / addASN1IntBytes: an all-zero integer is an error *)
Definition encode_sig (r s : list N) : option (list N) :=
  let? rc := uint_content r in
  let? sc := uint_content s in
  Some (emit_tlv tag_sequence (emit_tlv tag_integer rc ++ emit_tlv tag_integer sc)).

(* swap: bigmod's SetBytes refuses s >= n; n - s on 32 bytes, leading zeros removed while more than one byte is left *)
Definition swap_s (s : list N) : option (list N) :=
  if be_dec s <? p256_n then Some (strip1 (be_enc 32 (p256_n - be_dec s))) else None.

(* p256.Swap *)
Definition twin (sig : list N) : option (list N) :=
  let? (r, s) := parse_sig sig in
  let? s' := swap_s s in
  encode_sig r s'.

(* ---- certificates of either version ---- *)

Definition inner (a : anycert) : cert := match a with V1 c => c | V2 c => c2 c end.
Definition version_of (a : anycert) : N := match a with V1 _ => 1 | V2 _ => 2 end.
Definition sig_of (a : anycert) : list N := c_sig (inner a).
Definition curve_of (a : anycert) : N := c_curve (inner a).
Definition tbs_of (a : anycert) : list N := match a with V1 c => tbs_v1 c | V2 c => tbs_v2 c end.
Definition with_sig_any (a : anycert) (s : list N) : anycert :=
  match a with V1 c => V1 (with_sig c s) | V2 c => V2 (mkCert2 (with_sig (c2 c) s) (c2_raw c)) end.

(* everything a certificate says about its holder *)
Definition identity (a : anycert) :=
  let c := inner a in
  (version_of a, c_name c, c_nets c, c_unsafe c, c_groups c, c_isca c, c_nb c, c_na c, c_issuer c, c_curve c, c_pub c).

Section Verify.
  (* sig_ok curve key msg sig: ed25519.Verify(key, msg, sig) for curve 0, ecdsa.VerifyASN1(key, sha256(msg), sig) for 1 *)
  Variable sig_ok : N -> list N -> list N -> list N -> bool.
  Variable H : list N -> list N.

  (* Certificate.CheckSignature(key): unknown curves never verify *)
  Definition check_signature (key : list N) (a : anycert) : bool :=
    if (curve_of a =? 0) || (curve_of a =? 1) then sig_ok (curve_of a) key (tbs_of a) (sig_of a) else false.

  Definition fp (a : anycert) : list N := fingerprint H a.

  (* CalculateAlternateFingerprint: None = "" (not P-256); Some None = Swap failed (VerifyCertificate then fails) *)
  Definition fp2 (a : anycert) : option (option (list N)) :=
    if curve_of a =? 1 then Some (option_map (fun s' => fp (with_sig_any a s')) (twin (sig_of a))) else None.

  Definition listed (bl : list (list N)) (f : list N) : bool := existsb (nlist_eqb f) bl.

  (* the two blocklist tests a certificate has to pass on either verification path *)
  Definition blocklist_pass (bl : list (list N)) (a : anycert) : bool :=
    negb (listed bl (fp a)) &&
    match fp2 a with
    | None => true
    | Some None => false
    | Some (Some f) => negb (listed bl f)
    end.
  (* one verification against a pool holding the CA (key, curve) with blocklist bl *)
  Definition verify_one (key : list N) (cv : N) (bl : list (list N)) (a : anycert) : bool :=
    (curve_of a =? cv) && check_signature key a && blocklist_pass bl a.
End Verify.

(* A pool keeps no memory of what it verified: a history of verifications is judged one by one. [seen] is what a
   remembering implementation could consult; the verdicts do not. *)
Fixpoint verify_history (verdict : anycert -> bool) (seen todo : list anycert) : list bool :=
  match todo with
  | [] => []
  | a :: r => verdict a :: verify_history verdict (a :: seen) r
  end.

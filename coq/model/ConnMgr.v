(* Model of /repo/connection_manager.go for property C30. Executable definitions only.

   What a periodic check does is NOT written by hand: [decide], [swap_decide] and [rehs_decide] look the
   answer up in gen/Tab_ConnMgr.v, which the harness regenerates on every run by evaluating the real
   makeTrafficDecision / doTrafficCheck / shouldSwapPrimary / tryRehandshake on the whole feature space.
   Hand-written here: the per-tunnel state carried from one check to the next (pendingDeletion, the in/out
   flags left behind, lastUsed, membership in the hostmap), how a check's features are read off that state
   and the environment ([row_of]), the primary order of the tunnels of one peer, and the documented policy. *)
From Coq Require Import List NArith Bool.
Import ListNotations.
From NV Require Import lib.ConnMgr_lib gen.Tab_ConnMgr.
Open Scope N_scope.

(* ---- the generated tables as functions ------------------------------------------------------ *)

Definition decide (r : row) : option res := assoc row_eqb r tab_decide.
Definition swap_decide (r : swrow) : option bool := assoc sw_eqb r tab_swap.
Definition rehs_decide (r : rhrow) : option hs := assoc rh_eqb r tab_rehs.

(* feature combinations that can occur: an exhausted counter is never swap eligible, and "same signature"
   speaks about a loaded certificate *)
Definition feasible (r : row) : bool := negb (r_exh r && r_swap r).
Definition sw_wf (r : swrow) : bool := implb (s_se r) (s_lc r).
Definition rh_wf (r : rhrow) : bool := implb (h_se r) (h_lc r).

(* ---- the documented policy (written from the property statement, independent of the tables) --- *)

(* the certificate alone takes the tunnel down *)
Definition cert_closes (c : certst) (dinv : bool) : bool :=
  match c with CBlock => true | CInvalid => dinv | _ => false end.

(* closing for idleness: an idle primary, drop_inactive on, no traffic either way since the last check *)
Definition idle_close (r : row) : bool :=
  r_primary r && r_dropi r && r_idle r && negb (r_in r) && negb (r_out r).

(* a probe (or, for a non-primary, the mark) is outstanding and nothing came in *)
Definition unanswered (r : row) : bool := r_pd r && negb (r_in r).

(* the property's clauses that force a removal, and the ones that permit one *)
Definition must_remove (r : row) : bool := cert_closes (r_cert r) (r_dinv r) || r_exh r || unanswered r.
Definition may_remove (r : row) : bool := must_remove r || idle_close r.

(* The clauses of C30 as a predicate on what a check did (only what the statement says):
   blocklisted -> closed; invalid -> closed when disconnect_invalid; exhausted -> dropped; no inbound since
   the probe -> dropped; closed for idleness only if primary, drop_inactive, idle >= timeout; inbound traffic
   since the last check -> not removed for lack of traffic. "Closed" = removed and the peer is told
   (a CloseTunnel packet), which an exhausted counter makes impossible. *)
Definition spec_ok (r : row) (removed notified : bool) : bool :=
  let cc := cert_closes (r_cert r) (r_dinv r) in
  implb (must_remove r) removed &&
  implb removed (may_remove r) &&
  implb (cc && negb (r_exh r)) notified &&
  implb notified removed &&
  implb (notified && negb cc) (idle_close r) &&
  implb (r_in r && negb cc && negb (r_exh r)) (negb removed).

(* the statement's sentence on re-handshakes: our certificate changed (removed / re-issued) or the counter
   passed the rekey threshold -> a handshake is started, on a check that attempts one *)
Definition rehs_spec_ok (h : rhrow) (started : bool) : bool :=
  implb (negb (h_lc h) || negb (h_se h) || h_rk h) started.

(* the exact teardown rule: removed iff one of the four reasons; the peer is told unless the tunnel is
   dropped (exhausted / unanswered) *)
Definition exact_removed (r : row) : bool := may_remove r.
Definition exact_notify (r : row) : bool :=
  negb (r_exh r) && (cert_closes (r_cert r) (r_dinv r) || (negb (r_in r) && negb (r_pd r) && idle_close r)).

(* when tryRehandshake starts a handshake *)
Definition rehs_cond (h : rhrow) : bool := negb (h_lc h) || h_up h || negb (h_se h) || h_bi h || h_rk h.
(* when a check attempts it: a primary that received traffic and is otherwise fine *)
Definition rehs_attempt (r : row) : bool :=
  negb (cert_closes (r_cert r) (r_dinv r)) && negb (r_exh r) && r_in r && r_primary r.

(* ---- per-tunnel state and one check ---------------------------------------------------------- *)

Inductive ctrclass := CtrLow | CtrRekey | CtrExh.   (* < RehandshakeAfterMessages, >= it, >= RejectAfterMessages *)
Definition is_exh (c : ctrclass) : bool := match c with CtrExh => true | _ => false end.
Definition is_rk (c : ctrclass) : bool := match c with CtrLow => false | _ => true end.

Record tstate := mkT {
  t_alive : bool;        (* in the hostmap *)
  t_pd : bool;           (* HostInfo.pendingDeletion *)
  t_in : bool;           (* HostInfo.in left over *)
  t_out : bool;          (* HostInfo.out left over (a new tunnel starts with out set; our own probe sets it) *)
  t_last : option N      (* HostInfo.lastUsed, None = never *)
}.

Definition t_init : tstate := mkT true false false true None.

(* everything a check reads besides the tunnel's own state. Times in nanoseconds. *)
Record event := mkEv {
  e_dt : N;              (* clock advance since the previous check in the history *)
  e_in : bool; e_out : bool;   (* traffic flagged since then *)
  e_cert : certst;
  e_dinv : bool;
  e_ctr : ctrclass;
  e_dropi : bool;
  e_timeout : N;
  e_ge : bool;           (* peer's overlay address >= ours *)
  e_lc : bool; e_se : bool; e_up : bool; e_bi : bool   (* our certificates, as in swrow / rhrow *)
}.

Definition idle_ge (last : option N) (now timeout : N) : bool :=
  match last with None => true | Some l => timeout <=? now - l end.

Definition row_of (st : tstate) (now : N) (primary : bool) (sw : bool) (e : event) : row :=
  mkRow (e_cert e) (e_dinv e) (is_exh (e_ctr e)) primary (e_in e || t_in st) (e_out e || t_out st) (t_pd st)
        (e_dropi e) (idle_ge (t_last st) now (e_timeout e)) sw.

Definition sw_of (e : event) : swrow := mkSw (e_ge e) (is_rk (e_ctr e)) (e_lc e) (e_se e).
Definition rh_of (e : event) : rhrow := mkRh (e_lc e) (e_up e) (e_se e) (e_bi e) (is_rk (e_ctr e)).

(* what a check on a tunnel the hostmap does not hold does: nothing *)
Definition res_unknown : res := mkRes tab_unknown_decision false TNone PNone false false false false false false.

(* One check at time [now]. None = the situation is outside the tables (infeasible features). *)
Definition step (now : N) (primary : bool) (st : tstate) (e : event) : option (tstate * row * res * hs) :=
  match swap_decide (sw_of e) with
  | None => None
  | Some sw =>
    let r := row_of st now primary sw e in
    if negb (t_alive st) then
      (* the flags keep accumulating on the orphaned object; nothing else moves *)
      Some (mkT false (t_pd st) (r_in r) (r_out r) (t_last st), r, res_unknown, HNone)
    else
    match decide r with
    | None => None
    | Some x =>
      let h := if dec_eqb (d_dec x) DRehs then rehs_decide (rh_of e) else Some HNone in
      match h with
      | None => None
      | Some y =>
        let sent := d_probe x || d_notify x in       (* our own packet flags outbound traffic *)
        Some (mkT (negb (d_removed x)) (d_pd x)
                  (if d_clear x then false else r_in r)
                  (if d_clear x then sent else r_out r || sent)
                  (if d_touch x then Some now else t_last st), r, x, y)
      end
    end
  end.

(* ---- histories of checks of one tunnel ------------------------------------------------------- *)

Record obs := mkObs {
  o_now : N; o_primary : bool; o_before : tstate; o_ev : event; o_row : row; o_res : res; o_hs : hs; o_after : tstate }.

(* a history: for each check, the environment and whether the hostmap has the tunnel as primary *)
Fixpoint run (clk : N) (st : tstate) (evs : list (bool * event)) : option (list obs) :=
  match evs with
  | [] => Some []
  | (pri, e) :: rest =>
    let now := clk + e_dt e in
    match step now pri st e with
    | None => None
    | Some (st', r, x, y) =>
      match run now st' rest with
      | None => None
      | Some tr => Some (mkObs now pri st e r x y st' :: tr)
      end
    end
  end.

Definition ev_feasible (e : event) : bool := implb (e_se e) (e_lc e).

(* ---- several tunnels: the primary order ------------------------------------------------------ *)

(* tunnels are numbered; [w_peer] gives the peer of each, [w_order] the hostmap order (for one peer: primary
   first), [w_st] the state of each *)
Record world := mkW { w_clk : N; w_peer : list (N * N); w_order : list N; w_st : list (N * tstate) }.

Definition peer_of (w : world) (t : N) : N := match assoc N.eqb t (w_peer w) with Some p => p | None => 0 end.
Definition st_of (w : world) (t : N) : option tstate := assoc N.eqb t (w_st w).
Definition alive_in (w : world) (t : N) : bool := match st_of w t with Some s => t_alive s | None => false end.

Definition primary_of (w : world) (t : N) : bool :=
  match find (fun u => (peer_of w u =? peer_of w t) && alive_in w u) (w_order w) with
  | Some u => u =? t
  | None => false
  end.

Fixpoint set_st (t : N) (s : tstate) (l : list (N * tstate)) : list (N * tstate) :=
  match l with
  | [] => []
  | (u, s') :: r => if u =? t then (u, s) :: r else (u, s') :: set_st t s r
  end.

Definition wstep (w : world) (t : N) (e : event) : option (world * bool * tstate * row * res * hs) :=
  match st_of w t with
  | None => None
  | Some st =>
    let now := w_clk w + e_dt e in
    let pri := primary_of w t in
    match step now pri st e with
    | None => None
    | Some (st', r, x, y) =>
      let order' := if dec_eqb (d_dec x) DSwap then t :: filter (fun u => negb (u =? t)) (w_order w) else w_order w in
      Some (mkW now (w_peer w) order' (set_st t st' (w_st w)), pri, st, r, x, y)
    end
  end.

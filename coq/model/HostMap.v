(* Model of /repo/hostmap.go (HostMap: Hosts, moreHosts, Indexes, RemoteIndexes, Relays),
   /repo/relay_manager.go (AddRelay) and the pending hostmap of /repo/handshake_manager.go
   (vpnIps, indexes; StartHandshake, allocateIndex, generateIndex, CheckAndComplete, Complete,
   DeleteHostInfo).  Executable definitions and property statements only - no proofs.

   Hostinfos (pointers to HostInfo in the code) are identified by ids (N); addresses and indexes are N.
   Go maps are association lists read with [mget]; [mset] keeps them sorted by key, so a state produced
   by the model is canonical and can be compared with the sorted dump of the implementation.

   The last field [gst] is ghost (proof-only) bookkeeping - it is never read by an operation and it is
   ignored by [state_eqb] and by every executable specification. *)
From Coq Require Import List NArith Bool.
Import ListNotations.
From NV Require Import gen.Consts_HostMap.
Open Scope N_scope.

(* ---------- finite maps ---------------------------------------------------------------------- *)

Definition amap (V : Type) := list (N * V).

Fixpoint mget {V} (k : N) (m : amap V) : option V :=
  match m with
  | [] => None
  | (k', v) :: r => if k =? k' then Some v else mget k r
  end.

Fixpoint mset {V} (k : N) (v : V) (m : amap V) : amap V :=
  match m with
  | [] => [(k, v)]
  | (k', v') :: r =>
      if k <? k' then (k, v) :: (k', v') :: r
      else if k =? k' then (k, v) :: r
      else (k', v') :: mset k v r
  end.

(* Go's delete(m, k) *)
Definition mdel {V} (k : N) (m : amap V) : amap V := filter (fun e => negb (fst e =? k)) m.

Definition mem (x : N) (l : list N) : bool := existsb (N.eqb x) l.

(* slices.Index + slices.Delete: the first occurrence only *)
Fixpoint remove_first (x : N) (l : list N) : list N :=
  match l with
  | [] => []
  | y :: r => if x =? y then r else y :: remove_first x r
  end.

Fixpoint last_opt (l : list N) : option N :=
  match l with
  | [] => None
  | [x] => Some x
  | _ :: r => last_opt r
  end.

(* sorted insert without duplicates (relayForByIdx is a Go map; its key set is dumped sorted) *)
Fixpoint ins_sorted (x : N) (l : list N) : list N :=
  match l with
  | [] => [x]
  | y :: r => if x <? y then x :: y :: r else if x =? y then y :: r else y :: ins_sorted x r
  end.

(* ---------- state ---------------------------------------------------------------------------- *)

(* HostInfo: vpnAddrs, localIndexId, remoteIndexId, keys of relayState.relayForByIdx *)
Record hinfo := mkHI { hi_addrs : list N; hi_local : N; hi_remote : N; hi_relays : list N }.

(* ghost life-cycle of a hostinfo: tracked by the pending hostmap / being inserted by unlockedAddHostInfo /
   held by the main hostmap / removed (or never inserted) *)
Inductive hst := Pend | Adding | Main | Dead.

Record state := mkSt {
  infos : amap hinfo;        (* every hostinfo ever created, by id *)
  hosts : amap N;            (* HostMap.Hosts: address -> primary *)
  more  : amap (list N);     (* HostMap.moreHosts: address -> most-recent-first list *)
  idx   : amap N;            (* HostMap.Indexes *)
  ridx  : amap N;            (* HostMap.RemoteIndexes *)
  rel   : amap N;            (* HostMap.Relays *)
  pvpn  : amap N;            (* HandshakeManager.vpnIps *)
  pidx  : amap N;            (* HandshakeManager.indexes *)
  gst   : amap hst           (* ghost *)
}.

Definition init : state := mkSt [] [] [] [] [] [] [] [] [].

Definition set_infos s v := mkSt v (hosts s) (more s) (idx s) (ridx s) (rel s) (pvpn s) (pidx s) (gst s).
Definition set_hosts s v := mkSt (infos s) v (more s) (idx s) (ridx s) (rel s) (pvpn s) (pidx s) (gst s).
Definition set_more s v := mkSt (infos s) (hosts s) v (idx s) (ridx s) (rel s) (pvpn s) (pidx s) (gst s).
Definition set_idx s v := mkSt (infos s) (hosts s) (more s) v (ridx s) (rel s) (pvpn s) (pidx s) (gst s).
Definition set_ridx s v := mkSt (infos s) (hosts s) (more s) (idx s) v (rel s) (pvpn s) (pidx s) (gst s).
Definition set_rel s v := mkSt (infos s) (hosts s) (more s) (idx s) (ridx s) v (pvpn s) (pidx s) (gst s).
Definition set_pvpn s v := mkSt (infos s) (hosts s) (more s) (idx s) (ridx s) (rel s) v (pidx s) (gst s).
Definition set_pidx s v := mkSt (infos s) (hosts s) (more s) (idx s) (ridx s) (rel s) (pvpn s) v (gst s).
Definition set_gst s v := mkSt (infos s) (hosts s) (more s) (idx s) (ridx s) (rel s) (pvpn s) (pidx s) v.

Definition gset (h : N) (g : hst) (s : state) : state := set_gst s (mset h g (gst s)).
Definition hst_eqb (a b : hst) : bool :=
  match a, b with Pend, Pend | Adding, Adding | Main, Main | Dead, Dead => true | _, _ => false end.
(* ghost transition g1 -> g2 for h, if h is currently in g1 *)
Definition gmove (h : N) (g1 g2 : hst) (s : state) : state :=
  match mget h (gst s) with
  | Some g => if hst_eqb g g1 then gset h g2 s else s
  | None => s
  end.

Definition is_some_id (o : option N) (h : N) : bool :=
  match o with Some x => x =? h | None => false end.

(* ---------- main hostmap --------------------------------------------------------------------- *)

(* unlockedGetHostList *)
Definition get_list (s : state) (a : N) : list N :=
  match mget a (more s) with
  | Some l => l
  | None => match mget a (hosts s) with Some h => [h] | None => [] end
  end.

(* unlockedSetHostsForAddr *)
Definition set_hosts_for_addr (a : N) (l : list N) (s : state) : state :=
  match l with
  | [] => set_more (set_hosts s (mdel a (hosts s))) (mdel a (more s))
  | p :: r =>
      let s1 := set_hosts s (mset a p (hosts s)) in
      match r with
      | [] => set_more s1 (mdel a (more s1))
      | _ :: _ => set_more s1 (mset a l (more s1))
      end
  end.

(* one iteration of the address loop of unlockedDeleteHostInfo; the bool is [final] *)
Definition del_addr (h a : N) (sf : state * bool) : state * bool :=
  let (s, final) := sf in
  match mget a (more s) with
  | Some l =>
      let l' := remove_first h l in
      (set_hosts_for_addr a l' s, match l' with [] => final | _ :: _ => false end)
  | None =>
      match mget a (hosts s) with
      | Some e => if e =? h then (set_hosts s (mdel a (hosts s)), final) else (s, false)
      | None => (s, final)
      end
  end.

Fixpoint del_addrs (h : N) (addrs : list N) (sf : state * bool) : state * bool :=
  match addrs with
  | [] => sf
  | a :: r => del_addrs h r (del_addr h a sf)
  end.

(* RemoteIndexes is only cleared when it points to the hostinfo being deleted *)
Definition del_ridx (h : N) (hi : hinfo) (s : state) : state :=
  if is_some_id (mget (hi_remote hi) (ridx s)) h then set_ridx s (mdel (hi_remote hi) (ridx s)) else s.

(* Relays entries are only cleared when they point to the hostinfo being deleted *)
Fixpoint del_rels (h : N) (rs : list N) (m : amap N) : amap N :=
  match rs with
  | [] => m
  | r :: t => del_rels h t (if is_some_id (mget r m) h then mdel r m else m)
  end.

(* Indexes likewise: a hostinfo can be deleted more than once and its index may have been handed out again *)
Definition del_idx (h : N) (hi : hinfo) (s : state) : state :=
  if is_some_id (mget (hi_local hi) (idx s)) h then set_idx s (mdel (hi_local hi) (idx s)) else s.

(* unlockedDeleteHostInfo.  unlockedDisestablishVpnAddrRelayFor only rewrites Relay.State and is not
   modelled here. *)
Definition delete_hi (h : N) (s : state) : state * bool :=
  match mget h (infos s) with
  | None => (s, true)
  | Some hi =>
      let (s1, final) := del_addrs h (hi_addrs hi) (s, true) in
      let s2 := del_ridx h hi s1 in
      let s3 := del_idx h hi s2 in
      let s4 := set_rel s3 (del_rels h (hi_relays hi) (rel s3)) in
      (gmove h Main Dead s4, final)
  end.

(* unlockedInnerAddHostInfo *)
Definition inner_add (h a : N) (s : state) : state :=
  match mget a (hosts s) with
  | None => set_hosts s (mset a h (hosts s))
  | Some e =>
      let l0 := match mget a (more s) with Some l => l | None => [e] end in
      let l := h :: remove_first h l0 in
      let s1 := set_hosts_for_addr a l s in
      if MaxHostInfosPerVpnIp <? N.of_nat (length l) then
        match last_opt l with
        | Some o => fst (delete_hi o s1)
        | None => s1
        end
      else s1
  end.

Fixpoint inner_adds (h : N) (addrs : list N) (s : state) : state :=
  match addrs with
  | [] => s
  | a :: r => inner_adds h r (inner_add h a s)
  end.

(* unlockedAddHostInfo *)
Definition add_hi (h : N) (s : state) : state :=
  match mget h (infos s) with
  | None => s
  | Some hi =>
      let s1 := inner_adds h (hi_addrs hi) (gset h Adding s) in
      let s2 := set_idx s1 (mset (hi_local hi) h (idx s1)) in
      let s3 := set_ridx s2 (mset (hi_remote hi) h (ridx s2)) in
      gset h Main s3
  end.

(* one iteration of the address loop of unlockedMakePrimary *)
Definition promote_addr (h a : N) (s : state) : state :=
  if is_some_id (mget a (hosts s)) h then s
  else set_hosts_for_addr a (h :: remove_first h (get_list s a)) s.

Fixpoint promote_addrs (h : N) (addrs : list N) (s : state) : state :=
  match addrs with
  | [] => s
  | a :: r => promote_addrs h r (promote_addr h a s)
  end.

(* unlockedMakePrimary: refuses a hostinfo that is not registered in Indexes under its own index *)
Definition make_primary (h : N) (s : state) : state * bool :=
  match mget h (infos s) with
  | None => (s, false)
  | Some hi =>
      if is_some_id (mget (hi_local hi) (idx s)) h then (promote_addrs h (hi_addrs hi) s, true)
      else (s, false)
  end.

(* ---------- index generation ----------------------------------------------------------------- *)

(* generateIndex: read candidates until one is non-zero.  The candidate stream is the sequence of
   32-bit values crypto/rand delivers; an exhausted stream is the rand error path. *)
Fixpoint gen_index (cs : list N) : option (N * list N) :=
  match cs with
  | [] => None
  | c :: r => if c =? 0 then gen_index r else Some (c, r)
  end.

(* `for range 32` in allocateIndex and AddRelay *)
Definition alloc_tries : nat := 32.

(* allocateIndex: the candidate must be in neither the pending nor the main index map *)
Fixpoint alloc_loop (fuel : nat) (cs : list N) (s : state) : option N :=
  match fuel with
  | O => None
  | S f =>
      match gen_index cs with
      | None => None
      | Some (i, cs') =>
          match mget i (pidx s), mget i (idx s) with
          | None, None => Some i
          | _, _ => alloc_loop f cs' s
          end
      end
  end.

Definition with_local (hi : hinfo) (i : N) : hinfo := mkHI (hi_addrs hi) i (hi_remote hi) (hi_relays hi).
Definition with_relay (hi : hinfo) (i : N) : hinfo :=
  mkHI (hi_addrs hi) (hi_local hi) (hi_remote hi) (ins_sorted i (hi_relays hi)).

Definition alloc (h : N) (cs : list N) (s : state) : state * option N :=
  match mget h (infos s) with
  | None => (s, None)
  | Some hi =>
      match alloc_loop alloc_tries cs s with
      | None => (s, None)
      | Some i => (set_pidx (set_infos s (mset h (with_local hi i) (infos s))) (mset i h (pidx s)), Some i)
      end
  end.

(* AddRelay: the candidate must not be in Relays; the relay hostinfo is promoted first and the call
   fails if it is no longer in the hostmap *)
Fixpoint add_relay_loop (fuel : nat) (h : N) (cs : list N) (s : state) : state * option N :=
  match fuel with
  | O => (s, None)
  | S f =>
      match gen_index cs with
      | None => (s, None)
      | Some (i, cs') =>
          match mget i (rel s) with
          | Some _ => add_relay_loop f h cs' s
          | None =>
              let (s1, ok) := make_primary h s in
              if ok then
                match mget h (infos s1) with
                | Some hi => (set_infos (set_rel s1 (mset i h (rel s1))) (mset h (with_relay hi i) (infos s1)), Some i)
                | None => (s1, None)
                end
              else (s1, None)
          end
      end
  end.

Definition add_relay (h : N) (cs : list N) (s : state) : state * option N := add_relay_loop alloc_tries h cs s.

(* ---------- pending hostmap ------------------------------------------------------------------ *)

(* StartHandshake: one pending hostinfo per address *)
Definition start (id a : N) (s : state) : state * (N * bool) :=
  match mget a (pvpn s) with
  | Some e => (s, (e, false))
  | None =>
      (gset id Pend (set_pvpn (set_infos s (mset id (mkHI [a] 0 0 []) (infos s))) (mset a id (pvpn s))), (id, true))
  end.

Fixpoint pdel_addrs (h : N) (addrs : list N) (m : amap N) : amap N :=
  match addrs with
  | [] => m
  | a :: r => pdel_addrs h r (if is_some_id (mget a m) h then mdel a m else m)
  end.

(* HandshakeManager.unlockedDeleteHostInfo: vpnIps entries and the index entry are removed only when they
   point to this hostinfo *)
Definition pend_unlink (h : N) (s : state) : state :=
  match mget h (infos s) with
  | None => s
  | Some hi =>
      let s1 := set_pvpn s (pdel_addrs h (hi_addrs hi) (pvpn s)) in
      if is_some_id (mget (hi_local hi) (pidx s1)) h then set_pidx s1 (mdel (hi_local hi) (pidx s1)) else s1
  end.

Definition pend_delete (h : N) (s : state) : state := gmove h Pend Dead (pend_unlink h s).

(* continueHandshake on the final message + Complete: the hostinfo takes the certified addresses and the
   peer's index, leaves the pending hostmap and enters the main hostmap *)
Definition complete (h : N) (addrs : list N) (remote : N) (s : state) : state :=
  match mget h (infos s) with
  | None => s
  | Some hi =>
      let s1 := set_infos s (mset h (mkHI addrs (hi_local hi) remote (hi_relays hi)) (infos s)) in
      add_hi h (pend_unlink h s1)
  end.

(* beginHandshake + CheckAndComplete for a fresh responder hostinfo: code 0 added, 1 local index collision *)
Definition resp (id : N) (addrs : list N) (remote : N) (cs : list N) (s : state) : state * option (N * N) :=
  match gen_index cs with
  | None => (s, None)
  | Some (i, _) =>
      let s0 := set_infos s (mset id (mkHI addrs i remote []) (infos s)) in
      match mget i (idx s0) with
      | Some _ => (gset id Dead s0, Some (1, i))
      | None =>
          match mget i (pidx s0) with
          | Some _ => (gset id Dead s0, Some (1, i))
          | None => (add_hi id s0, Some (0, i))
          end
      end
  end.

(* ---------- operations ----------------------------------------------------------------------- *)

Inductive op :=
| OStart (id a : N)                                   (* StartHandshake(a); id is used if a hostinfo is created *)
| OAlloc (id : N) (cs : list N)                       (* allocateIndex for a tracked, not yet ready handshake *)
| OComplete (id : N) (addrs : list N) (remote : N)    (* final handshake message for a pending hostinfo *)
| OResp (id : N) (addrs : list N) (remote : N) (cs : list N)  (* responder: generateIndex + CheckAndComplete *)
| ODelete (id : N)                                    (* HostMap.DeleteHostInfo *)
| OPromote (id : N)                                   (* HostMap.MakePrimary *)
| OAddRelay (id peer : N) (cs : list N)               (* AddRelay *)
| OPendDelete (id : N).                               (* HandshakeManager.DeleteHostInfo (timeout, abandon, recv_error) *)

Inductive outcome :=
| RNone                               (* the operation was not applicable (the node would not perform it) *)
| RUnit
| RId (id : N) (created : bool)
| RIdx (o : option N)
| RBool (b : bool)
| RResp (code local : N).

Definition known (h : N) (s : state) : bool :=
  match mget h (infos s) with Some _ => true | None => false end.

(* handleOutbound finds the handshake through vpnIps and only allocates while it is not ready *)
Definition alloc_guard (h : N) (s : state) : bool :=
  match mget h (infos s) with
  | Some hi =>
      match hi_addrs hi with
      | a :: _ => is_some_id (mget a (pvpn s)) h && (hi_local hi =? 0)
      | [] => false
      end
  | None => false
  end.

(* continueHandshake re-verifies the handshake through indexes *)
Definition complete_guard (h : N) (s : state) : bool :=
  match mget h (infos s) with
  | Some hi => is_some_id (mget (hi_local hi) (pidx s)) h
  | None => false
  end.

Definition correct_host (h : N) (addrs : list N) (s : state) : bool :=
  match mget h (infos s) with
  | Some hi => match hi_addrs hi with a :: _ => mem a addrs | [] => false end
  | None => false
  end.

Definition step (o : op) (s : state) : state * outcome :=
  match o with
  | OStart id a =>
      if known id s then (s, RNone) else let (s', r) := start id a s in (s', RId (fst r) (snd r))
  | OAlloc id cs =>
      if alloc_guard id s then let (s', r) := alloc id cs s in (s', RIdx r) else (s, RNone)
  | OComplete id addrs remote =>
      if complete_guard id s then
        if correct_host id addrs s then (complete id addrs remote s, RBool true)
        else (pend_delete id s, RBool false)
      else (s, RNone)
  | OResp id addrs remote cs =>
      if known id s then (s, RNone) else
      match addrs with
      | [] => (s, RNone)
      | _ :: _ =>
          match resp id addrs remote cs s with
          | (s', Some (code, i)) => (s', RResp code i)
          | (s', None) => (s', RNone)
          end
      end
  | ODelete id =>
      if known id s then let (s', f) := delete_hi id s in (s', RBool f) else (s, RNone)
  | OPromote id =>
      if known id s then let (s', b) := make_primary id s in (s', RBool b) else (s, RNone)
  | OAddRelay id peer cs =>
      if known id s then let (s', r) := add_relay id cs s in (s', RIdx r) else (s, RNone)
  | OPendDelete id =>
      if known id s then (pend_delete id s, RUnit) else (s, RNone)
  end.

Fixpoint run (s : state) (ops : list op) : state :=
  match ops with
  | [] => s
  | o :: r => run (fst (step o s)) r
  end.

(* ---------- property statements (ghost free) --------------------------------------------------- *)

(* a tunnel is live when it is registered in Indexes under its own local index (the membership test
   unlockedMakePrimary uses) *)
Definition live (s : state) (h : N) : Prop :=
  exists hi, mget h (infos s) = Some hi /\ mget (hi_local hi) (idx s) = Some h.

Definition owns (s : state) (h a : N) : Prop :=
  exists hi, mget h (infos s) = Some hi /\ In a (hi_addrs hi).

Record WF (s : state) : Prop := mkWF {
  (* every address maps to a primary that heads its list *)
  wf_primary : forall a p, mget a (hosts s) = Some p -> exists r, get_list s a = p :: r;
  (* moreHosts only holds addresses with two or more hostinfos that also have a primary *)
  wf_more : forall a l, mget a (more s) = Some l -> (2 <= length l)%nat /\ mget a (hosts s) <> None;
  (* the list holds at most MaxHostInfosPerVpnIp distinct live tunnels that all own the address *)
  wf_nodup : forall a, NoDup (get_list s a);
  wf_len : forall a, N.of_nat (length (get_list s a)) <= MaxHostInfosPerVpnIp;
  wf_member : forall a x, In x (get_list s a) -> live s x /\ owns s x a;
  (* Indexes: keyed by the tunnel's own index, and the tunnel is in the list of each of its addresses *)
  wf_idx : forall i h, mget i (idx s) = Some h ->
             exists hi, mget h (infos s) = Some hi /\ hi_local hi = i /\ forall a, In a (hi_addrs hi) -> In h (get_list s a);
  (* RemoteIndexes / Relays point to live owners *)
  wf_ridx : forall r h, mget r (ridx s) = Some h ->
             live s h /\ exists hi, mget h (infos s) = Some hi /\ hi_remote hi = r;
  wf_rel : forall r h, mget r (rel s) = Some h ->
             live s h /\ exists hi, mget h (infos s) = Some hi /\ In r (hi_relays hi)
}.

(* h is referenced by no map of the main hostmap *)
Definition unreachable (s : state) (h : N) : Prop :=
  (forall a, mget a (hosts s) <> Some h) /\ (forall a, ~ In h (get_list s a)) /\
  (forall a l, mget a (more s) = Some l -> ~ In h l) /\
  (forall i, mget i (idx s) <> Some h) /\ (forall r, mget r (ridx s) <> Some h) /\
  (forall r, mget r (rel s) <> Some h).

(* h is referenced by no map of the pending hostmap *)
Definition punreachable (s : state) (h : N) : Prop :=
  (forall a, mget a (pvpn s) <> Some h) /\ (forall i, mget i (pidx s) <> Some h).

(* "no other tunnel holds any of its addresses" *)
Definition no_other_holder (s : state) (h : N) : Prop :=
  forall hi, mget h (infos s) = Some hi -> forall a x, In a (hi_addrs hi) -> In x (get_list s a) -> x = h.

(* C29: the index namespaces *)
Record IDX (s : state) : Prop := mkIDX {
  (* zero is never handed out *)
  ix_zero : mget 0 (idx s) = None /\ mget 0 (pidx s) = None /\ mget 0 (rel s) = None;
  (* pending and established tunnels share one namespace: no index is in both maps *)
  ix_disj : forall i, mget i (idx s) <> None -> mget i (pidx s) = None;
  (* an entry is keyed by the local index of the tunnel it points to, so two tunnels held at the same
     time never carry the same local index *)
  ix_main : forall i h, mget i (idx s) = Some h -> exists hi, mget h (infos s) = Some hi /\ hi_local hi = i;
  ix_pend : forall i h, mget i (pidx s) = Some h -> exists hi, mget h (infos s) = Some hi /\ hi_local hi = i;
  (* a relay index belongs to exactly one live tunnel *)
  ix_rel : forall h hi r, live s h -> mget h (infos s) = Some hi -> In r (hi_relays hi) -> mget r (rel s) = Some h
}.

(* the index map of the shared namespace *)
Definition held (s : state) (i : N) : option N :=
  match mget i (idx s) with Some h => Some h | None => mget i (pidx s) end.

(* one step releases an index only together with its owner; a RemoteIndexes entry disappears only
   together with the tunnel it pointed to *)
Record RELEASE (s s' : state) : Prop := mkREL {
  rl_local : forall i h, held s i = Some h -> held s' i = None -> unreachable s' h /\ punreachable s' h;
  rl_relay : forall r h, mget r (rel s) = Some h -> mget r (rel s') = None -> unreachable s' h;
  rl_remote : forall r h, mget r (ridx s) = Some h -> mget r (ridx s') = None -> unreachable s' h
}.

(* ---------- executable versions of the specifications (evaluated on the implementation's dump) ---- *)

Definition keys {V} (m : amap V) : list N := map fst m.

Definition liveb (s : state) (h : N) : bool :=
  match mget h (infos s) with
  | Some hi => is_some_id (mget (hi_local hi) (idx s)) h
  | None => false
  end.

Definition ownsb (s : state) (h a : N) : bool :=
  match mget h (infos s) with Some hi => mem a (hi_addrs hi) | None => false end.

Fixpoint nodupb (l : list N) : bool :=
  match l with [] => true | x :: r => negb (mem x r) && nodupb r end.

Definition head_is (l : list N) (p : N) : bool :=
  match l with x :: _ => x =? p | [] => false end.

Definition wf_addr (s : state) (a : N) : bool :=
  let l := get_list s a in
  match mget a (hosts s) with Some p => head_is l p | None => true end &&
  match mget a (more s) with
  | Some m => (2 <=? N.of_nat (length m)) && (match mget a (hosts s) with Some _ => true | None => false end)
  | None => true
  end &&
  nodupb l && (N.of_nat (length l) <=? MaxHostInfosPerVpnIp) &&
  forallb (fun x => liveb s x && ownsb s x a) l.

Definition wf_idx_entry (s : state) (i : N) : bool :=
  match mget i (idx s) with
  | Some h =>
      match mget h (infos s) with
      | Some hi => (hi_local hi =? i) && forallb (fun a => mem h (get_list s a)) (hi_addrs hi)
      | None => false
      end
  | None => true
  end.

Definition wf_ridx_entry (s : state) (r : N) : bool :=
  match mget r (ridx s) with
  | Some h => liveb s h && match mget h (infos s) with Some hi => hi_remote hi =? r | None => false end
  | None => true
  end.

Definition wf_rel_entry (s : state) (r : N) : bool :=
  match mget r (rel s) with
  | Some h => liveb s h && match mget h (infos s) with Some hi => mem r (hi_relays hi) | None => false end
  | None => true
  end.

Definition wfb (s : state) : bool :=
  forallb (wf_addr s) (keys (hosts s) ++ keys (more s)) &&
  forallb (wf_idx_entry s) (keys (idx s)) &&
  forallb (wf_ridx_entry s) (keys (ridx s)) &&
  forallb (wf_rel_entry s) (keys (rel s)).

Definition vals_free {V} (m : amap V) (inv : V -> bool) : bool :=
  forallb (fun k => match mget k m with Some v => negb (inv v) | None => true end) (keys m).

Definition unreachableb (s : state) (h : N) : bool :=
  vals_free (hosts s) (N.eqb h) && vals_free (more s) (mem h) && vals_free (idx s) (N.eqb h) &&
  vals_free (ridx s) (N.eqb h) && vals_free (rel s) (N.eqb h).

Definition punreachableb (s : state) (h : N) : bool :=
  vals_free (pvpn s) (N.eqb h) && vals_free (pidx s) (N.eqb h).

Definition no_other_holderb (s : state) (h : N) : bool :=
  match mget h (infos s) with
  | Some hi => forallb (fun a => forallb (N.eqb h) (get_list s a)) (hi_addrs hi)
  | None => true
  end.

Definition idx_entry_ok (s : state) (m : amap N) (i : N) : bool :=
  match mget i m with
  | Some h => match mget h (infos s) with Some hi => hi_local hi =? i | None => false end
  | None => true
  end.

Definition rel_owner_ok (s : state) (h : N) : bool :=
  match mget h (infos s) with
  | Some hi => negb (liveb s h) || forallb (fun r => is_some_id (mget r (rel s)) h) (hi_relays hi)
  | None => true
  end.

Definition idxb (s : state) : bool :=
  negb (mem 0 (keys (idx s))) && negb (mem 0 (keys (pidx s))) && negb (mem 0 (keys (rel s))) &&
  forallb (fun i => negb (mem i (keys (pidx s)))) (keys (idx s)) &&
  forallb (idx_entry_ok s (idx s)) (keys (idx s)) &&
  forallb (idx_entry_ok s (pidx s)) (keys (pidx s)) &&
  forallb (rel_owner_ok s) (keys (infos s)).

Definition releaseb (s s' : state) : bool :=
  forallb (fun i => match held s i, held s' i with
                    | Some h, None => unreachableb s' h && punreachableb s' h
                    | _, _ => true end) (keys (idx s) ++ keys (pidx s)) &&
  forallb (fun r => match mget r (rel s), mget r (rel s') with
                    | Some h, None => unreachableb s' h
                    | _, _ => true end) (keys (rel s)) &&
  forallb (fun r => match mget r (ridx s), mget r (ridx s') with
                    | Some h, None => unreachableb s' h
                    | _, _ => true end) (keys (ridx s)).

(* ---------- comparison with the implementation's dump (ghost ignored) --------------------------- *)

Fixpoint leqb {A} (e : A -> A -> bool) (l1 l2 : list A) : bool :=
  match l1, l2 with
  | [], [] => true
  | a :: r1, b :: r2 => e a b && leqb e r1 r2
  | _, _ => false
  end.

Definition nl_eqb := leqb N.eqb.
Definition kv_eqb (a b : N * N) : bool := (fst a =? fst b) && (snd a =? snd b).
Definition kl_eqb (a b : N * list N) : bool := (fst a =? fst b) && nl_eqb (snd a) (snd b).
Definition hinfo_eqb (a b : hinfo) : bool :=
  nl_eqb (hi_addrs a) (hi_addrs b) && (hi_local a =? hi_local b) && (hi_remote a =? hi_remote b) &&
  nl_eqb (hi_relays a) (hi_relays b).
Definition ki_eqb (a b : N * hinfo) : bool := (fst a =? fst b) && hinfo_eqb (snd a) (snd b).

Definition state_eqb (a b : state) : bool :=
  leqb ki_eqb (infos a) (infos b) && leqb kv_eqb (hosts a) (hosts b) && leqb kl_eqb (more a) (more b) &&
  leqb kv_eqb (idx a) (idx b) && leqb kv_eqb (ridx a) (ridx b) && leqb kv_eqb (rel a) (rel b) &&
  leqb kv_eqb (pvpn a) (pvpn b) && leqb kv_eqb (pidx a) (pidx b).

Definition outcome_eqb (a b : outcome) : bool :=
  match a, b with
  | RNone, RNone | RUnit, RUnit => true
  | RId i c, RId j d => (i =? j) && Bool.eqb c d
  | RIdx None, RIdx None => true
  | RIdx (Some i), RIdx (Some j) => i =? j
  | RBool x, RBool y => Bool.eqb x y
  | RResp c i, RResp d j => (c =? d) && (i =? j)
  | _, _ => false
  end.

(* Model of /repo/udp/udp_linux_writebatch.go: batchWriter.WriteBatch, planRun, writeEntryCmsg (which entries
   carry a UDP_SEGMENT size), with the kernel (w.sendFn = sendmmsg) replaced by an oracle.
   Executable definitions only.

   A packet is (length, destination id, routable?) where routable? says whether writeSockaddr succeeds for
   the destination on this socket (false: IPv6 remote on a v4-bound socket).  The oracle is asked once per
   sendFn call: call number k (0,1,2,..) and the number n of entries offered  |->  (sent, errno); errno 0 is a
   nil error.  sent > n never comes back from sendmmsg(2); the model stops with BadOracle if it does, and the
   theorems assume [oracle_ok].  All loops carry explicit fuel; OutOfFuel is a distinct outcome that the
   theorem C26_terminates shows unreachable.

   cap = len(w.msgs) = len(w.iovs) (MaxWriteBatch in production), maxSegs = w.maxGSOSegments,
   gso = w.gsoSupported.  Constants maxGSOBytes, MaxWriteBatch, EIO come from gen/Consts_WriteBatch.v. *)
From Coq Require Import List NArith ZArith Bool Arith.
Import ListNotations.
From NV Require Import lib.Bytes gen.Consts_WriteBatch.
Open Scope N_scope.

Record pkt := mkPkt { p_len : N; p_dst : N; p_ok : bool }.

(* one mmsghdr slot: packets [e_start, e_start + e_pkts) of the batch; e_seg = planRun's segSize, written into the
   UDP_SEGMENT cmsg iff e_pkts >= 2; e_dst = destination of the first packet (the sockaddr of the slot) *)
Record entry := mkEntry { e_start : nat; e_pkts : nat; e_seg : N; e_dst : N }.

(* one sendFn invocation: the entries offered (w.msgs[start:start+n]) and what the kernel answered *)
Record call := mkCall { c_offered : list entry; c_sent : Z; c_errno : N }.

Definition oracle := nat -> N -> Z * N.

(* ---- planRun ---------------------------------------------------------------------------------- *)

(* the for loop of planRun: how many more packets join the run. room = maxLen - runLen, total = bytes so far *)
Fixpoint extend (seg dst : N) (room : nat) (total : N) (rest : list pkt) : nat :=
  match room, rest with
  | S room', q :: rest' =>
      if ((p_len q =? 0) || (seg <? p_len q))%bool then 0%nat        (* nextLen == 0 || nextLen > segSize *)
      else if negb (p_dst q =? dst) then 0%nat                        (* addrs[..] != dst *)
      else if wb_max_gso_bytes <? total + p_len q then 0%nat          (* total+nextLen > maxGSOBytes *)
      else if p_len q <? seg then 1%nat                               (* a short packet is the last *)
      else S (extend seg dst room' (total + p_len q) rest')
  | _, _ => 0%nat
  end.

(* planRun(bufs, addrs, start, iovBudget) on from = bufs[start:] : (runLen, segSize) *)
Definition plan_run (gso : bool) (maxSegs budget : nat) (from : list pkt) : nat * N :=
  match from with
  | [] => (0%nat, 0)
  | p :: rest =>
      if (budget <? 1)%nat then (0%nat, 0) else
      let seg := p_len p in
      if (negb gso || (seg =? 0) || (wb_max_gso_bytes <? seg))%bool then (1%nat, seg)
      else (S (extend seg (p_dst p) (Nat.pred (Nat.min maxSegs budget)) seg rest), seg)
  end.

(* ---- the packing loop of one chunk --------------------------------------------------------------
   rest = bufs[i:], nent = entry, iov = iovIdx.  Returns the entries packed and the new i. *)
Fixpoint pack (fuel : nat) (cap : nat) (gso : bool) (maxSegs : nat) (rest : list pkt) (i nent iov : nat)
  : option (list entry * nat) :=
  match fuel with
  | O => None
  | S f =>
      match rest with
      | [] => Some ([], i)                                   (* i == len(bufs) *)
      | p :: _ =>
          if (nent <? cap)%nat then
            let budget := (cap - iov)%nat in
            if (budget <? 1)%nat then Some ([], i) else
            let '(rl, seg) := plan_run gso maxSegs budget rest in
            if (rl =? 0)%nat then Some ([], i) else
            if p_ok p then
              match pack f cap gso maxSegs (skipn rl rest) (i + rl) (S nent) (iov + rl) with
              | None => None
              | Some (es, i') => Some (mkEntry i rl seg (p_dst p) :: es, i')
              end
            else pack f cap gso maxSegs (skipn rl rest) (i + rl) nent iov   (* unroutable: skip the run *)
          else Some ([], i)
      end
  end.

(* ---- the drain loop ----------------------------------------------------------------------------- *)

Inductive dstat :=
| DsDone                       (* every entry of the chunk was sent or rejected *)
| DsNoProgress                 (* sent <= 0 with a nil error: WriteBatch returns an error *)
| DsGsoOff (restart : nat)     (* EIO on a multi-packet entry: GSO disabled, i rewinds to the run's start *)
| DsBadOracle                  (* the oracle claimed more entries than were offered (that call is not recorded) *)
| DsFuel.

Definition sum_pkts (es : list entry) : N := N.of_nat (fold_right (fun e a => (e_pkts e + a)%nat) 0%nat es).

(* ents = the entries from index `done` on; k = number of sendFn calls so far *)
Fixpoint drain (fuel : nat) (gso : bool) (orc : oracle) (k : nat) (ents : list entry) (written : N)
  : list call * nat * N * dstat :=
  match ents with
  | [] => ([], k, written, DsDone)
  | e :: rest =>
      match fuel with
      | O => ([], k, written, DsFuel)
      | S f =>
          let n := length ents in
          let '(sent, errno) := orc k (N.of_nat n) in
          let c := mkCall ents sent errno in
          if (0 <? sent)%Z then
            if (Z.of_nat n <? sent)%Z then ([], S k, written, DsBadOracle) else
            let s := Z.to_nat sent in
            let '(cs, k', w', st) := drain f gso orc (S k) (skipn s ents) (written + sum_pkts (firstn s ents)) in
            (c :: cs, k', w', st)
          else if errno =? 0 then ([c], S k, written, DsNoProgress)
          else if (gso && (2 <=? e_pkts e)%nat && (errno =? wb_eio))%bool then ([c], S k, written, DsGsoOff (e_start e))
          else
            let '(cs, k', w', st) := drain f gso orc (S k) rest written in
            (c :: cs, k', w', st)
      end
  end.

(* ---- WriteBatch ---------------------------------------------------------------------------------- *)

Inductive outcome :=
| Done (written : N)           (* return written, nil *)
| NoProgress (written : N)     (* return written, "sendmmsg made no progress" *)
| BadOracle
| OutOfFuel.

Fixpoint outer (fuel : nat) (cap : nat) (gso : bool) (maxSegs : nat) (pkts : list pkt) (orc : oracle)
               (k i : nat) (written : N) : list call * outcome * bool :=
  match fuel with
  | O => ([], OutOfFuel, gso)
  | S f =>
      if (i <? length pkts)%nat then
        match pack (S (length pkts)) cap gso maxSegs (skipn i pkts) i 0 0 with
        | None => ([], OutOfFuel, gso)
        | Some ([], _) => ([], Done written, gso)            (* entry == 0: every remaining packet was skipped *)
        | Some (ents, i') =>
            let '(cs, k', w', st) := drain (length ents) gso orc k ents written in
            match st with
            | DsDone => let '(cs2, o, g) := outer f cap gso maxSegs pkts orc k' i' w' in (cs ++ cs2, o, g)
            | DsGsoOff r => let '(cs2, o, g) := outer f cap false maxSegs pkts orc k' r w' in (cs ++ cs2, o, g)
            | DsNoProgress => (cs, NoProgress w', gso)
            | DsBadOracle => (cs, BadOracle, gso)
            | DsFuel => (cs, OutOfFuel, gso)
            end
        end
      else ([], Done written, gso)
  end.

Record result := mkResult { r_calls : list call; r_out : outcome; r_gso : bool (* w.gsoSupported afterwards *) }.

Definition write_batch_cap (cap : nat) (gso : bool) (maxSegs : nat) (pkts : list pkt) (orc : oracle) : result :=
  let '(cs, o, g) := outer (length pkts + 2) cap gso maxSegs pkts orc 0 0 0 in mkResult cs o g.

(* production: scratch sized MaxWriteBatch *)
Definition write_batch (gso : bool) (maxSegs : nat) (pkts : list pkt) (orc : oracle) : result :=
  write_batch_cap (N.to_nat wb_max_write_batch) gso maxSegs pkts orc.

(* ---- what the kernel accepted ------------------------------------------------------------------- *)

Definition oracle_ok (orc : oracle) : Prop := forall k n, (fst (orc k n) <= Z.of_N n)%Z.

(* the entries of a call the kernel took: the first `sent` ones *)
Definition accepted_of_call (c : call) : list entry :=
  if (0 <? c_sent c)%Z then firstn (Z.to_nat (c_sent c)) (c_offered c) else [].
Definition accepted (cs : list call) : list entry := flat_map accepted_of_call cs.

(* batch indexes of the packets of an entry, in iovec (= wire) order *)
Definition indices (e : entry) : list nat := seq (e_start e) (e_pkts e).
(* the sequence of packets handed to the kernel successfully, in order *)
Definition sent_indices (cs : list call) : list nat := flat_map indices (accepted cs).

(* the packets of an entry *)
Definition run_of (pkts : list pkt) (e : entry) : list pkt := firstn (e_pkts e) (skipn (e_start e) pkts).
Definition sum_len (l : list pkt) : N := fold_right (fun q a => p_len q + a) 0 l.

(* ---- prepareGSO's kernel-release gate ---------------------------------------------------------------
   gsoMaxSegments(release): major, minor := parseRelease(release);
       if major > 6 || (major == 6 && minor >= 9) { return 127 }; return 63
   (the two values come from gen/Consts_WriteBatch.v).  major/minor are Go ints. *)
Definition gso_max_segments (major minor : Z) : N :=
  if ((6 <? major) || ((major =? 6) && (9 <=? minor)))%Z%bool then wb_segs_6_9 else wb_segs_pre_6_9.

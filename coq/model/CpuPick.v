(* Model of /repo/cpupick: parseCPUList / parseCPUNum (perf_linux.go), perfCPUsFrom, byPerCPUValue,
   byIntelCoreMask (perf_linux.go), numaNodes, coreGroups (topo_linux.go), pickCandidates, arrange,
   splitmix64, Default (cpupick.go).  Executable definitions only - no proofs.

   CPU ids are N (they come from sched_getaffinity and from unsigned cpulist numbers), NUMA node ids,
   physical-core ids, `routines` and sysfs integer values are Z (Go int, may be -1 / negative),
   strings are lists of bytes (N below 256). *)
From Coq Require Import List NArith ZArith Bool.
Import ListNotations.
From NV Require Import lib.Bytes.
Open Scope N_scope.

(* ------------------------------------------------------------------------------------------- *)
(* 1. cpulist parsing                                                                          *)
(* ------------------------------------------------------------------------------------------- *)

(* strings.Trim(part, " \t\n\v\f\r"): the six ASCII blanks, bytes 9..13 and 32 *)
Definition is_blank (b : N) : bool := ((9 <=? b) && (b <=? 13)) || (b =? 32).
Definition is_digit (b : N) : bool := (48 <=? b) && (b <=? 57).
Definition comma : N := 44.
Definition dash : N := 45.

Fixpoint drop_blanks (s : list N) : list N :=
  match s with
  | [] => []
  | b :: r => if is_blank b then drop_blanks r else s
  end.

Definition trim_blanks (s : list N) : list N := rev (drop_blanks (rev (drop_blanks s))).

(* strings.Split(s, ","): first field and the remaining ones (k commas give k+1 fields) *)
Fixpoint split1 (s : list N) : list N * list (list N) :=
  match s with
  | [] => ([], [])
  | b :: r => let (f, fs) := split1 r in if b =? comma then ([], f :: fs) else (b :: f, fs)
  end.
Definition split_comma (s : list N) : list (list N) := let (f, fs) := split1 s in f :: fs.

(* strings.Cut(part, "-"): text before the first '-', and the text after it if there is one *)
Fixpoint cut_dash (s : list N) : list N * option (list N) :=
  match s with
  | [] => ([], None)
  | b :: r => if b =? dash then ([], Some r) else let (lo, hi) := cut_dash r in (b :: lo, hi)
  end.

(* strconv.ParseUint(s, 10, 63): non-empty, decimal digits only (no sign, no '_', no blanks; leading
   zeros are fine), value at most 2^63-1.  The value is accumulated without a bound and compared at the
   end, which refuses exactly the strings ParseUint refuses with "value out of range". *)
Definition max_int : N := 9223372036854775807.

Fixpoint digits_val (acc : N) (s : list N) : option N :=
  match s with
  | [] => Some acc
  | b :: r => if is_digit b then digits_val (10 * acc + (b - 48)) r else None
  end.

Definition parse_cpu_num (s : list N) : option N :=
  match s with
  | [] => None
  | _ => match digits_val 0 s with
         | Some v => if v <=? max_int then Some v else None
         | None => None
         end
  end.

Definition max_span : N := 8192.

(* for v := a; ; v++ { out = append(out, v); if v == b { break } }  with a <= b: k+1 values *)
Fixpoint count_up (a : N) (k : nat) : list N :=
  match k with
  | O => [a]
  | S k' => a :: count_up (a + 1) k'
  end.
Definition expand_range (a b : N) : list N := count_up a (N.to_nat (b - a)).

Definition parse_item (part : list N) : option (list N) :=
  let (lo, hi) := cut_dash part in
  match parse_cpu_num lo with
  | None => None
  | Some a =>
      match hi with
      | None => Some [a]
      | Some h =>
          match parse_cpu_num h with
          | None => None
          | Some b => if (b <? a) || (max_span <? b - a) then None else Some (expand_range a b)
          end
      end
  end.

Fixpoint parse_fields (fs : list (list N)) : option (list N) :=
  match fs with
  | [] => Some []
  | f :: r =>
      match trim_blanks f with
      | [] => parse_fields r                      (* empty item: skipped *)
      | part =>
          match parse_item part with
          | None => None
          | Some l => match parse_fields r with
                      | None => None
                      | Some l' => Some (l ++ l')
                      end
          end
      end
  end.

(* parseCPUList: Some list = (list, nil), None = error *)
Definition parse_cpu_list (s : list N) : option (list N) :=
  match s with
  | [] => Some []
  | _ => parse_fields (split_comma s)
  end.

(* ---- the kernel's cpulist syntax, declaratively -------------------------------------------- *)
(*   cpulist ::= field | field ',' cpulist
     field   ::= blank* | blank* item blank*           (empty items are skipped)
     item    ::= number | number '-' number            (n <= m, m - n <= 8192: the implementation's span limit)
     number  ::= digit+                                (value <= 2^63-1: the implementation's int)       *)
Inductive number : list N -> N -> Prop :=
| num_one d : is_digit d = true -> number [d] (d - 48)
| num_snoc ds v d : number ds v -> is_digit d = true -> number (ds ++ [d]) (10 * v + (d - 48)).

(* n+0, n+1, ..., n+(m-n) *)
Definition cpu_range (n m : N) : list N := map (N.add n) (count_up 0 (N.to_nat (m - n))).

Inductive item : list N -> list N -> Prop :=
| item_one ds n : number ds n -> n <= max_int -> item ds [n]
| item_range ds1 n ds2 m :
    number ds1 n -> number ds2 m -> n <= m -> m <= max_int -> m - n <= max_span ->
    item (ds1 ++ dash :: ds2) (cpu_range n m).

Definition blanks (ws : list N) : Prop := Forall (fun b => is_blank b = true) ws.

Inductive field : list N -> list N -> Prop :=
| field_empty ws : blanks ws -> field ws []
| field_item ws1 body ws2 l : blanks ws1 -> blanks ws2 -> item body l -> field (ws1 ++ body ++ ws2) l.

Inductive cpulist : list N -> list N -> Prop :=
| cl_last f l : field f l -> cpulist f l
| cl_cons f l s l' : field f l -> cpulist s l' -> cpulist (f ++ comma :: s) (l ++ l').

(* ---- an independent executable recogniser: one left-to-right pass, one byte at a time ------- *)
Inductive rstate :=
| RStart                       (* at the start of a field, only blanks seen *)
| RNum1 (v : N)                (* inside the first number *)
| RDash (a : N)                (* just after the '-' *)
| RNum2 (a v : N)              (* inside the second number *)
| RTrail (p : list N).         (* item complete (its CPUs are p), skipping trailing blanks *)

Definition r_single (v : N) : option (list N) := if v <=? max_int then Some [v] else None.
Definition r_range (a b : N) : option (list N) :=
  if (a <=? b) && (b <=? max_int) && (b - a <=? max_span) then Some (cpu_range a b) else None.

(* what the field read so far contributes when it ends here *)
Definition r_finish (q : rstate) : option (list N) :=
  match q with
  | RStart => Some []
  | RNum1 v => r_single v
  | RDash _ => None
  | RNum2 a v => r_range a v
  | RTrail p => Some p
  end.

Fixpoint r_run (q : rstate) (s : list N) : option (list N) :=
  match s with
  | [] => r_finish q
  | c :: r =>
      if c =? comma then
        match r_finish q with
        | Some p => match r_run RStart r with Some l => Some (p ++ l) | None => None end
        | None => None
        end
      else match q with
      | RStart => if is_blank c then r_run RStart r
                  else if is_digit c then r_run (RNum1 (c - 48)) r else None
      | RNum1 v => if is_digit c then r_run (RNum1 (10 * v + (c - 48))) r
                   else if c =? dash then r_run (RDash v) r
                   else if is_blank c then match r_single v with Some p => r_run (RTrail p) r | None => None end
                   else None
      | RDash a => if is_digit c then r_run (RNum2 a (c - 48)) r else None
      | RNum2 a v => if is_digit c then r_run (RNum2 a (10 * v + (c - 48))) r
                     else if is_blank c then match r_range a v with Some p => r_run (RTrail p) r | None => None end
                     else None
      | RTrail p => if is_blank c then r_run (RTrail p) r else None
      end
  end.

Definition recognise (s : list N) : option (list N) := r_run RStart s.

(* ------------------------------------------------------------------------------------------- *)
(* 2. performance filter (perfCPUsFrom)                                                        *)
(* ------------------------------------------------------------------------------------------- *)

Definition mem_n (c : N) (l : list N) : bool := existsb (N.eqb c) l.

(* Go int arithmetic (64 bit, two's complement) *)
Definition wrap_int (z : Z) : Z := ((z + 9223372036854775808) mod 18446744073709551616 - 9223372036854775808)%Z.

Fixpoint all_some {A : Type} (l : list (option A)) : option (list A) :=
  match l with
  | [] => Some []
  | None :: _ => None
  | Some a :: r => match all_some r with Some r' => Some (a :: r') | None => None end
  end.

(* minV, maxV := 0, 0; for i, v: if i == 0 || v < minV { minV = v }; if v > maxV { maxV = v } *)
Definition min_val (vals : list Z) : Z :=
  match vals with
  | [] => 0%Z
  | v :: r => fold_left (fun m x => if (x <? m)%Z then x else m) r v
  end.
Definition max_val (vals : list Z) : Z := fold_left (fun m x => if (m <? x)%Z then x else m) vals 0%Z.

(* byPerCPUValue: val c = the integer in the CPU's sysfs file, None when unreadable / not a number *)
Definition by_per_cpu_value (val : N -> option Z) (allowed : list N) (keep_pct : Z) : option (list N) :=
  match all_some (map val allowed) with
  | None => None
  | Some vals =>
      let mn := min_val vals in
      let mx := max_val vals in
      if (mn =? mx)%Z then None
      else Some (filter (fun c => match val c with
                                  | Some v => (wrap_int (mx * keep_pct) <=? wrap_int (v * 100))%Z
                                  | None => false
                                  end) allowed)
  end.

(* byIntelCoreMask: mask = content of the P-core mask file (None: unreadable). The caller trims the
   content with strings.TrimSpace; sysfs content is ASCII, where that is trim_blanks. *)
Definition by_intel_core_mask (mask : option (list N)) (allowed : list N) : option (list N) :=
  match mask with
  | None => None
  | Some content =>
      match parse_cpu_list (trim_blanks content) with
      | None | Some [] => None
      | Some set =>
          match filter (fun c => mem_n c set) allowed with
          | [] => None
          | keep => Some keep
          end
      end
  end.

Record perf_src := mkPerfSrc {
  ps_capacity : N -> option Z;          (* cpuN/cpu_capacity *)
  ps_mask : option (list N);            (* /sys/devices/cpu_core/cpus *)
  ps_max_freq : N -> option Z;          (* cpuN/cpufreq/cpuinfo_max_freq *)
  ps_capacity_keep_pct : Z;             (* capacityKeepPct *)
  ps_freq_keep_pct : Z                  (* freqKeepPct *)
}.

Definition perf_cpus (src : perf_src) (allowed : list N) : list N :=
  match by_per_cpu_value (ps_capacity src) allowed (ps_capacity_keep_pct src) with
  | Some l => l
  | None =>
      match by_intel_core_mask (ps_mask src) allowed with
      | Some l => l
      | None =>
          match by_per_cpu_value (ps_max_freq src) allowed (ps_freq_keep_pct src) with
          | Some l => l
          | None => allowed
          end
      end
  end.

(* pickCandidates *)
Definition pick_candidates (allowed perf : list N) (routines : Z) : list N :=
  if (Z.of_nat (length perf) <? routines)%Z then allowed else perf.

(* ------------------------------------------------------------------------------------------- *)
(* 3. topology                                                                                 *)
(* ------------------------------------------------------------------------------------------- *)

(* topology{nodeOf, coreOf map[int]int; zeroCore int}: a Go map lookup of a missing key gives 0 *)
Record topology := mkTopo { nodeOf : N -> Z; coreOf : N -> Z; zeroCore : Z }.

Fixpoint assoc_z (l : list (N * Z)) (c : N) : Z :=
  match l with
  | [] => 0%Z
  | (k, v) :: r => if k =? c then v else assoc_z r c
  end.
Definition topo_of_lists (nodes cores : list (N * Z)) (zc : Z) : topology :=
  mkTopo (assoc_z nodes) (assoc_z cores) zc.

(* numaNodes: entries = the nodeN directories in ReadDir order with their cpulist content (None:
   unreadable); a later directory claiming a wanted CPU overwrites an earlier one; unclaimed CPUs: node 0 *)
Definition numa_nodes (entries : list (Z * option (list N))) (cpus : list N) (c : N) : Z :=
  if mem_n c cpus then
    fold_left (fun acc e =>
                 match snd e with
                 | None => acc
                 | Some content =>
                     match parse_cpu_list (trim_blanks content) with
                     | None => acc
                     | Some l => if mem_n c l then fst e else acc
                     end
                 end) entries 0%Z
  else 0%Z.

Definition pair_eqb_z (p q : Z * Z) : bool := ((fst p =? fst q) && (snd p =? snd q))%Z.
Fixpoint lookup_pair (ids : list ((Z * Z) * Z)) (k : Z * Z) : option Z :=
  match ids with
  | [] => None
  | (k', v) :: r => if pair_eqb_z k' k then Some v else lookup_pair r k
  end.

(* coreGroups: pc c = (physical_package_id, core_id) of a CPU, None when either file is unreadable.
   State: the out map (most recent binding first), the ids map, next. *)
Fixpoint core_groups_go (pc : N -> option (Z * Z)) (cpus : list N)
         (out : list (N * Z)) (ids : list ((Z * Z) * Z)) (next : Z) : list (N * Z) * list ((Z * Z) * Z) :=
  match cpus with
  | [] => (out, ids)
  | c :: r =>
      match pc c with
      | None => core_groups_go pc r ((c, next) :: out) ids (next + 1)%Z
      | Some k =>
          match lookup_pair ids k with
          | Some id => core_groups_go pc r ((c, id) :: out) ids next
          | None => core_groups_go pc r ((c, next) :: out) ((k, next) :: ids) (next + 1)%Z
          end
      end
  end.

Definition core_groups (pc : N -> option (Z * Z)) (cpus : list N) : (N -> Z) * Z :=
  let (out, ids) := core_groups_go pc cpus [] [] 0%Z in
  (assoc_z out,
   match pc 0 with
   | Some k => match lookup_pair ids k with Some id => id | None => (-1)%Z end
   | None => (-1)%Z
   end).

Definition read_topology (entries : list (Z * option (list N))) (pc : N -> option (Z * Z)) (cpus : list N) : topology :=
  let (co, zc) := core_groups pc cpus in mkTopo (numa_nodes entries cpus) co zc.

(* flatTopology: node 0, core = index, zeroCore = index of CPU 0 (the last one if repeated) or -1 *)
Fixpoint flat_go (cpus : list N) (i : Z) (out : list (N * Z)) (zc : Z) : list (N * Z) * Z :=
  match cpus with
  | [] => (out, zc)
  | c :: r => flat_go r (i + 1)%Z ((c, i) :: out) (if c =? 0 then i else zc)
  end.
Definition flat_topology (cpus : list N) : topology :=
  let (out, zc) := flat_go cpus 0%Z [] (-1)%Z in mkTopo (fun _ => 0%Z) (assoc_z out) zc.

(* ------------------------------------------------------------------------------------------- *)
(* 4. arrange                                                                                  *)
(* ------------------------------------------------------------------------------------------- *)

(* first occurrences, in order *)
Fixpoint dedup_z (l : list Z) : list Z :=
  match l with
  | [] => []
  | x :: r => x :: filter (fun y => negb (y =? x)%Z) (dedup_z r)
  end.

(* nodes: the candidates' nodes in order of first appearance; byNode[n] *)
Definition nodes_of (t : topology) (cands : list N) : list Z := dedup_z (map (nodeOf t) cands).
Definition by_node (t : topology) (cands : list N) (n : Z) : list N := filter (fun c => (nodeOf t c =? n)%Z) cands.
Definition eligible_nodes (t : topology) (cands : list N) (routines : Z) : list Z :=
  filter (fun n => (routines <=? Z.of_nat (length (by_node t cands n)))%Z) (nodes_of t cands).

(* cands = byNode[eligible[h % len(eligible)]] when some node is big enough *)
Definition node_confined (t : topology) (cands : list N) (routines : Z) (h : N) : list N :=
  match eligible_nodes t cands routines with
  | [] => cands
  | e => by_node t cands (nth (N.to_nat (h mod N.of_nat (length e))) e 0%Z)
  end.

Definition on_zero_core (t : topology) (c : N) : bool := (0 <=? zeroCore t)%Z && (coreOf t c =? zeroCore t)%Z.

Definition preferred_of (t : topology) (cands : list N) : list N :=
  filter (fun c => negb (c =? 0) && negb (on_zero_core t c)) cands.
Definition zero_tail_of (t : topology) (cands : list N) : list N :=
  filter (fun c => negb (c =? 0) && on_zero_core t c) cands ++ (if mem_n 0 cands then [0] else []).

Definition rotate (off : nat) (l : list N) : list N := skipn off l ++ firstn off l.

Definition mem_z (x : Z) (l : list Z) : bool := existsb (Z.eqb x) l.

(* the SMT pass: (one thread per physical core in order, the remaining siblings in order) *)
Fixpoint smt_split (t : topology) (seen : list Z) (l : list N) : list N * list N :=
  match l with
  | [] => ([], [])
  | c :: r =>
      let g := coreOf t c in
      if mem_z g seen then let (o, s) := smt_split t seen r in (o, c :: s)
      else let (o, s) := smt_split t (g :: seen) r in (c :: o, s)
  end.

Definition arrange (cands : list N) (t : topology) (routines : Z) (h : N) : list N :=
  let cs := node_confined t cands routines h in
  let preferred := preferred_of t cs in
  let tail := zero_tail_of t cs in
  match preferred with
  | [] => tail
  | _ =>
      let off := N.to_nat (N.shiftr h 32 mod N.of_nat (length preferred)) in
      let (o, s) := smt_split t [] (rotate off preferred) in
      o ++ s ++ tail
  end.

(* splitmix64 on uint64 *)
Definition splitmix64 (x : N) : N :=
  let x1 := w64 (x + 11400714819323198485) in
  let x2 := w64 (N.lxor x1 (N.shiftr x1 30) * 13787848793156543929) in
  let x3 := w64 (N.lxor x2 (N.shiftr x2 27) * 10723151780598845931) in
  N.lxor x3 (N.shiftr x3 31).

(* Default, given what util.AllowedCPUs, perfCPUs and readTopology report: None = nil *)
Definition default_pins (allowed perf : list N) (topo_for : list N -> topology) (routines : Z) (key : N) : option (list N) :=
  match allowed with
  | [] => None
  | _ =>
      let cands := pick_candidates allowed perf routines in
      match cands with
      | [] => None
      | _ => Some (arrange cands (topo_for cands) routines (splitmix64 key))
      end
  end.

(* ---- executable forms of the property clauses (used on the implementation's output) --------- *)
Fixpoint nodup_n (l : list N) : bool :=
  match l with
  | [] => true
  | x :: r => negb (mem_n x r) && nodup_n r
  end.
Definition subset_n (l1 l2 : list N) : bool := forallb (fun c => mem_n c l2) l1.
Definition same_set_n (l1 l2 : list N) : bool := subset_n l1 l2 && subset_n l2 l1.

Definition node_count (t : topology) (cands : list N) (n : Z) : Z := Z.of_nat (length (by_node t cands n)).

(* out is exactly the candidates of one node that holds at least `routines` of them, or - when no
   candidate's node does - exactly the candidates *)
Definition node_complete_b (t : topology) (cands : list N) (routines : Z) (out : list N) : bool :=
  existsb (fun n => (routines <=? node_count t cands n)%Z && same_set_n out (by_node t cands n)) (nodes_of t cands)
  || (forallb (fun n => (node_count t cands n <? routines)%Z) (nodes_of t cands) && same_set_n out cands).

(* nothing of CPU 0's core before anything else; CPU 0 only at the very end *)
Fixpoint zero_last_b (t : topology) (out : list N) : bool :=
  match out with
  | [] => true
  | c :: r =>
      if c =? 0 then match r with [] => true | _ => false end
      else if on_zero_core t c then forallb (fun d => (d =? 0) || on_zero_core t d) r && zero_last_b t r
      else zero_last_b t r
  end.

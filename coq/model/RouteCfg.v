(* Model of /repo/overlay/route.go: parseIntValue, parseRoutes, parseUnsafeRoutes.
   Executable definitions only.

   A configuration value is what yaml.v3 hands to nebula: string, int, bool, float64, list, map with string
   keys, nil.  A float64 is represented by its Go "%v" text (YFloatText); an integer literal that does not
   fit Go's int (yaml.v3 then produces a uint64) is a YInt outside the int range.  Strings are byte lists.
   netip.ParsePrefix / netip.ParseAddr are oracles [pp] / [pa]: "this string is prefix P / address A, or
   invalid".  None = the function returned an error (the repaired code has no panicking path). *)
From Coq Require Import List NArith ZArith Bool String Ascii.
Import ListNotations.
Open Scope N_scope.

Inductive yaml :=
| YStr (s : list N)
| YInt (z : Z)
| YBool (b : bool)
| YFloatText (s : list N)
| YList (l : list yaml)
| YMap (m : list (list N * yaml))
| YNull.

Definition bytes_of (s : string) : list N := map N_of_ascii (list_ascii_of_string s).

Fixpoint str_eqb (a b : list N) : bool :=
  match a, b with
  | [], [] => true
  | x :: r, y :: q => (x =? y) && str_eqb r q
  | _, _ => false
  end.

(* m[key] of a Go map *)
Fixpoint ylookup (k : list N) (m : list (list N * yaml)) : option yaml :=
  match m with
  | [] => None
  | (k', v) :: r => if str_eqb k k' then Some v else ylookup k r
  end.

Definition k_mtu := Eval compute in bytes_of "mtu".
Definition k_route := Eval compute in bytes_of "route".
Definition k_metric := Eval compute in bytes_of "metric".
Definition k_via := Eval compute in bytes_of "via".
Definition k_gateway := Eval compute in bytes_of "gateway".
Definition k_weight := Eval compute in bytes_of "weight".
Definition k_install := Eval compute in bytes_of "install".

(* ---- integers --------------------------------------------------------------------------------- *)

Definition min_int : Z := (-9223372036854775808)%Z.
Definition max_int : Z := 9223372036854775807%Z.
Definition max_int32 : Z := 2147483647%Z.
Definition in_int (z : Z) : bool := (min_int <=? z)%Z && (z <=? max_int)%Z.

Definition is_digit (c : N) : bool := (48 <=? c) && (c <=? 57).

Fixpoint digits_val (acc : Z) (s : list N) : option Z :=
  match s with
  | [] => Some acc
  | c :: r => if is_digit c then digits_val (10 * acc + Z.of_N (c - 48))%Z r else None
  end.

(* strconv.Atoi: optional '+' or '-', then one or more ASCII digits, value within int *)
Definition split_sign (s : list N) : bool * list N :=
  match s with
  | 43 :: r => (false, r)
  | 45 :: r => (true, r)
  | _ => (false, s)
  end.

Definition atoi (s : list N) : option Z :=
  let '(neg, ds) := split_sign s in
  match ds with
  | [] => None
  | _ :: _ =>
      match digits_val 0 ds with
      | None => None
      | Some v => let v' := if neg then (- v)%Z else v in if in_int v' then Some v' else None
      end
  end.

(* parseIntValue: int -> the value; string -> strconv.Atoi; anything else is an error *)
Definition parse_num (v : yaml) : option Z :=
  match v with
  | YInt z => if in_int z then Some z else None      (* outside int: yaml.v3 gives uint64, refused *)
  | YStr s => atoi s
  | _ => None
  end.

(* ---- addresses and prefixes ------------------------------------------------------------------- *)

Definition addr := (N * N * list N)%type.        (* family 4 | 6, value, zone *)
Definition prefix := (N * N * N)%type.           (* family, address value as written (not masked), bits *)

Definition fam_bits (f : N) : N := if f =? 4 then 32 else 128.

Definition prefix_wf (p : prefix) : bool :=
  let '(f, v, b) := p in ((f =? 4) || (f =? 6)) && (v <? 2 ^ fam_bits f) && (b <=? fam_bits f).

(* netip.Prefix.Contains on an address without zone: same family and equal leading [bits] bits *)
Definition contains (p : prefix) (f v : N) : bool :=
  let '(pf, pv, pb) := p in
  (pf =? f) && (pb <=? fam_bits pf) && (N.shiftr pv (fam_bits pf - pb) =? N.shiftr v (fam_bits pf - pb)).

(* route.go: network.Contains(r.Cidr.Addr()) && r.Cidr.Bits() >= network.Bits() for some network *)
Definition route_inside (nets : list prefix) (c : prefix) : bool :=
  let '(f, v, b) := c in existsb (fun n => contains n f v && (snd n <=? b)) nets.

(* route.go: network.Contains(r.Cidr.Addr()) for some network -> refused *)
Definition base_in_networks (nets : list prefix) (c : prefix) : bool :=
  let '(f, v, _) := c in existsb (fun n => contains n f v) nets.

(* ---- results ---------------------------------------------------------------------------------- *)

(* Route{MTU, Metric, Cidr, Via [(addr, weight)], Install} *)
Definition route := (Z * Z * prefix * list (addr * Z) * bool)%type.

Fixpoint map_opt {A B} (f : A -> option B) (l : list A) : option (list B) :=
  match l with
  | [] => Some []
  | a :: r => match f a with
              | None => None
              | Some b => match map_opt f r with None => None | Some bs => Some (b :: bs) end
              end
  end.

Section Parse.
  Variable pp : list N -> option prefix.   (* netip.ParsePrefix *)
  Variable pa : list N -> option addr.     (* netip.ParseAddr *)
  Variable nets : list prefix.             (* the node's overlay networks *)

  (* netip.ParsePrefix(fmt.Sprintf("%v", x)): the "%v" text of an int, bool, float, nil, list or map is
     never a prefix (no '/', or brackets around it), so only a string can succeed *)
  Definition parse_cidr (v : yaml) : option prefix :=
    match v with YStr s => pp s | _ => None end.

  (* ---- tun.routes ---- *)
  Definition parse_route_entry (e : yaml) : option route :=
    match e with
    | YMap m =>
        match ylookup k_mtu m with
        | None => None
        | Some vm =>
            match parse_num vm with
            | None => None
            | Some mtu =>
                if (mtu <? 500)%Z then None else
                match ylookup k_route m with
                | None => None
                | Some vr =>
                    match parse_cidr vr with
                    | None => None
                    | Some c => if route_inside nets c then Some (mtu, 0%Z, c, [], true) else None
                    end
                end
            end
        end
    | _ => None
    end.

  (* c.Get returns nil for an absent key and for an explicit null: YNull stands for both *)
  Definition parse_routes (v : yaml) : option (list route) :=
    match v with
    | YNull => Some []
    | YList l => map_opt parse_route_entry l
    | _ => None
    end.

  (* ---- tun.unsafe_routes ---- *)

  (* strconv.ParseBool *)
  Definition parse_bool (s : list N) : option bool :=
    if existsb (str_eqb s) (map bytes_of ["1"; "t"; "T"; "TRUE"; "true"; "True"]%string) then Some true
    else if existsb (str_eqb s) (map bytes_of ["0"; "f"; "F"; "FALSE"; "false"; "False"]%string) then Some false
    else None.

  (* strconv.ParseBool(fmt.Sprintf("%v", x)) *)
  Definition parse_install (v : yaml) : option bool :=
    match v with
    | YBool b => Some b
    | YInt z => if (z =? 1)%Z then Some true else if (z =? 0)%Z then Some false else None
    | YStr s => parse_bool s
    | YFloatText s => parse_bool s
    | YList _ | YMap _ | YNull => None      (* "[...]", "map[...]", "<nil>" *)
    end.

  Definition parse_gateway (v : yaml) : option (addr * Z) :=
    match v with
    | YMap gm =>
        match ylookup k_gateway gm with
        | Some (YStr s) =>
            match pa s with
            | None => None
            | Some ip =>
                let rw := match ylookup k_weight gm with Some x => x | None => YInt 1 end in
                match parse_num rw with
                | None => None
                | Some w => if (w <? 1)%Z || (max_int32 <? w)%Z then None else Some (ip, w)
                end
            end
        | _ => None
        end
    | _ => None
    end.

  Definition parse_via (v : yaml) : option (list (addr * Z)) :=
    match v with
    | YStr s => match pa s with Some ip => Some [(ip, 1%Z)] | None => None end
    | YList l => map_opt parse_gateway l
    | _ => None
    end.

  Definition parse_unsafe_mtu (m : list (list N * yaml)) : option Z :=
    match ylookup k_mtu m with
    | None => Some 0%Z
    | Some vm =>
        match parse_num vm with
        | None => None
        | Some mtu => if negb (mtu =? 0)%Z && (mtu <? 500)%Z then None else Some mtu
        end
    end.

  Definition parse_unsafe_metric (m : list (list N * yaml)) : option Z :=
    let rm := match ylookup k_metric m with Some x => x | None => YInt 0 end in
    match parse_num rm with
    | None => None
    | Some metric => if (metric <? 0)%Z || (max_int32 <? metric)%Z then None else Some metric
    end.

  Definition parse_unsafe_install (m : list (list N * yaml)) : option bool :=
    match ylookup k_install m with
    | None => Some true
    | Some vi => parse_install vi
    end.

  Definition parse_unsafe_entry (e : yaml) : option route :=
    match e with
    | YMap m =>
        match parse_unsafe_mtu m with
        | None => None
        | Some mtu =>
            match parse_unsafe_metric m with
            | None => None
            | Some metric =>
                match ylookup k_via m with
                | None => None
                | Some vv =>
                    match parse_via vv with
                    | None => None
                    | Some gws =>
                        match ylookup k_route m with
                        | None => None
                        | Some vr =>
                            match parse_unsafe_install m with
                            | None => None
                            | Some inst =>
                                match parse_cidr vr with
                                | None => None
                                | Some c =>
                                    if base_in_networks nets c then None
                                    else Some (mtu, metric, c, gws, inst)
                                end
                            end
                        end
                    end
                end
            end
        end
    | _ => None
    end.

  Definition parse_unsafe_routes (v : yaml) : option (list route) :=
    match v with
    | YNull => Some []
    | YList l => map_opt parse_unsafe_entry l
    | _ => None
    end.
End Parse.

(* ---- decimal strings (for stating "takes exactly the stated value") ---------------------------- *)

(* the text sign ++ digits, digits given as numbers 0..9 *)
Definition dec_text (neg : bool) (ds : list N) : list N :=
  (if neg then [45] else []) ++ map (fun d => d + 48) ds.

Fixpoint dec_value (acc : Z) (ds : list N) : Z :=
  match ds with [] => acc | d :: r => dec_value (10 * acc + Z.of_N d)%Z r end.

Definition dec_signed (neg : bool) (ds : list N) : Z :=
  if neg then (- dec_value 0 ds)%Z else dec_value 0 ds.

(* canonical decimal rendering of an integer (strconv.Itoa), through the standard library's decimal
   numerals *)
Fixpoint uint_digits (u : Decimal.uint) : list N :=
  match u with
  | Decimal.Nil => []
  | Decimal.D0 r => 0 :: uint_digits r
  | Decimal.D1 r => 1 :: uint_digits r
  | Decimal.D2 r => 2 :: uint_digits r
  | Decimal.D3 r => 3 :: uint_digits r
  | Decimal.D4 r => 4 :: uint_digits r
  | Decimal.D5 r => 5 :: uint_digits r
  | Decimal.D6 r => 6 :: uint_digits r
  | Decimal.D7 r => 7 :: uint_digits r
  | Decimal.D8 r => 8 :: uint_digits r
  | Decimal.D9 r => 9 :: uint_digits r
  end.

Definition decimal (z : Z) : list N :=
  dec_text (z <? 0)%Z (uint_digits (N.to_uint (Z.abs_N z))).

(* Noise: the token interpreter of flynn/noise v1.1.0 (state.go) over symbolic terms.

   Mirrors HandshakeState.ReadMessage / WriteMessage token by token, INCLUDING where the library does and does
   not roll back: Checkpoint() saves only (ck, h) at the start of ReadMessage; Rollback() is called only when an
   AEAD decryption fails (static key or payload); the returns on ErrShortMessage, on "rs is not nil" and on every
   DH error leave the state exactly as it is at that moment (h already mixed with the peer's ephemeral, ck/k
   possibly advanced).  k, n, hasK and re are never restored by anything.

   nebula configures the handshake with an empty preshared key and placement 0, for which flynn sets
   willPsk = false and adds no psk token: tokens are e, s, ee, es, se, ss only. *)
From Coq Require Import List NArith Bool.
Import ListNotations.
From NV Require Import lib.Sym.
Open Scope N_scope.

Inductive token := TE | TS | TEE | TES | TSE | TSS.

(* noise.HandshakeIX.Messages *)
Definition ix_pattern : list (list token) := [[TE; TS]; [TE; TEE; TSE; TS; TES]].

Record hstate := mkHs {
  hs_curve : N;            (* 0 = X25519, 1 = P-256 (the DH function of the cipher suite) *)
  hs_cipher : N;           (* 0 = ChaChaPoly, 1 = AESGCM *)
  hs_ck : term;
  hs_h : term;
  hs_k : term;
  hs_n : N;
  hs_hasK : bool;
  hs_spriv : N;            (* local static private key *)
  hs_spub : term;          (* local static public key as configured (the certificate's key) *)
  hs_e : option N;         (* local ephemeral private key *)
  hs_rs : option term;     (* remote static (nil = None) *)
  hs_re : option term;     (* remote ephemeral *)
  hs_shouldWrite : bool;
  hs_initiator : bool;
  hs_msgIdx : N;
  hs_pat : list (list token)
}.

Definition set_sym (st : hstate) (ck h k : term) (n : N) (hasK : bool) : hstate :=
  mkHs (hs_curve st) (hs_cipher st) ck h k n hasK (hs_spriv st) (hs_spub st) (hs_e st) (hs_rs st) (hs_re st)
       (hs_shouldWrite st) (hs_initiator st) (hs_msgIdx st) (hs_pat st).
Definition set_e (st : hstate) (e : option N) : hstate :=
  mkHs (hs_curve st) (hs_cipher st) (hs_ck st) (hs_h st) (hs_k st) (hs_n st) (hs_hasK st) (hs_spriv st) (hs_spub st)
       e (hs_rs st) (hs_re st) (hs_shouldWrite st) (hs_initiator st) (hs_msgIdx st) (hs_pat st).
Definition set_rs (st : hstate) (rs : option term) : hstate :=
  mkHs (hs_curve st) (hs_cipher st) (hs_ck st) (hs_h st) (hs_k st) (hs_n st) (hs_hasK st) (hs_spriv st) (hs_spub st)
       (hs_e st) rs (hs_re st) (hs_shouldWrite st) (hs_initiator st) (hs_msgIdx st) (hs_pat st).
Definition set_re (st : hstate) (re : option term) : hstate :=
  mkHs (hs_curve st) (hs_cipher st) (hs_ck st) (hs_h st) (hs_k st) (hs_n st) (hs_hasK st) (hs_spriv st) (hs_spub st)
       (hs_e st) (hs_rs st) re (hs_shouldWrite st) (hs_initiator st) (hs_msgIdx st) (hs_pat st).
Definition set_turn (st : hstate) (shouldWrite : bool) (msgIdx : N) : hstate :=
  mkHs (hs_curve st) (hs_cipher st) (hs_ck st) (hs_h st) (hs_k st) (hs_n st) (hs_hasK st) (hs_spriv st) (hs_spub st)
       (hs_e st) (hs_rs st) (hs_re st) shouldWrite (hs_initiator st) msgIdx (hs_pat st).

Definition hs_dl (st : hstate) : N := dhlen (hs_curve st).

(* ---- symmetricState ---------------------------------------------------------------------------- *)

Definition mix_hash (st : hstate) (d : term) : hstate :=
  set_sym st (hs_ck st) (H (hs_h st) d) (hs_k st) (hs_n st) (hs_hasK st).

(* MixKey: ck, k = HKDF(ck, dh); n = 0; hasK = true *)
Definition mix_key (st : hstate) (d : term) : hstate :=
  set_sym st (Hkdf (hs_ck st) d 1) (hs_h st) (Hkdf (hs_ck st) d 2) 0 true.

Definition encrypt_and_hash (st : hstate) (p : term) : hstate * term :=
  if hs_hasK st then
    let c := Aead (hs_k st) (hs_n st) (hs_h st) p in
    (set_sym st (hs_ck st) (H (hs_h st) c) (hs_k st) (hs_n st + 1) true, c)
  else (mix_hash st p, p).

(* None = the AEAD refused; nothing was modified (Decrypt increments n only on success) *)
Definition decrypt_and_hash (st : hstate) (d : term) : option (hstate * term) :=
  if hs_hasK st then
    match adec (hs_k st) (hs_n st) (hs_h st) d with
    | Some p => Some (set_sym st (hs_ck st) (H (hs_h st) d) (hs_k st) (hs_n st + 1) true, p)
    | None => None
    end
  else Some (mix_hash st d, d).

(* Split: (cs1, cs2) = HKDF(ck, empty); cs1 encrypts initiator -> responder *)
Definition split (st : hstate) : term * term := (Hkdf (hs_ck st) Empty 1, Hkdf (hs_ck st) Empty 2).

(* Rollback restores ck and h only *)
Definition rollback (ck0 h0 : term) (st : hstate) : hstate :=
  set_sym st ck0 h0 (hs_k st) (hs_n st) (hs_hasK st).

(* cs.DH(priv, pub): an error for a missing key and for a public key the curve refuses *)
Definition dh_op (curve : N) (priv : option N) (pub : option term) : option term :=
  match priv, pub with
  | Some a, Some B => if dh_accepts curve B then Some (dh a B) else None
  | _, _ => None
  end.

(* the DH a token stands for, by role (same in ReadMessage and WriteMessage) *)
Definition tok_dh (st : hstate) (tok : token) : option term :=
  let c := hs_curve st in
  match tok with
  | TEE => dh_op c (hs_e st) (hs_re st)
  | TES => if hs_initiator st then dh_op c (hs_e st) (hs_rs st) else dh_op c (Some (hs_spriv st)) (hs_re st)
  | TSE => if hs_initiator st then dh_op c (Some (hs_spriv st)) (hs_re st) else dh_op c (hs_e st) (hs_rs st)
  | TSS => dh_op c (Some (hs_spriv st)) (hs_rs st)
  | _ => None
  end.

(* ---- ReadMessage ------------------------------------------------------------------------------- *)

Inductive rstep :=
| RStop (st : hstate)                               (* return nil, nil, nil, err with the state as it is *)
| RGo (st : hstate) (msg : term) (rsSet : bool).

Definition rd_token (ck0 h0 : term) (tok : token) (st : hstate) (msg : term) (rsSet : bool) : rstep :=
  let dl := hs_dl st in
  match tok with
  | TE =>
      if tlen dl msg <? dl then RStop st                                   (* ErrShortMessage: nothing touched yet *)
      else let (x, rest) := take dl dl msg in
           RGo (mix_hash (set_re st (Some x)) x) rest rsSet
  | TS =>
      let expected := dl + (if hs_hasK st then 16 else 0) in
      if tlen dl msg <? expected then RStop st                             (* ErrShortMessage: NO rollback *)
      else match hs_rs st with
           | Some _ => RStop st                                            (* "rs is not nil": NO rollback *)
           | None =>
               let (x, rest) := take dl expected msg in
               match decrypt_and_hash st x with
               | Some (st', p) => RGo (set_rs st' (Some p)) rest true
               | None => RStop (rollback ck0 h0 (set_rs st None))          (* AEAD failure: Rollback, rs = nil *)
               end
           end
  | _ =>
      match tok_dh st tok with
      | Some d => RGo (mix_key st d) msg rsSet
      | None => RStop st                                                   (* DH error: NO rollback *)
      end
  end.

Fixpoint rd_loop (ck0 h0 : term) (toks : list token) (st : hstate) (msg : term) (rsSet : bool) : rstep :=
  match toks with
  | [] => RGo st msg rsSet
  | t :: r =>
      match rd_token ck0 h0 t st msg rsSet with
      | RStop s => RStop s
      | RGo s m b => rd_loop ck0 h0 r s m b
      end
  end.

Inductive rres :=
| RErr
| ROk (payload : term) (keys : option (term * term)).

Definition read_message (st : hstate) (msg : term) : hstate * rres :=
  if hs_shouldWrite st then (st, RErr)
  else match nth_error (hs_pat st) (N.to_nat (hs_msgIdx st)) with
       | None => (st, RErr)                                                (* no handshake messages left *)
       | Some toks =>
           let ck0 := hs_ck st in let h0 := hs_h st in                    (* Checkpoint *)
           match rd_loop ck0 h0 toks st msg false with
           | RStop s => (s, RErr)
           | RGo s rest rsSet =>
               match decrypt_and_hash s rest with
               | None => (rollback ck0 h0 (if rsSet then set_rs s None else s), RErr)
               | Some (s', p) =>
                   let s'' := set_turn s' true (hs_msgIdx s' + 1) in
                   (s'', ROk p (if N.of_nat (length (hs_pat s'')) <=? hs_msgIdx s'' then Some (split s'') else None))
               end
           end
       end.

(* ---- WriteMessage ------------------------------------------------------------------------------ *)

Inductive wstep :=
| WStop (st : hstate)
| WGo (st : hstate) (out : term).

(* eph: the private key GenerateKeypair draws from the random source *)
Definition wr_token (eph : N) (tok : token) (st : hstate) (out : term) : wstep :=
  match tok with
  | TE =>
      let st1 := set_e st (Some eph) in
      WGo (mix_hash st1 (Pub eph)) (cat out (Pub eph))
  | TS =>
      if tlen (hs_dl st) (hs_spub st) =? 0 then WStop st
      else let (st', c) := encrypt_and_hash st (hs_spub st) in WGo st' (cat out c)
  | _ =>
      match tok_dh st tok with
      | Some d => WGo (mix_key st d) out
      | None => WStop st
      end
  end.

Fixpoint wr_loop (eph : N) (toks : list token) (st : hstate) (out : term) : wstep :=
  match toks with
  | [] => WGo st out
  | t :: r =>
      match wr_token eph t st out with
      | WStop s => WStop s
      | WGo s o => wr_loop eph r s o
      end
  end.

Inductive wres :=
| WErr
| WOk (out : term) (keys : option (term * term)).

Definition max_msg_len : N := 65535.

Definition write_message (st : hstate) (eph : N) (payload : term) : hstate * wres :=
  if negb (hs_shouldWrite st) then (st, WErr)
  else match nth_error (hs_pat st) (N.to_nat (hs_msgIdx st)) with
       | None => (st, WErr)
       | Some toks =>
           if max_msg_len <? tlen (hs_dl st) payload then (st, WErr)
           else match wr_loop eph toks st Empty with
                | WStop s => (s, WErr)
                | WGo s out =>
                    let s1 := set_turn s false (hs_msgIdx s + 1) in
                    let (s2, c) := encrypt_and_hash s1 payload in
                    (s2, WOk (cat out c)
                             (if N.of_nat (length (hs_pat s2)) <=? hs_msgIdx s2 then Some (split s2) else None))
                end
       end.

(* ---- NewHandshakeState ------------------------------------------------------------------------- *)

(* InitializeSymmetric(name): h = ck = name block; then MixHash(prologue = nil).  IX has no pre-messages. *)
Definition init_hs (curve cipher spriv : N) (spub : term) (initiator : bool) (pat : list (list token)) : hstate :=
  mkHs curve cipher (Name curve cipher) (H (Name curve cipher) Empty) Empty 0 false spriv spub None None None
       initiator initiator 0 pat.

(* ---- what a later ReadMessage can observe ------------------------------------------------------ *)

(* the tokens of the message the state is waiting for *)
Definition next_tokens (st : hstate) : list token := nth (N.to_nat (hs_msgIdx st)) (hs_pat st) [].

(* the message starts with an `e` token: re is overwritten before anything reads it *)
Definition re_fresh (toks : list token) : bool := match toks with TE :: _ => true | _ => false end.

(* after the leading `e` tokens comes a DH token: k, n, hasK are overwritten (MixKey) before the `s` token or
   the payload decryption reads them *)
Fixpoint k_fresh (toks : list token) : bool :=
  match toks with
  | TE :: r => k_fresh r
  | TS :: _ => false
  | [] => false
  | _ :: _ => true
  end.

(* [canon st] forgets exactly the fields that the next ReadMessage overwrites before reading them: re when the
   awaited message starts with `e`, and additionally k, n, hasK when it mixes a DH result before using the key.
   A state that is about to write keeps everything.  For IX: nothing but re is forgotten while waiting for
   message 1; re, k, n, hasK are forgotten while waiting for message 2. *)
Definition canon (st : hstate) : hstate :=
  if hs_shouldWrite st then st
  else
    let toks := next_tokens st in
    if re_fresh toks then
      let st1 := set_re st None in
      if k_fresh toks then set_sym st1 (hs_ck st1) (hs_h st1) Empty 0 false else st1
    else st.

(* AllowList: executable model of /repo/allow_list.go (C38). Definitions only - no proofs.

   Addresses are (family, N) with N < 2^32 / 2^128; a prefix is (family, address, bits); the address of a
   prefix need not be masked (netip.ParsePrefix keeps host bits, bart.Insert masks them): [contains] and
   [same_net] compare the top [bits] bits only, so masking never has to be performed.

   bart.Table is MODELLED as an association list searched for the most specific containing entry
   ([lpm]); Insert is cons, and among entries for the same network the most recently inserted one (the
   one nearest the head) wins, which is bart's overwrite-on-Insert. *)
From Coq Require Import List NArith Bool.
Import ListNotations.
Open Scope N_scope.

(* ---- small prefix library ------------------------------------------------------------------- *)

Inductive fam := V4 | V6.

Definition fam_eqb (a b : fam) : bool :=
  match a, b with V4, V4 => true | V6, V6 => true | _, _ => false end.

Definition fbits (f : fam) : N := match f with V4 => 32 | V6 => 128 end.

Definition addr := (fam * N)%type.
Definition prefix := (fam * N * N)%type.          (* family, address, bits *)
Definition pfam (p : prefix) : fam := fst (fst p).
Definition paddr (p : prefix) : N := snd (fst p).
Definition pbits (p : prefix) : N := snd p.

(* the top [b] bits of an address of family [f] *)
Definition top (f : fam) (b a : N) : N := a / 2 ^ (fbits f - b).

Definition contains (p : prefix) (x : addr) : bool :=
  fam_eqb (pfam p) (fst x) && (top (pfam p) (pbits p) (paddr p) =? top (pfam p) (pbits p) (snd x)).

(* the same network after masking *)
Definition same_net (p q : prefix) : bool :=
  fam_eqb (pfam p) (pfam q) && (pbits p =? pbits q) &&
  (top (pfam p) (pbits p) (paddr p) =? top (pfam p) (pbits p) (paddr q)).

Definition wf_addr (x : addr) : bool := snd x <? 2 ^ fbits (fst x).
Definition wf_prefix (p : prefix) : bool :=
  (paddr p <? 2 ^ fbits (pfam p)) && (pbits p <=? fbits (pfam p)).

(* netip.Addr.Is4In6 / Unmap: ::ffff:a.b.c.d *)
Definition is_mapped (x : addr) : bool :=
  match fst x with V4 => false | V6 => snd x / 2 ^ 32 =? 65535 end.
Definition unmap (x : addr) : addr := if is_mapped x then (V4, snd x mod 2 ^ 32) else x.

(* bart.Table[V].Lookup: value of the most specific containing entry, with its length; head wins ties *)
Fixpoint lpm {V : Type} (t : list (prefix * V)) (x : addr) : option (N * V) :=
  match t with
  | [] => None
  | (p, v) :: r =>
      let rest := lpm r x in
      if contains p x then
        match rest with
        | Some (b, w) => if pbits p <? b then Some (b, w) else Some (pbits p, v)
        | None => Some (pbits p, v)
        end
      else rest
  end.

(* ---- newAllowList --------------------------------------------------------------------------- *)

(* A configured key as netip.ParsePrefix sees it: family, address, bits.  A key that ParsePrefix refuses is
   represented by bits > fbits (the only refusal a numeric key can express). *)
Definition key := prefix.
Definition table := list (prefix * bool).

(* parseAllowListCIDR *)
Definition norm_key (k : key) : option prefix :=
  if wf_prefix k then
    if is_mapped (pfam k, paddr k) then
      if pbits k <? 96 then None else Some (V4, paddr k mod 2 ^ 32, pbits k - 96)
    else Some k
  else None.

Record rules := mkRules { r_first : bool; r_match : bool; r_default : bool; r_all : bool }.
Definition rules0 : rules := mkRules true true false false.

Definition upd (r : rules) (bits : N) (v : bool) : rules :=
  let r1 := if r_first r then mkRules false (r_match r) (r_default r) v
            else mkRules false (if Bool.eqb v (r_all r) then r_match r else false) (r_default r) (r_all r) in
  if bits =? 0 then mkRules (r_first r1) (r_match r1) true (r_all r1) else r1.

(* the loop over the map, in the order the entries are visited; [t] is the tree (latest insert first) *)
Fixpoint build (es : list (key * bool)) (t : table) (r4 r6 : rules) : option (table * rules * rules) :=
  match es with
  | [] => Some (t, r4, r6)
  | (k, v) :: rest =>
      match norm_key k with
      | None => None
      | Some p =>
          match pfam p with
          | V4 => build rest ((p, v) :: t) (upd r4 (pbits p) v) r6
          | V6 => build rest ((p, v) :: t) r4 (upd r6 (pbits p) v)
          end
      end
  end.

Definition finish_fam (f : fam) (r : rules) (t : table) : option table :=
  if r_default r then Some t
  else if r_match r then Some (((f, 0, 0), negb (r_all r)) :: t)
  else None.

Definition new_allow_list (es : list (key * bool)) : option table :=
  match build es [] rules0 rules0 with
  | None => None
  | Some (t, r4, r6) =>
      match finish_fam V4 r4 t with
      | None => None
      | Some t1 => finish_fam V6 r6 t1
      end
  end.

(* values as config.AsBool sees them: None = not convertible to a bool -> the whole list is refused *)
Fixpoint all_vals {K : Type} (res : list (K * option bool)) : option (list (K * bool)) :=
  match res with
  | [] => Some []
  | (k, None) :: _ => None
  | (k, Some v) :: r => match all_vals r with None => None | Some l => Some ((k, v) :: l) end
  end.

Definition new_allow_list_raw (res : list (key * option bool)) : option table :=
  match all_vals res with None => None | Some es => new_allow_list es end.

(* AllowList.Allow *)
Definition allow (t : table) (x : addr) : bool :=
  match lpm t (unmap x) with Some (_, v) => v | None => false end.

(* a nil *AllowList allows *)
Definition allow_opt (t : option table) (x : addr) : bool :=
  match t with None => true | Some t => allow t x end.

(* ---- RemoteAllowList ------------------------------------------------------------------------ *)

Definition ranges := list (prefix * table).

(* getRemoteAllowRanges *)
Fixpoint build_ranges (rs : list (key * list (key * bool))) (acc : ranges) : option ranges :=
  match rs with
  | [] => Some acc
  | (k, es) :: rest =>
      match new_allow_list es with
      | None => None
      | Some t =>
          match norm_key k with
          | None => None
          | Some p => build_ranges rest ((p, t) :: acc)
          end
      end
  end.

Definition new_remote_ranges (rs : list (key * list (key * bool))) : option ranges := build_ranges rs [].

(* getInsideAllowList: nil table or no containing range -> nil list *)
Definition inside_of (rg : option ranges) (vpn : addr) : option table :=
  match rg with
  | None => None
  | Some r => match lpm r (unmap vpn) with Some (_, t) => Some t | None => None end
  end.

Definition remote_allow (g : option table) (rg : option ranges) (vpn udp : addr) : bool :=
  if negb (allow_opt (inside_of rg vpn) udp) then false else allow_opt g udp.

Fixpoint all_inside (rg : option ranges) (vpns : list addr) (udp : addr) : bool :=
  match vpns with
  | [] => true
  | v :: r => if negb (allow_opt (inside_of rg v) udp) then false else all_inside rg r udp
  end.

Definition allow_all (g : option table) (rg : option ranges) (vpns : list addr) (udp : addr) : bool :=
  if negb (allow_opt g udp) then false else all_inside rg vpns udp.

Definition allow_unknown (g : option table) (vpn : addr) : bool := allow_opt g vpn.

(* ---- interface name rules ------------------------------------------------------------------- *)

(* regexp compilation and matching are oracles: [valid p] = "^p$" compiles, [matches p n] = it matches n *)
Section Names.
  Context {P Nm : Type}.
  Variable valid : P -> bool.
  Variable matches : P -> Nm -> bool.

  (* getAllowListInterfaces: the rules in visiting order; refused on an invalid pattern or on a value
     different from the first *)
  Fixpoint build_names (rs : list (P * bool)) (first allv : bool) : option (list (P * bool)) :=
    match rs with
    | [] => Some []
    | (p, a) :: rest =>
        if valid p then
          if first then
            match build_names rest false a with None => None | Some l => Some ((p, a) :: l) end
          else if Bool.eqb a allv then
            match build_names rest false allv with None => None | Some l => Some ((p, a) :: l) end
          else None
        else None
    end.

  Definition new_name_rules (rs : list (P * bool)) : option (list (P * bool)) := build_names rs true false.

  Fixpoint first_match (rules : list (P * bool)) (nm : Nm) : option bool :=
    match rules with
    | [] => None
    | (p, a) :: r => if matches p nm then Some a else first_match r nm
    end.

  (* LocalAllowList.AllowName *)
  Definition allow_name (rules : list (P * bool)) (nm : Nm) : bool :=
    match rules with
    | [] => true
    | (_, a0) :: _ => match first_match rules nm with Some a => a | None => negb a0 end
    end.
End Names.

(* ---- specification vocabulary (executable, used by the theorems and by the correspondence) -------- *)

(* all keys through parseAllowListCIDR; None if one of them is refused *)
Fixpoint norm_all (es : list (key * bool)) : option (list (prefix * bool)) :=
  match es with
  | [] => Some []
  | (k, v) :: r =>
      match norm_key k with
      | None => None
      | Some p => match norm_all r with None => None | Some l => Some ((p, v) :: l) end
      end
  end.

(* the entries of one family *)
Definition fent (f : fam) (l : list (prefix * bool)) : list (prefix * bool) :=
  filter (fun e => fam_eqb (pfam (fst e)) f) l.
(* the family has an explicit /0 *)
Definition has_default (f : fam) (l : list (prefix * bool)) : bool :=
  existsb (fun e => pbits (fst e) =? 0) (fent f l).
(* all values of the family are the same *)
Definition uniform (f : fam) (l : list (prefix * bool)) : bool :=
  match fent f l with
  | [] => true
  | (_, v0) :: _ => forallb (fun e => Bool.eqb (snd e) v0) (fent f l)
  end.
(* the implied default: opposite of the family's value; a family without entries allows *)
Definition fam_default (l : list (prefix * bool)) (f : fam) : bool :=
  match fent f l with [] => true | (_, v0) :: _ => negb v0 end.

(* Model of /repo/pki.go (PKI.reload = reloadCerts + reloadCAPool, newCertStateFromConfig, newCertState) for
   property C42. Executable definitions only.

   Whether a (re)load is accepted is NOT written by hand: [plookup] / [ca_lookup] look the answer up in
   gen/Tab_PkiReload.v, which the harness regenerates on every run by driving the real NewPKIFromConfig /
   ReloadConfigString -> PKI.reload on every feasible feature combination (>= 3 concrete situations each).
   Hand-written here: what a certificate / the files / the state in use are in property-level terms, how the
   features are read off them ([features], [ca_features]), which state results from each outcome, the documented
   rule, and what "identity" means.

   Names: a network is a number (the harness numbers the prefixes), a key pair is a number (the public key it
   stands for), a curve is 0 (Curve25519) or 1 (P256), an authority and a peer certificate are numbers. *)
From Coq Require Import List NArith Bool.
Import ListNotations.
From NV Require Import lib.Corr lib.ConnMgr_lib lib.PkiReload_lib gen.Tab_PkiReload.
Open Scope N_scope.

(* ---- certificates, files, state ------------------------------------------------------------- *)

Record crt := mkCrt { k_nets : list N; k_curve : N; k_pub : N }.

(* the files a (re)load reads: pki.cert (at most one certificate per version), pki.key (its curve and the public
   key it pairs with), and whether something is wrong with them (0 = nothing; otherwise the kind of defect) *)
Record cand := mkCand { n_v1 : option crt; n_v2 : option crt; n_kcurve : N; n_kpub : N; n_lerr : N }.

(* CertState: the certificates in use and the private key (named by its public key) *)
Record cstate := mkSt { s_v1 : option crt; s_v2 : option crt; s_kpub : N }.

Definition has {A} (o : option A) : bool := match o with Some _ => true | None => false end.
Definition optN_eqb (a b : option N) : bool := option_eqb N.eqb a b.
Definition prim (c : crt) : option N := hd_error (k_nets c).
Definition nets_same (a b : crt) : bool := nlist_eqb (k_nets a) (k_nets b).
Definition pair_ok (a b : crt) : bool :=
  (k_pub a =? k_pub b) && (k_curve a =? k_curve b) && optN_eqb (prim a) (prim b).
(* a comparison between two certificates that may be absent: absent = nothing to compare *)
Definition both (f : crt -> crt -> bool) (x y : option crt) : bool :=
  match x, y with Some a, Some b => f a b | _, _ => true end.
Definition opt_all (P : crt -> bool) (x : option crt) : bool := match x with Some a => P a | None => true end.
Definition all_new (P : crt -> bool) (c : cand) : bool := opt_all P (n_v1 c) && opt_all P (n_v2 c).

(* the overlay networks of a node: "v2 certificates are a superset, only look at v1 if its all we have"
   (CertState.myVpnNetworks) *)
Definition eff (v1 v2 : option crt) : list N :=
  match v2 with Some c => k_nets c | None => match v1 with Some c => k_nets c | None => [] end end.
Definition st_nets (s : cstate) : list N := eff (s_v1 s) (s_v2 s).
Definition st_prim (s : cstate) : option N := hd_error (st_nets s).
Definition st_curve (s : cstate) : N :=
  match s_v2 s with Some c => k_curve c | None => match s_v1 s with Some c => k_curve c | None => 0 end end.

Definition state_of (c : cand) : cstate := mkSt (n_v1 c) (n_v2 c) (n_kpub c).

(* ---- the features of one (re)load ------------------------------------------------------------- *)

Definition cross (o1 o2 n1 n2 : option crt) : bool :=
  match o2, n2 with
  | None, Some b => match n1 with None => both nets_same o1 (Some b) | Some _ => true end  (* v1-only -> v2-only *)
  | Some a, None => both nets_same (Some a) n1                                              (* v2 dropped *)
  | _, _ => true
  end.

Definition features (old : option cstate) (c : cand) : prow :=
  let o1 := match old with Some s => s_v1 s | None => None end in
  let o2 := match old with Some s => s_v2 s | None => None end in
  mkP (has o1) (has o2) (has (n_v1 c)) (has (n_v2 c))
      (negb (n_lerr c =? 0) || (negb (has (n_v1 c)) && negb (has (n_v2 c))))
      (all_new (fun k => (k_curve k =? n_kcurve c) && (k_pub k =? n_kpub c)) c)
      (both pair_ok (n_v1 c) (n_v2 c))
      (both nets_same o1 (n_v1 c))
      (both nets_same o2 (n_v2 c))
      (cross o1 o2 (n_v1 c) (n_v2 c))
      (match old with None => true | Some s => all_new (fun k => k_curve k =? st_curve s) c end).

(* the feature combinations that can occur: comparisons that do not apply are "equal"; no certificate at all is a
   load error; and when both versions are kept with unchanged networks and the key pairs with both, the new pair
   agrees because the old pair did *)
Definition pfeasible (r : prow) : bool :=
  let initial := negb (f_o1 r) && negb (f_o2 r) in
  let nocert := negb (f_n1 r) && negb (f_n2 r) in
  implb nocert (f_lerr r && f_kmatch r) &&
  implb (negb (f_n1 r && f_n2 r)) (f_npair r) &&
  implb (negb (f_o1 r && f_n1 r)) (f_v1eq r) &&
  implb (negb (f_o2 r && f_n2 r)) (f_v2eq r) &&
  implb (negb ((f_o1 r && negb (f_o2 r) && negb (f_n1 r) && f_n2 r) || (f_o2 r && f_n1 r && negb (f_n2 r)))) (f_xeq r) &&
  implb (initial || nocert) (f_ceq r) &&
  implb (f_o1 r && f_o2 r && f_n1 r && f_n2 r && f_v1eq r && f_v2eq r && f_kmatch r) (f_npair r).

(* the documented rule: the new files are taken into use iff they load, the key pairs with every certificate, v1 and
   v2 agree with each other, and networks and curve are those of the certificates in use *)
Definition rule (r : prow) : bool :=
  negb (f_lerr r) && f_kmatch r && f_npair r && f_v1eq r && f_v2eq r && f_xeq r && f_ceq r.

(* ---- the generated table as a function ---------------------------------------------------------- *)

Definition plookup (r : prow) : option pout := passoc prow_eqb r tab_reload.

(* the initial load: None = outside the table; Some None = start-up refused *)
Definition start_certs (c : cand) : option (option cstate) :=
  match plookup (features None c) with
  | Some PKeep => Some None
  | Some PNew => Some (Some (state_of c))
  | _ => None
  end.

Definition reload_certs (s : cstate) (c : cand) : option cstate :=
  match plookup (features (Some s) c) with
  | Some PKeep => Some s
  | Some PNew => Some (state_of c)
  | _ => None
  end.

Definition accepted (s : cstate) (c : cand) : bool :=
  match plookup (features (Some s) c) with Some PNew => true | _ => false end.

(* ---- the trust store ------------------------------------------------------------------------------ *)

(* CAPool: the authorities (with "has expired") and the blocklisted peer-certificate fingerprints *)
Record pool := mkPool { p_cas : list (N * bool); p_block : list N }.

(* pki.ca + pki.blocklist: kind 0 = a readable bundle holding [ca_cas]; otherwise unreadable (missing file,
   malformed PEM, empty setting, a non-CA certificate in it, trailing garbage) *)
Record cacand := mkCa { ca_kind : N; ca_cas : list (N * bool); ca_block : list N }.

Definition ca_features (c : cacand) : carow :=
  if ca_kind c =? 0
  then mkCaRow false (existsb (fun x => negb (snd x)) (ca_cas c)) (existsb (fun x => snd x) (ca_cas c))
  else mkCaRow true false false.

Definition ca_feasible (r : carow) : bool :=
  if a_unread r then negb (a_valid r) && negb (a_expired r) else true.

(* documented: an unreadable bundle, or one whose authorities have all expired, keeps the previous trust store.
   (A readable file without any certificate in it is taken as it is: an empty trust store.) *)
Definition ca_rule (r : carow) : bool := negb (a_unread r) && (a_valid r || negb (a_expired r)).

Definition ca_lookup (r : carow) : option pout := passoc carow_eqb r tab_ca.

Definition pool_of (c : cacand) : pool := mkPool (ca_cas c) (ca_block c).

Definition reload_ca (q : pool) (c : cacand) : option pool :=
  match ca_lookup (ca_features c) with
  | Some PKeep => Some q
  | Some PNew => Some (pool_of c)
  | _ => None
  end.

Definition start_ca (c : cacand) : option (option pool) :=
  match ca_lookup (ca_features c) with
  | Some PKeep => Some None
  | Some PNew => Some (Some (pool_of c))
  | _ => None
  end.

(* CAPool.VerifyCachedCertificate on a peer certificate (issuer, fingerprint) that was valid when the tunnel came
   up, as the connection manager's check classifies it (the r_cert feature of the C30 table) *)
Definition nmem (x : N) (l : list N) : bool := existsb (N.eqb x) l.
Definition trusted (q : pool) (issuer : N) : bool :=
  existsb (fun x => (fst x =? issuer) && negb (snd x)) (p_cas q).
Definition peer_status (q : pool) (peer : N * N) : certst :=
  if nmem (snd peer) (p_block q) then CBlock
  else if trusted q (fst peer) then COk else CInvalid.

(* ---- the PKI and histories of reloads ------------------------------------------------------------ *)

Record pki := mkPki { cs : cstate; ca : pool }.

(* PKI.reload: the certificate part and the trust-store part succeed or fail independently *)
Definition step (p : pki) (e : cand * cacand) : option pki :=
  match reload_certs (cs p) (fst e), reload_ca (ca p) (snd e) with
  | Some s, Some q => Some (mkPki s q)
  | _, _ => None
  end.

(* NewPKIFromConfig: both parts must load. None = outside the tables; Some None = start-up refused *)
Definition start (e : cand * cacand) : option (option pki) :=
  match start_certs (fst e), start_ca (snd e) with
  | Some (Some s), Some (Some q) => Some (Some (mkPki s q))
  | Some _, Some _ => Some None
  | _, _ => None
  end.

Fixpoint run (p : pki) (evs : list (cand * cacand)) : option pki :=
  match evs with
  | [] => Some p
  | e :: r => match step p e with Some p' => run p' r | None => None end
  end.

(* ---- identity --------------------------------------------------------------------------------------- *)

(* the certificates in use agree with each other and with the key: one key pair, one curve, one primary network *)
Definition inv_b (s : cstate) : bool :=
  (has (s_v1 s) || has (s_v2 s)) &&
  both pair_ok (s_v1 s) (s_v2 s) &&
  opt_all (fun k => k_pub k =? s_kpub s) (s_v1 s) && opt_all (fun k => k_pub k =? s_kpub s) (s_v2 s).

(* what an accepted reload may do to the node's identity, judged on the state before (certificates [s], overlay
   networks [e]) and after ([s'], [e']): curve and primary network unchanged; the overlay networks unchanged, except
   that a v2 certificate may be ADDED next to a v1 certificate that keeps exactly the old networks (the upstream
   migration route); a v2 certificate is dropped only if a v1 certificate with its networks and curve stays *)
Definition added_v2 (s s' : cstate) : bool :=
  negb (has (s_v2 s)) && has (s_v1 s') && has (s_v2 s') && has (s_v1 s) && both nets_same (s_v1 s) (s_v1 s').
Definition v2_drop_ok (s s' : cstate) : bool :=
  match s_v2 s, s_v2 s' with
  | Some b, None => match s_v1 s' with Some a => nets_same b a && (k_curve a =? k_curve b) | None => false end
  | _, _ => true
  end.
Definition id_step_b (s : cstate) (e : list N) (s' : cstate) (e' : list N) : bool :=
  (st_curve s' =? st_curve s) && optN_eqb (hd_error e') (hd_error e) &&
  (nlist_eqb e' e || added_v2 s s') && v2_drop_ok s s'.

Definition crt_eqb (a b : crt) : bool := nets_same a b && (k_curve a =? k_curve b) && (k_pub a =? k_pub b).
Definition cstate_eqb (a b : cstate) : bool :=
  option_eqb crt_eqb (s_v1 a) (s_v1 b) && option_eqb crt_eqb (s_v2 a) (s_v2 b) && (s_kpub a =? s_kpub b).
Definition nb_eqb (a b : N * bool) : bool := (fst a =? fst b) && Bool.eqb (snd a) (snd b).
Definition pool_eqb (a b : pool) : bool := list_eqb nb_eqb (p_cas a) (p_cas b) && nlist_eqb (p_block a) (p_block b).

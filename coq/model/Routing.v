(* Model of /repo/routing (balance.go, gateway.go): the flow hash, the hash-threshold bucket computation
   and the gateway choice.  Executable definitions only.

   Conventions: a weight is the bit pattern of a non-negative Go int (N); bucket bounds are Go ints (Z, they
   can be -1); a gateway address is an opaque identifier (N).  Every fixed-width operation of the code is
   written through w32 / w64 (lib/Bytes.v) or the explicit 128-bit helpers below (math/bits). *)
From Coq Require Import List NArith ZArith Bool.
Import ListNotations.
From NV Require Import lib.Bytes.
Open Scope N_scope.

Definition two31 : N := 2147483648.
Definition two63 : N := 9223372036854775808.
Definition two64 : N := 18446744073709551616.

(* ---- balance.go: hashPacket -------------------------------------------------------------------- *)

(* x := uint32(LocalPort)<<16 | uint32(RemotePort); x ^= x>>16; x *= 0x21f0aaad; x ^= x>>15;
   x *= 0xd35a2d97; x ^= x>>15; return int(x) & 0x7FFFFFFF.   Ports are uint16. *)
Definition hash_packet (lport rport : N) : N :=
  let x := N.lor (w32 (N.shiftl (w16 lport) 16)) (w16 rport) in
  let x := N.lxor x (N.shiftr x 16) in
  let x := w32 (x * 569420461) in          (* 0x21f0aaad *)
  let x := N.lxor x (N.shiftr x 15) in
  let x := w32 (x * 3545902487) in         (* 0xd35a2d97 *)
  let x := N.lxor x (N.shiftr x 15) in
  N.land x 2147483647.                     (* 0x7FFFFFFF *)

(* firewall.Packet: every field, so that "depends on the ports only" is a statement about the model. *)
Record packet := mkPacket {
  p_laddr : N; p_raddr : N; p_lport : N; p_rport : N; p_proto : N; p_frag : bool }.

(* ---- math/bits ------------------------------------------------------------------------------- *)

Definition mul64 (x y : N) : N * N := let p := x * y in (p / two64, p mod two64).          (* hi, lo *)
Definition add64 (x y c : N) : N * N := let s := x + y + c in (s mod two64, s / two64).    (* sum, carry *)
(* bits.Div64 panics when d = 0 or d <= hi; None = panic.  Only the quotient is used. *)
Definition div64 (hi lo d : N) : option N :=
  if d =? 0 then None else if d <=? hi then None else Some ((hi * two64 + lo) / d).

(* ---- gateway.go ------------------------------------------------------------------------------ *)

(* hi, lo := bits.Mul64(w, 1<<31); lo, carry := bits.Add64(lo, d/2, 0); q, _ := bits.Div64(hi+carry, lo, d) *)
Definition scale_divide_and_round (w d : N) : option N :=
  let '(hi, lo) := mul64 w two31 in
  let '(lo', carry) := add64 lo (d / 2) 0 in
  div64 (w64 (hi + carry)) lo' d.

(* int(x) of a uint64 bit pattern, and int(q) - 1 with the wrap of Go's int subtraction *)
Definition int_of_u64 (x : N) : Z := if x <? two63 then Z.of_N x else (Z.of_N x - Z.of_N two64)%Z.
Definition int_pred_of_u64 (q : N) : Z := int_of_u64 (w64 (q + (two64 - 1))).

(* totalWeight += weight (Go int addition = addition of bit patterns modulo 2^64) *)
Fixpoint sum_w64 (acc : N) (ws : list N) : N :=
  match ws with [] => acc | w :: r => sum_w64 (w64 (acc + w)) r end.

(* second loop of CalculateBucketsForGateways; None = the call panicked *)
Fixpoint bounds_loop (total loop : N) (ws : list N) : option (list Z) :=
  match ws with
  | [] => Some []
  | w :: r =>
      let loop' := w64 (loop + w) in
      match scale_divide_and_round loop' total with
      | None => None
      | Some q => option_map (cons (int_pred_of_u64 q)) (bounds_loop total loop' r)
      end
  end.

Definition calc_buckets (ws : list N) : option (list Z) := bounds_loop (sum_w64 0 ws) 0 ws.

(* a gateway list as BalancePacket sees it: (address, bucketUpperBound) *)
Definition gateways := list (N * Z).

(* NewGateway for every (address, weight), then CalculateBucketsForGateways *)
Definition calculate (gs : list (N * N)) : option gateways :=
  option_map (combine (map fst gs)) (calc_buckets (map snd gs)).

(* NewGateway only: bucketUpperBound = BucketNotCalculated *)
Definition uncalculated (gs : list (N * N)) : gateways := map (fun g => (fst g, (-1)%Z)) gs.

(* ---- balance.go: BalancePacket --------------------------------------------------------------- *)

Fixpoint first_le (h : Z) (gws : gateways) : option N :=
  match gws with
  | [] => None
  | (a, b) :: r => if (h <=? b)%Z then Some a else first_le h r
  end.

(* None = panic (hash % 0 on an empty list) *)
Definition balance (lport rport : N) (gws : gateways) : option (N * bool) :=
  let h := hash_packet lport rport in
  match first_le (Z.of_N h) gws with
  | Some a => Some (a, true)
  | None =>
      match gws with
      | [] => None                            (* hash % 0 *)
      | _ :: _ =>
          match nth_error gws (N.to_nat (h mod N.of_nat (length gws))) with
          | Some (a, _) => Some (a, false)
          | None => None
          end
      end
  end.

Definition balance_packet (p : packet) (gws : gateways) : option (N * bool) :=
  balance (p_lport p) (p_rport p) gws.

(* ---- the property, executable ---------------------------------------------------------------- *)

(* widths of the shares: bucket i is the hash interval (bound_{i-1}, bound_i], bound_0 = prev *)
Fixpoint widths (prev : Z) (bs : list Z) : list Z :=
  match bs with [] => [] | b :: r => (b - prev)%Z :: widths b r end.

(* the gateways whose bucket contains hash h *)
Fixpoint owners (h prev : Z) (gws : gateways) : list N :=
  match gws with
  | [] => []
  | (a, b) :: r => (if (prev <? h)%Z && (h <=? b)%Z then [a] else []) ++ owners h b r
  end.

Definition sumN (ws : list N) : N := fold_right N.add 0 ws.

Definition weight_ok (w : N) : bool := (1 <=? w) && (w <=? 2147483647).

(* one share: never negative, non-empty whenever the exact share is at least one hash value, and
   within less than one hash value of weight * 2^31 / total *)
Definition share_ok (total w : N) (wd : Z) : bool :=
  ((0 <=? wd)%Z
   && (Z.abs (wd * Z.of_N total - Z.of_N (w * two31)) <? Z.of_N total)%Z
   && (if total <=? w * two31 then (1 <=? wd)%Z else true)).

Fixpoint shares_ok (total : N) (ws : list N) (wds : list Z) : bool :=
  match ws, wds with
  | [], [] => true
  | w :: r, wd :: rd => share_ok total w wd && shares_ok total r rd
  | _, _ => false
  end.

Fixpoint last_is (x : Z) (l : list Z) : bool :=
  match l with [] => false | [y] => (x =? y)%Z | _ :: r => last_is x r end.

(* monotone + proportional + cover, evaluated on given bounds *)
Definition bounds_ok (ws : list N) (bs : list Z) : bool :=
  shares_ok (sumN ws) ws (widths (-1) bs) && last_is 2147483647%Z bs.

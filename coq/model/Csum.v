(* Csum: models of /repo/overlay/checksum (property C25).  Executable definitions only.

   rfc1071 buf init      the reference: RFC 1071 one's-complement sum of buf (big-endian 16-bit words, odd tail
                         byte padded with a zero low byte) seeded with init, folded with end-around carry to the
                         canonical 16-bit representative (0 only for an all-zero sum; otherwise 1..0xffff) and NOT
                         complemented - that is the contract of checksum.Checksum / gvisor's checksum.Checksum.
   asm_csum buf init     instruction-level arithmetic model of checksumAVX2 (checksum_amd64.s).
   gvisor_csum a buf init  model of gvisor.dev/gvisor/pkg/tcpip/checksum.Checksum (the fallback of the dispatcher)
                         for a buffer whose first byte lives at an address congruent to a modulo 8.

   What is mirrored from checksum_amd64.s: the control flow (len < 32 -> scalar only; loop64 trip count len/64;
   loop32 trip count rest/32; loop8 trip count rest/8; the 4/2/1-byte tails), the byte-swapped seed, the
   little-endian u32 loads zero-extended into sixteen 64-bit lanes (VPMOVZXDQ) with wrapping lane-wise VPADDQ, the
   horizontal reduction tree, every ADDQ/ADCQ pair with its 64-bit wrap, the four fold stages with their
   truncations (MOVL / MOVWQZX / final MOVW) and the two XCHGB AH,AL byte swaps.
   What is abstracted (modelled, not verified): registers are numbers, memory is the byte list (loads are
   alignment-independent, as VPMOVZXDQ/MOVQ/MOVL loads are on x86), flags are reduced to the carry consumed by
   ADCQ, the Go ABI (argument/return slots) is the function signature. *)
From Coq Require Import List Arith NArith Bool.
Import ListNotations.
From NV Require Import lib.Bytes lib.Ones.
Open Scope N_scope.

(* ---------------------------------------------------------------------------------------------- *)
(** * reference *)

Definition rfc1071 (buf : list N) (init : N) : N := fold16 (init + sum16 buf).

(* RFC 1071 section 1, literally: 16-bit one's-complement addition (add, then add the carry out of bit 15 back
   in), word by word. This is the executable specification the correspondence evaluates on the implementation's
   outputs; proofs/Csum_proofs.v shows it equals rfc1071. *)
Definition ocadd (a w : N) : N := let s := a + w in if s <? 65536 then s else s - 65535.

Fixpoint textbook_from (acc : N) (l : list N) : N :=
  match l with
  | [] => acc
  | [a] => ocadd acc (a * 256)                      (* odd tail: pad with a zero byte on the right *)
  | a :: b :: r => textbook_from (ocadd acc (a * 256 + b)) r
  end.

Definition textbook (buf : list N) (init : N) : N := textbook_from init buf.

(* ---------------------------------------------------------------------------------------------- *)
(** * common machine-level pieces *)

Definition M64 : N := 18446744073709551616.

(* little-endian load of the bytes of l as one unsigned number (MOVQ/MOVL/MOVWQZX/MOVBQZX from memory) *)
Fixpoint le_val (l : list N) : N :=
  match l with
  | [] => 0
  | b :: r => b + 256 * le_val r
  end.

(* the first cnt consecutive k-byte blocks of l: a loop that consumes k bytes per trip, cnt trips *)
Fixpoint blocks (k cnt : nat) (l : list N) : list (list N) :=
  match cnt with
  | O => []
  | S c => firstn k l :: blocks k c (skipn k l)
  end.

(* truncation to a 64-bit register and the carry out of it, in bitwise form (they evaluate much faster than
   mod / div by 2^64; proofs/Csum_proofs.v: wrap64 x = w64 x, carry64 s = s / 2^64) *)
Definition wrap64 (x : N) : N := N.land x 18446744073709551615.
Definition carry64 (s : N) : N := N.shiftr s 64.

(* ADDQ src, AX ; ADCQ $0, AX   (64-bit add, then add the carry flag back in) *)
Definition addq_adcq (ax src : N) : N :=
  let s := ax + src in w64 (w64 s + s / M64).

(* ---------------------------------------------------------------------------------------------- *)
(** * checksumAVX2 *)

(* VPMOVZXDQ m128 -> ymm, four times per 64 bytes (twice per 32): the little-endian u32 words of the block,
   zero-extended, word j of the block landing in lane j of the accumulator file Y4[0..3] Y5[0..3] Y6[0..3] Y7[0..3] *)
Definition words32 (blk : list N) : list N := map le_val (blocks 4 (length blk / 4)%nat blk).

(* VPADDQ: lane-wise 64-bit add that wraps; a 32-byte trip supplies only 8 words, touching Y4 and Y5 *)
Fixpoint vpaddq (acc ws : list N) : list N :=
  match acc, ws with
  | a :: acc', w :: ws' => wrap64 (a + w) :: vpaddq acc' ws'
  | _, [] => acc
  | [], _ :: _ => []
  end.

Definition zero_lanes : list N := repeat 0 16.

Definition vec_step (lanes blk : list N) : list N := vpaddq lanes (words32 blk).

(* reduce_vec:  Y4+=Y5; Y6+=Y7; Y4+=Y6; X4 = lo128(Y4)+hi128(Y4); X4 += swap64(X4); R8 = X4[0] *)
Definition hreduce (lanes : list N) : N :=
  let y4 := firstn 4 lanes in
  let y5 := firstn 4 (skipn 4 lanes) in
  let y6 := firstn 4 (skipn 8 lanes) in
  let y7 := firstn 4 (skipn 12 lanes) in
  let y4 := vpaddq y4 y5 in
  let y6 := vpaddq y6 y7 in
  let y4 := vpaddq y4 y6 in
  let x4 := vpaddq (firstn 2 y4) (skipn 2 y4) in
  let x4 := vpaddq x4 (rev x4) in
  hd 0 x4.

(* scalar_tail .. tail1: returns AX as it stands at label fold *)
Definition scalar_tail (rest : list N) (ax : N) : N :=
  let n8 := (length rest / 8)%nat in
  let ax := fold_left (fun a blk => addq_adcq a (le_val blk)) (blocks 8 n8 rest) ax in
  let rest := skipn (8 * n8) rest in
  let '(ax, rest) :=
    if (4 <=? length rest)%nat then (addq_adcq ax (le_val (firstn 4 rest)), skipn 4 rest) else (ax, rest) in
  let '(ax, rest) :=
    if (2 <=? length rest)%nat then (addq_adcq ax (le_val (firstn 2 rest)), skipn 2 rest) else (ax, rest) in
  if (length rest =? 0)%nat then ax else addq_adcq ax (le_val (firstn 1 rest)).

(* fold: 64 -> 33 -> 32 -> 17 -> 16 bits; every ADDQ is a wrapping 64-bit add *)
Definition asm_fold (ax : N) : N :=
  let ax := w64 (w32 ax + ax / 4294967296) in          (* MOVQ AX,R8; SHRQ $32,R8; MOVL AX,AX; ADDQ R8,AX *)
  let ax := w32 (w64 (ax + ax / 4294967296)) in        (* MOVQ AX,R8; SHRQ $32,R8; ADDQ R8,AX; MOVL AX,AX *)
  let ax := w64 (w16 ax + ax / 65536) in               (* MOVQ AX,R8; SHRQ $16,R8; MOVWQZX AX,AX; ADDQ R8,AX *)
  let ax := w64 (ax + ax / 65536) in                   (* MOVQ AX,R8; SHRQ $16,R8; ADDQ R8,AX *)
  swap16 (w16 ax).                                     (* XCHGB AH,AL; MOVW AX, ret *)

Definition asm_csum (buf : list N) (init : N) : N :=
  let n := length buf in
  let ax := swap16 (w16 init) in                       (* MOVWQZX initial, AX; XCHGB AH,AL *)
  if (n <? 32)%nat then asm_fold (scalar_tail buf ax)
  else
    let n64 := (n / 64)%nat in
    let lanes := fold_left vec_step (blocks 64 n64 buf) zero_lanes in
    let rest := skipn (64 * n64) buf in
    let n32 := (length rest / 32)%nat in
    let lanes := fold_left vec_step (blocks 32 n32 rest) lanes in
    let rest := skipn (32 * n32) rest in
    let r8 := hreduce lanes in
    let ax := addq_adcq ax r8 in
    asm_fold (scalar_tail rest ax).

(* ---------------------------------------------------------------------------------------------- *)
(** * gvisor checksum.Checksum(buf, initial) = calculateChecksum(buf, false, initial), on a little-endian machine.
      [addr] is the address of buf[0] modulo 8 (only that much of the address influences the algorithm). *)

(* bits.Add64(x, y, carry) -> (sum, carryOut) *)
Definition add64c (x y c : N) : N * N := let s := x + y + c in (wrap64 s, carry64 s).

(* one group of consecutive 8-byte loads chained through the carry, closed by Add64(acc, 0, carry) *)
Definition add_chain (acc : N) (ws : list N) : N :=
  let '(acc, c) := fold_left (fun st w => add64c (fst st) w (snd st)) ws (acc, 0) in
  fst (add64c acc 0 c).

Definition words64 (blk : list N) : list N := map le_val (blocks 8 (length blk / 8)%nat blk).

Definition bswap32 (x : N) : N := le_val (be_enc 4 x).

(* reduce(acc uint64) uint16 *)
Definition gv_reduce (acc : N) : N :=
  let acc := w64 (acc / 4294967296 + w32 acc) in
  let acc32 := w32 (acc / 4294967296 + acc) in
  let acc32 := w32 (acc32 / 65536 + w16 acc32) in
  w16 (acc32 / 65536 + acc32).

Definition gv_take (cond : bool) (k : nat) (st : N * list N) (f : N -> list N -> N) : N * list N :=
  if cond then (f (fst st) (firstn k (snd st)), skipn k (snd st)) else st.

(* len(buf) < 8: plain big-endian adds into the uint64 accumulator *)
Definition gv_small (acc : N) (buf : list N) : N :=
  let st := (acc, buf) in
  let st := if (4 <=? length (snd st))%nat
            then (w64 (w64 (fst st + sum16 (firstn 2 (snd st))) + sum16 (firstn 2 (skipn 2 (snd st)))), skipn 4 (snd st))
            else st in
  let st := gv_take (2 <=? length (snd st))%nat 2 st (fun a p => w64 (a + sum16 p)) in
  let st := gv_take (1 <=? length (snd st))%nat 1 st (fun a p => w64 (a + sum16 p)) in
  gv_reduce (fst st).

(* from `if sliceAddr(buf)&2 != 0` to the last tail; [addr] is the address of the first byte of (snd st) *)
Definition gv_main (addr : N) (st : N * list N) : N :=
  let a2 := N.testbit addr 1 in
  let st := gv_take a2 2 st (fun a p => w64 (a + le_val p)) in            (* acc += the uint16 loaded from p *)
  let addr := if a2 then addr + 2 else addr in
  let a4 := N.testbit addr 2 in
  let st := gv_take a4 4 st (fun a p => w64 (a + le_val p)) in            (* acc += the uint32 loaded from p *)
  (* 64 bytes per trip, then 32/16/8/4/2/1; every group closes with Add64(acc, 0, carry) *)
  let n64 := (length (snd st) / 64)%nat in
  let acc := fold_left (fun a blk => add_chain a (words64 blk)) (blocks 64 n64 (snd st)) (fst st) in
  let st := (acc, skipn (64 * n64) (snd st)) in
  let st := gv_take (32 <=? length (snd st))%nat 32 st (fun a p => add_chain a (words64 p)) in
  let st := gv_take (16 <=? length (snd st))%nat 16 st (fun a p => add_chain a (words64 p)) in
  let st := gv_take (8 <=? length (snd st))%nat 8 st (fun a p => add_chain a (words64 p)) in
  let st := gv_take (4 <=? length (snd st))%nat 4 st (fun a p => add_chain a [le_val p]) in
  let st := gv_take (2 <=? length (snd st))%nat 2 st (fun a p => add_chain a [le_val p]) in
  let st := gv_take (1 <=? length (snd st))%nat 1 st (fun a p => add_chain a [le_val p]) in
  fst st.

Definition gvisor_csum (addr : N) (buf : list N) (init : N) : N :=
  let acc := w16 init in
  if (length buf <? 8)%nat then gv_small acc buf
  else
    (* acc = uint64(bswapIfLittleEndian32(uint32(acc))): sum in little-endian space, swap back at the end *)
    let acc := bswap32 (w32 acc) in
    if N.odd addr then
      (* odd start address: undo the swap, add buf[0] as a high byte, and swap the result once more at the end *)
      let acc := w64 (bswap32 (w32 acc) + swap16 (hd 0 buf)) in
      swap16 (swap16 (gv_reduce (gv_main (addr + 1) (acc, skipn 1 buf))))
    else
      swap16 (gv_reduce (gv_main addr (acc, buf))).

(* ---------------------------------------------------------------------------------------------- *)
(** * checksum.Checksum (checksum_amd64.go): `if hasAVX2 { return checksumAVX2(..) }; return gvisor Checksum(..)` *)
Definition checksum_go (has_avx2 : bool) (addr : N) (buf : list N) (init : N) : N :=
  if has_avx2 then asm_csum buf init else gvisor_csum addr buf init.

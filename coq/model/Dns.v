(* Dns: executable model of the lighthouse DNS responder (dns_server.go) and of the part of the hostmap it reads
   (hostmap.go unlockedAddHostInfo -> dnsServer.Add; HostMap.Hosts for certificate lookups).  Definitions only.

   Names are byte strings (list N); lower-casing is ASCII (strings.ToLower on ASCII names; names are ASCII here).
   Addresses are lib/Ip.v [addr] = (is4, value).  Certificates are identified by a number (the harness gives every
   certificate it creates an id); a TXT answer carries the JSON of exactly one certificate. *)
From Coq Require Import List NArith Bool.
Import ListNotations.
From NV Require Import lib.Ip lib.Corr.
Open Scope N_scope.

Definition name := list N.
Definition name_eqb : name -> name -> bool := nlist_eqb.

Definition lower_byte (b : N) : N := if (65 <=? b) && (b <=? 90) then b + 32 else b.
Definition lower (n : name) : name := map lower_byte n.
Definition dot : N := 46.

(* record types the responder distinguishes (miekg/dns numbering) *)
Definition ty_A : N := 1.
Definition ty_TXT : N := 16.
Definition ty_AAAA : N := 28.

Fixpoint adel {K V} (eqb : K -> K -> bool) (k : K) (m : list (K * V)) : list (K * V) :=
  match m with
  | [] => []
  | (k', v) :: r => if eqb k k' then adel eqb k r else (k', v) :: adel eqb k r
  end.

Record dstate := mkDs {
  d_on : bool;                      (* enabled = lighthouse.serve_dns && lighthouse.am_lighthouse *)
  d_m4 : list (name * N);           (* dnsMap4 *)
  d_m6 : list (name * N);           (* dnsMap6 *)
  d_self : name;                    (* selfHost, [] when unset *)
  d_hosts : list (addr * N);        (* HostMap.Hosts: overlay address -> certificate id of the primary tunnel *)
  d_my : N * name * list addr       (* my current certificate: id, name, overlay addresses *)
}.

Definition my_id (s : dstate) : N := fst (fst (d_my s)).
Definition my_name (s : dstate) : name := snd (fst (d_my s)).
Definition my_addrs (s : dstate) : list addr := snd (d_my s).

Definition first4 (l : list addr) : option N := option_map snd (find (fun a : addr => fst a) l).
Definition first6 (l : list addr) : option N := option_map snd (find (fun a : addr => negb (fst a)) l).

(* the loop shared by Add and seedSelf: the first IPv4 and the first IPv6 address become the records of [host] *)
Definition put_records (host : name) (addrs : list addr) (s : dstate) : dstate :=
  mkDs (d_on s)
       (match first4 addrs with Some a => aset name_eqb host a (d_m4 s) | None => d_m4 s end)
       (match first6 addrs with Some a => aset name_eqb host a (d_m6 s) | None => d_m6 s end)
       (d_self s) (d_hosts s) (d_my s).

(* dnsServer.Add(host, addresses) *)
Definition dns_add (host : name) (addrs : list addr) (s : dstate) : dstate :=
  if d_on s then put_records (lower host) addrs s else s.

(* seedSelf *)
Definition seed_self (s : dstate) : dstate :=
  if d_on s then
    let nh := lower (my_name s) ++ [dot] in
    let drop_old (m : list (name * N)) :=
      match d_self s with
      | [] => m
      | old => if name_eqb old nh then m else adel name_eqb old m
      end in
    put_records nh (my_addrs s)
      (mkDs (d_on s) (adel name_eqb nh (drop_old (d_m4 s))) (adel name_eqb nh (drop_old (d_m6 s))) nh (d_hosts s) (d_my s))
  else s.

Inductive dop :=
| DAdd (id : N) (cname : name) (addrs : list addr)    (* a handshake completed: unlockedAddHostInfo *)
| DReload (on : bool)                                 (* config reload with serve_dns && am_lighthouse = on *)
| DCert (id : N) (cname : name) (addrs : list addr).  (* my certificate was replaced *)

Definition dstep (s : dstate) (o : dop) : dstate :=
  match o with
  | DAdd id cname addrs =>
      let s1 := dns_add (cname ++ [dot]) addrs s in
      mkDs (d_on s1) (d_m4 s1) (d_m6 s1) (d_self s1)
           (fold_left (fun h a => aset addr_eqb a id h) addrs (d_hosts s1)) (d_my s1)
  | DReload on =>
      if on then seed_self (mkDs true (d_m4 s) (d_m6 s) (d_self s) (d_hosts s) (d_my s))
      else mkDs false [] [] [] (d_hosts s) (d_my s)
  | DCert id cname addrs => mkDs (d_on s) (d_m4 s) (d_m6 s) (d_self s) (d_hosts s) (id, cname, addrs)
  end.

(* newDnsServerFromConfig: reload(initial) then seedSelf *)
Definition dinit (on : bool) (id : N) (cname : name) (addrs : list addr) : dstate :=
  seed_self (mkDs on [] [] [] [] (id, cname, addrs)).

Definition drun (s : dstate) (h : list dop) : dstate := fold_left dstep h s.

(* ---- queries ------------------------------------------------------------------------------------------------ *)

(* dnsServer.Query: the address for (type, name) and whether the name exists at all *)
Definition name_exists (s : dstate) (n : name) : bool :=
  match aget name_eqb (lower n) (d_m4 s), aget name_eqb (lower n) (d_m6 s) with None, None => false | _, _ => true end.

Definition query (s : dstate) (qt : N) (n : name) : option N :=
  if qt =? ty_A then aget name_eqb (lower n) (d_m4 s)
  else if qt =? ty_AAAA then aget name_eqb (lower n) (d_m6 s)
  else None.

(* a question: type, name, and the address QueryCert parses out of the name (name minus its last byte), if any *)
Definition question := (N * name * option addr)%type.
Definition q_type (q : question) : N := fst (fst q).
Definition q_name (q : question) : name := snd (fst q).
Definition q_ip (q : question) : option addr := snd q.

(* QueryCert: my own certificate for one of my addresses, else the certificate of the primary tunnel of that address *)
Definition query_cert (s : dstate) (q : question) : option N :=
  match q_ip q with
  | None => None
  | Some ip => if existsb (addr_eqb ip) (my_addrs s) then Some (my_id s) else aget addr_eqb ip (d_hosts s)
  end.

(* netip.Addr.IsLoopback *)
Definition is_loopback (a : addr) : bool := if fst a then snd a / 16777216 =? 127 else snd a =? 1.

(* isSelfNebulaOrLocalhost: [None] is a client address that does not parse *)
Definition client_ok (s : dstate) (client : option addr) : bool :=
  match client with
  | None => false
  | Some a => is_loopback a || existsb (addr_eqb a) (my_addrs s)
  end.

(* an answer record: type, owner name, value (address value, or certificate id for TXT) *)
Definition answer := (N * name * N)%type.

(* dns.NewRR makes the owner name fully qualified *)
Definition fqdn (n : name) : name := match last n 0 with 46 => n | _ => n ++ [dot] end.

(* parseQuery: the loop over the questions; a TXT question from a client that may not see certificates ends the
   processing at once, leaving the answers so far and rcode NOERROR.  Returns the answers and "rcode = NXDOMAIN". *)
Fixpoint pq_loop (s : dstate) (ok : bool) (qs : list question) (acc : list answer) (known : bool) : list answer * bool :=
  match qs with
  | [] => (acc, match acc with [] => negb known | _ => false end)
  | q :: r =>
      let known' := known || name_exists s (q_name q) in
      if (q_type q =? ty_A) || (q_type q =? ty_AAAA) then
        pq_loop s ok r (acc ++ match query s (q_type q) (q_name q) with Some a => [(q_type q, fqdn (q_name q), a)] | None => [] end) known'
      else if q_type q =? ty_TXT then
        if ok then
          pq_loop s ok r (acc ++ match query_cert s q with Some c => [(ty_TXT, fqdn (q_name q), c)] | None => [] end) known'
        else (acc, false)
      else pq_loop s ok r acc known'
  end.

Definition parse_query (s : dstate) (client : option addr) (qs : list question) : list answer * bool :=
  pq_loop s (client_ok s client) qs [] false.

(* handleDnsRequest: only opcode QUERY is looked at, and the reply is built from the first question only
   (dns.Msg.SetReply copies Question[0]) *)
Definition handle_request (s : dstate) (client : option addr) (opcode : N) (qs : list question) : list answer * bool :=
  if opcode =? 0 then parse_query s client (firstn 1 qs) else ([], false).

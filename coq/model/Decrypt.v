(* Model of ConnectionState.Decrypt and ConnectionState.VerifyRelay (/repo/connection_state.go) under
   concurrency. Executable definitions only.

   Both functions have the same three sections, and both work on the one window of the
   ConnectionState they are called on:
       decryptLock.Lock(); ok := window.Check(counter); decryptLock.Unlock()     -- atomic
       if !ok  return ErrAlreadySeen
       DecryptDanger(...)          -- outside the lock; modelled as an oracle bit per packet
       if err  return err
       decryptLock.Lock(); ok = window.Update(counter); decryptLock.Unlock()     -- atomic
       if !ok  return ErrAlreadySeen
       return success
   A receiver thread is one call of either function for one packet; a schedule is any sequence of
   thread identifiers, each occurrence running the named thread's next section. The sections under the
   lock are atomic because decryptLock is a mutex (assumption: sync.Mutex gives mutual exclusion);
   the cipher call touches neither the window nor the lock. *)
From Coq Require Import List NArith Bool.
Import ListNotations.
From NV Require Import lib.Bytes model.Bits.
Open Scope N_scope.

Inductive entry := Direct | Relay.            (* Decrypt | VerifyRelay *)
Inductive result := Delivered | AlreadySeen | AuthFailed.
Inductive pc := PStart | PChecked | PAuthed | PDone (r : result).

Record thread := mkThread { t_entry : entry; t_ctr : N; t_auth : bool; t_pc : pc }.
Definition at_pc (t : thread) (p : pc) : thread := mkThread (t_entry t) (t_ctr t) (t_auth t) p.

(* ConnectionState.Decrypt, one section per call *)
Definition decrypt_step (b : bits) (t : thread) : bits * thread :=
  match t_pc t with
  | PStart => if check b (t_ctr t) then (b, at_pc t PChecked) else (b, at_pc t (PDone AlreadySeen))
  | PChecked => if t_auth t then (b, at_pc t PAuthed) else (b, at_pc t (PDone AuthFailed))
  | PAuthed => let '(ok, b') := update b (t_ctr t) in
               (b', at_pc t (PDone (if ok then Delivered else AlreadySeen)))
  | PDone _ => (b, t)
  end.

(* ConnectionState.VerifyRelay: the same sections (the AEAD call authenticates the whole body as
   associated data; its outcome is again the oracle bit) *)
Definition verify_relay_step (b : bits) (t : thread) : bits * thread :=
  match t_pc t with
  | PStart => if check b (t_ctr t) then (b, at_pc t PChecked) else (b, at_pc t (PDone AlreadySeen))
  | PChecked => if t_auth t then (b, at_pc t PAuthed) else (b, at_pc t (PDone AuthFailed))
  | PAuthed => let '(ok, b') := update b (t_ctr t) in
               (b', at_pc t (PDone (if ok then Delivered else AlreadySeen)))
  | PDone _ => (b, t)
  end.

Definition thread_step (b : bits) (t : thread) : bits * thread :=
  match t_entry t with
  | Direct => decrypt_step b t
  | Relay => verify_relay_step b t
  end.

Fixpoint set_thread (ths : list thread) (i : nat) (t : thread) : list thread :=
  match ths, i with
  | [], _ => []
  | _ :: r, O => t :: r
  | x :: r, S i' => x :: set_thread r i' t
  end.

(* one scheduling decision: thread number tid runs its next section (a finished or unknown thread
   identifier is a stutter step) *)
Definition sched_step (st : bits * list thread) (tid : nat) : bits * list thread :=
  let '(b, ths) := st in
  match nth_error ths tid with
  | Some t => let '(b', t') := thread_step b t in (b', set_thread ths tid t')
  | None => st
  end.

Definition run_sched (st : bits * list thread) (sched : list nat) : bits * list thread :=
  fold_left sched_step sched st.

Definition delivered (t : thread) : bool :=
  match t_pc t with PDone Delivered => true | _ => false end.

(* number of threads (direct or relayed) that returned success for counter c *)
Definition delivered_count (c : N) (ths : list thread) : nat :=
  length (filter (fun t => (t_ctr t =? c) && delivered t) ths).

Definition fresh (t : thread) : bool := match t_pc t with PStart => true | _ => false end.
Definition threads_ok (L : N) (ths : list thread) : bool :=
  forallb (fun t => fresh t && in_range L (t_ctr t)) ths.

Definition result_code (p : pc) : N :=
  match p with
  | PDone Delivered => 0 | PDone AlreadySeen => 1 | PDone AuthFailed => 2
  | PStart => 10 | PChecked => 11 | PAuthed => 12
  end.

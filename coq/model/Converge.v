(* Converge: two nebula nodes A and B, each with the part of HandshakeManager / HostMap / connectionManager that
   concerns ONE peer (the other node), and the network between them.  Executable definitions only.

   Mirrors (file: function):
     handshake_manager.go: StartHandshake, handleOutbound (build stage 0 once, retransmit, give up after `retries`),
                           beginHandshake + CheckAndComplete (ErrAlreadySeen -> cached response, ErrExistingHostInfo ->
                           test request, ErrLocalIndexCollision -> dropped, else new primary), continueHandshake +
                           Complete (pending -> main, cached packets released), cachePacket
     hostmap.go:           unlockedAddHostInfo / unlockedInnerAddHostInfo (new tunnel becomes primary, the oldest is
                           retired beyond MaxHostInfosPerVpnIp), unlockedMakePrimary, unlockedDeleteHostInfo
     connection_manager.go: doTrafficCheck / makeTrafficDecision (certificates valid, counters far from exhaustion,
                           drop_inactive off, punchy off), shouldSwapPrimary, swapPrimary
     outside.go:           readOutsidePackets for handshake, message, test and recv_error packets, handleRecvError
     inside.go:            consumeInsidePacket -> getOrHandshake / sendInsideMessage, sendNoMetrics
   The network is an append-only log of every packet ever sent; an event may deliver any logged packet any number of
   times (duplication), in any order (reordering), or never (loss).  The timers of both managers are abstracted to
   "the callback may fire at any time" (events EHsOut, ECheck): every real firing order is one of the schedules.

   Ghost components (not in the implementation, used to state the theorems): a logical clock [s_clk] from which
   handshake ids (one per stage-0 packet built = its bytes) and session ids (one per responder completion = its
   key material) are drawn, tagged with the node that made them; the list of sessions a node has removed
   ([n_gone]), the handshakes a node has finished or abandoned ([n_done]) and the registry of sessions. *)
From Coq Require Import List NArith Bool.
Import ListNotations.
Open Scope N_scope.

Inductive node := NA | NB.
Definition other (n : node) : node := match n with NA => NB | NB => NA end.
Definition node_eqb (a b : node) : bool := match a, b with NA, NA | NB, NB => true | _, _ => false end.

(* ---- overlay addresses and the swap rule ------------------------------------------------------------------ *)
(* netip.Addr.Compare on zone-less addresses: shorter bit length (IPv4) first, then the value *)
Record addr := mkAddr { a_v6 : bool; a_val : N }.
Definition addr_cmp (a b : addr) : comparison :=
  match a_v6 a, a_v6 b with
  | false, true => Lt
  | true, false => Gt
  | _, _ => N.compare (a_val a) (a_val b)
  end.

(* the remaining conditions of shouldSwapPrimary: counter below the re-key threshold, and the tunnel's own
   certificate is gone from the config or is still the current one *)
Definition swap_elig (rekey nocert sigeq : bool) : bool := negb rekey && (nocert || sigeq).

(* shouldSwapPrimary: `if current.vpnAddrs[0].Compare(myVpnAddrs[0]) < 0 { return false }` first *)
Definition should_swap (me peer : addr) (elig : bool) : bool :=
  match addr_cmp peer me with Lt => false | _ => elig end.

(* ---- constants ---------------------------------------------------------------------------------------------- *)
Definition hs_base : N := 2.            (* messages of the IX handshake: counters 1 and 2 are spent *)
Definition max_tunnels : nat := 5.      (* MaxHostInfosPerVpnIp (pinned against the generated constant in proofs) *)
Definition max_cached : nat := 100.     (* maxCachedPackets *)

(* ---- ids ---------------------------------------------------------------------------------------------------- *)
Definition node_bit (n : node) : N := match n with NA => 0 | NB => 1 end.
Definition mk_id (n : node) (clk : N) : N := 2 * clk + node_bit n.
Definition id_owner (i : N) : node := if N.odd i then NB else NA.

(* ---- packets ------------------------------------------------------------------------------------------------ *)
Inductive kind := KData (pl : N) | KTestReq | KTestReply.
Inductive msg :=
| MStage1 (src : node) (iidx hid ht : N)
| MStage2 (src : node) (iidx ridx hid sid rt : N)
| MData (src : node) (hidx sid : N) (from_ini : bool) (ctr : N) (k : kind)
| MRecvErr (src : node) (idx : N).
Definition msg_src (m : msg) : node :=
  match m with MStage1 s _ _ _ | MStage2 s _ _ _ _ _ | MData s _ _ _ _ _ | MRecvErr s _ => s end.

(* ---- per-node state ----------------------------------------------------------------------------------------- *)
Record tun := mkT {
  t_l : N; t_r : N;                 (* localIndexId, remoteIndexId *)
  t_hid : N; t_sid : N;             (* ghost: handshake (stage-0 bytes) and session (keys) *)
  t_ini : bool;                     (* ConnectionState.initiator *)
  t_in : bool; t_out : bool; t_pd : bool;
  t_ht : N;                         (* lastHandshakeTime: the peer's time in the message that completed it here *)
  t_rt : N;                         (* responder: the time written into its (cached) response *)
  t_ctr : N;                        (* messageCounter *)
  t_seen : list N                   (* counters accepted by the replay window *)
}.
Record pend := mkP { p_ready : bool; p_idx : N; p_hid : N; p_ht : N; p_cnt : N; p_store : list N }.
Record nst := mkN {
  n_pend : option pend;
  n_tuns : list tun;                (* HostMap list for the peer, primary first *)
  n_swaps : N;                      (* how often this node decided swapPrimary *)
  n_gone : list N;                  (* ghost: sessions removed from this node's hostmap *)
  n_done : list N                   (* ghost: own handshakes completed or abandoned *)
}.
Record st := mkS {
  s_a : nst; s_b : nst;
  s_net : list msg;
  s_clk : N;
  s_reg : list (N * (N * N * N))    (* ghost: session id -> (handshake id, responder index, initiator index) *)
}.
Record cfg := mkC { c_addr_a : addr; c_addr_b : addr; c_retries : N }.
Definition c_addr (c : cfg) (n : node) : addr := match n with NA => c_addr_a c | NB => c_addr_b c end.

Definition get (s : st) (n : node) : nst := match n with NA => s_a s | NB => s_b s end.

Definition empty_node : nst := mkN None [] 0 [] [].
Definition init : st := mkS empty_node empty_node [] 1 [].

(* setters *)
Definition set_pend (ns : nst) (p : option pend) : nst := mkN p (n_tuns ns) (n_swaps ns) (n_gone ns) (n_done ns).
Definition set_tuns (ns : nst) (l : list tun) : nst := mkN (n_pend ns) l (n_swaps ns) (n_gone ns) (n_done ns).
Definition add_gone (ns : nst) (sid : N) : nst := mkN (n_pend ns) (n_tuns ns) (n_swaps ns) (sid :: n_gone ns) (n_done ns).
Definition add_done (ns : nst) (hid : N) : nst := mkN (n_pend ns) (n_tuns ns) (n_swaps ns) (n_gone ns) (hid :: n_done ns).
Definition inc_swaps (ns : nst) : nst := mkN (n_pend ns) (n_tuns ns) (n_swaps ns + 1) (n_gone ns) (n_done ns).

Definition set_flags (t : tun) (i o p : bool) : tun :=
  mkT (t_l t) (t_r t) (t_hid t) (t_sid t) (t_ini t) i o p (t_ht t) (t_rt t) (t_ctr t) (t_seen t).
Definition set_sent (t : tun) : tun :=
  mkT (t_l t) (t_r t) (t_hid t) (t_sid t) (t_ini t) (t_in t) true (t_pd t) (t_ht t) (t_rt t) (t_ctr t + 1) (t_seen t).
Definition set_recv (t : tun) (c : N) : tun :=
  mkT (t_l t) (t_r t) (t_hid t) (t_sid t) (t_ini t) true (t_out t) (t_pd t) (t_ht t) (t_rt t) (t_ctr t) (c :: t_seen t).

Definition has_l (idx : N) (t : tun) : bool := t_l t =? idx.
Definition find_l (idx : N) (l : list tun) : option tun := find (has_l idx) l.
Definition upd_l (idx : N) (f : tun -> tun) (l : list tun) : list tun :=
  map (fun t => if has_l idx t then f t else t) l.
Definition del_l (idx : N) (l : list tun) : list tun := filter (fun t => negb (has_l idx t)) l.

(* unlockedDeleteHostInfo for the tunnel with local index idx *)
Definition remove_l (ns : nst) (idx : N) : nst :=
  match find_l idx (n_tuns ns) with
  | Some t => add_gone (set_tuns ns (del_l idx (n_tuns ns))) (t_sid t)
  | None => ns
  end.

(* the local index is taken: main hostmap Indexes or the pending index map; 0 is never handed out *)
Definition used (idx : N) (ns : nst) : bool :=
  (idx =? 0) || existsb (has_l idx) (n_tuns ns) ||
  match n_pend ns with Some p => p_ready p && (p_idx p =? idx) | None => false end.

(* unlockedAddHostInfo: prepend (new primary), retire the oldest beyond the cap *)
Definition add_tunnel (ns : nst) (t : tun) : nst :=
  let l := t :: n_tuns ns in
  if Nat.ltb max_tunnels (length l) then
    match rev l with
    | o :: _ => add_gone (set_tuns ns (removelast l)) (t_sid o)
    | [] => set_tuns ns l
    end
  else set_tuns ns l.

(* sendNoMetrics / sendInsideMessage on tunnel t *)
Definition send_on (me : node) (t : tun) (k : kind) : tun * msg :=
  (set_sent t, MData me (t_r t) (t_sid t) (t_ini t) (t_ctr t + 1) k).

(* send a list of cached payloads on the head tunnel *)
Fixpoint send_all (me : node) (t : tun) (pls : list N) : tun * list msg :=
  match pls with
  | [] => (t, [])
  | pl :: r => let '(t1, m) := send_on me t (KData pl) in
               let '(t2, ms) := send_all me t1 r in (t2, m :: ms)
  end.

Definition send_primary (me : node) (ns : nst) (k : kind) : nst * list msg :=
  match n_tuns ns with
  | p :: rest => let '(p', m) := send_on me p k in (set_tuns ns (p' :: rest), [m])
  | [] => (ns, [])
  end.

(* ---- node-local transitions --------------------------------------------------------------------------------- *)
(* StartHandshake *)
Definition l_start (ns : nst) : nst :=
  match n_pend ns with
  | Some _ => ns
  | None => set_pend ns (Some (mkP false 0 0 0 0 []))
  end.

(* handleOutbound(vpnIp, false) *)
Definition l_hsout (retries : N) (me : node) (clk idx : N) (ns : nst) : nst * list msg :=
  match n_pend ns with
  | None => (ns, [])
  | Some p =>
    if retries <=? p_cnt p then
      (* timed out: DeleteHostInfo *)
      let ns1 := set_pend ns None in
      ((if p_ready p then add_done ns1 (p_hid p) else ns1), [])
    else if p_ready p then
      (set_pend ns (Some (mkP true (p_idx p) (p_hid p) (p_ht p) (p_cnt p + 1) (p_store p))),
       [MStage1 me (p_idx p) (p_hid p) (p_ht p)])
    else if used idx ns then
      (* buildStage0Packet failed (no unique index): retry later *)
      (set_pend ns (Some (mkP false 0 0 0 (p_cnt p + 1) (p_store p))), [])
    else
      let hid := mk_id me clk in
      (set_pend ns (Some (mkP true idx hid clk (p_cnt p + 1) (p_store p))), [MStage1 me idx hid clk])
  end.

(* consumeInsidePacket for a packet to the peer *)
Definition l_data (me : node) (pl : N) (ns : nst) : nst * list msg :=
  match n_tuns ns with
  | _ :: _ => send_primary me ns (KData pl)
  | [] =>
    let ns1 := l_start ns in
    match n_pend ns1 with
    | Some p =>
      if Nat.ltb (length (p_store p)) max_cached
      then (set_pend ns1 (Some (mkP (p_ready p) (p_idx p) (p_hid p) (p_ht p) (p_cnt p) (p_store p ++ [pl]))), [])
      else (ns1, [])
    | None => (ns1, [])
    end
  end.

Definition is_resp_of (hid : N) (t : tun) : bool := (t_hid t =? hid) && negb (t_ini t).

(* beginHandshake + CheckAndComplete + handleCheckAndCompleteError *)
Definition l_stage1 (me : node) (clk idx : N) (iidx hid ht : N) (ns : nst) : nst * list msg * option (N * (N * N * N)) :=
  match find (is_resp_of hid) (n_tuns ns) with
  | Some u => (ns, [MStage2 me (t_r u) (t_l u) hid (t_sid u) (t_rt u)], None)        (* ErrAlreadySeen *)
  | None =>
    let stale := match n_tuns ns with p :: _ => (ht <=? t_ht p) && negb (t_ini p) | [] => false end in
    if stale then let '(ns1, ms) := send_primary me ns KTestReq in (ns1, ms, None)   (* ErrExistingHostInfo *)
    else if used idx ns then (ns, [], None)                                          (* ErrLocalIndexCollision *)
    else
      let sid := mk_id me clk in
      let t := mkT idx iidx hid sid false false true false ht clk hs_base [] in
      (add_tunnel ns t, [MStage2 me iidx idx hid sid clk], Some (sid, (hid, idx, iidx)))
  end.

(* continueHandshake + Complete *)
Definition l_stage2 (me : node) (iidx ridx hid sid rt : N) (ns : nst) : nst * list msg :=
  match n_pend ns with
  | Some p =>
    if p_ready p && (p_idx p =? iidx) then
      if p_hid p =? hid then
        let t := mkT iidx ridx hid sid true false true false rt 0 hs_base [] in
        let '(t1, ms) := send_all me t (p_store p) in
        (add_tunnel (add_done (set_pend ns None) hid) t1, ms)
      else
        (* a response to another handshake hit this index: the noise state moved, the machine failed *)
        (add_done (set_pend ns None) (p_hid p), [])
    else (ns, [])
  | None => (ns, [])
  end.

Definition accepts (u : tun) (sid : N) (from_ini : bool) (ctr : N) : bool :=
  (t_sid u =? sid) && eqb (t_ini u) (negb from_ini) && negb (existsb (N.eqb ctr) (t_seen u)).

(* readOutsidePackets for message / test packets *)
Definition l_data_in (me : node) (hidx sid : N) (from_ini : bool) (ctr : N) (k : kind) (ns : nst)
  : nst * list msg * list N :=
  match find_l hidx (n_tuns ns) with
  | None => (ns, [MRecvErr me hidx], [])
  | Some u =>
    if accepts u sid from_ini ctr then
      match k with
      | KData pl => (set_tuns ns (upd_l hidx (fun t => set_recv t ctr) (n_tuns ns)), [], [pl])
      | KTestReq => let '(_, m) := send_on me (set_recv u ctr) KTestReply in
                    (set_tuns ns (upd_l hidx (fun t => set_sent (set_recv t ctr)) (n_tuns ns)), [m], [])
      | KTestReply => (set_tuns ns (upd_l hidx (fun t => set_recv t ctr) (n_tuns ns)), [], [])
      end
    else (ns, [], [])
  end.

(* handleRecvError *)
Definition l_recverr (idx : N) (ns : nst) : nst :=
  match find (fun t => t_r t =? idx) (n_tuns ns) with
  | Some u => remove_l ns (t_l u)
  | None => ns
  end.

Definition is_primary (idx : N) (l : list tun) : bool :=
  match l with p :: _ => has_l idx p | [] => false end.

Definition make_primary (idx : N) (l : list tun) : list tun :=
  match find_l idx l with Some u => u :: del_l idx l | None => l end.

(* doTrafficCheck(localIndex) *)
Definition l_check (me_addr peer_addr : addr) (me : node) (lidx : N) (elig : bool) (ns : nst) : nst * list msg :=
  match find_l lidx (n_tuns ns) with
  | None => (ns, [])
  | Some u =>
    let primary := is_primary lidx (n_tuns ns) in
    if t_in u then
      let l1 := upd_l lidx (fun t => set_flags t false false false) (n_tuns ns) in
      if primary then (set_tuns ns l1, [])
      else if should_swap me_addr peer_addr elig then (inc_swaps (set_tuns ns (make_primary lidx l1)), [])
      else (set_tuns ns l1, [])
    else if t_pd u then (remove_l ns lidx, [])
    else if primary then
      if t_out u then
        let '(_, m) := send_on me (set_flags u false false true) KTestReq in
        (set_tuns ns (upd_l lidx (fun t => set_sent (set_flags t false false true)) (n_tuns ns)), [m])
      else (set_tuns ns (upd_l lidx (fun t => set_flags t false false false) (n_tuns ns)), [])
    else (set_tuns ns (upd_l lidx (fun t => set_flags t false false true) (n_tuns ns)), [])
  end.

(* ---- the system --------------------------------------------------------------------------------------------- *)
Inductive ev :=
| EStart (n : node)
| EHsOut (n : node) (idx : N)          (* idx: the index allocateIndex would hand out if it is called *)
| EData (n : node) (pl : N)
| EDeliver (k : N) (idx : N)           (* deliver s_net[k]; idx: the index generateIndex would return *)
| ECheck (n : node) (lidx : N) (elig : bool).

Definition put (s : st) (n : node) (ns : nst) (ms : list msg) (reg : option (N * (N * N * N))) : st :=
  let r := match reg with Some e => e :: s_reg s | None => s_reg s end in
  match n with
  | NA => mkS ns (s_b s) (s_net s ++ ms) (s_clk s + 1) r
  | NB => mkS (s_a s) ns (s_net s ++ ms) (s_clk s + 1) r
  end.

Definition tag (n : node) (l : list N) : list (node * N) := map (fun x => (n, x)) l.

Definition l_recv (me : node) (clk idx : N) (m : msg) (ns : nst)
  : nst * list msg * list N * option (N * (N * N * N)) :=
  match m with
  | MStage1 _ iidx hid ht => let '(ns1, ms, reg) := l_stage1 me clk idx iidx hid ht ns in (ns1, ms, [], reg)
  | MStage2 _ iidx ridx hid sid rt => let '(ns1, ms) := l_stage2 me iidx ridx hid sid rt ns in (ns1, ms, [], None)
  | MData _ hidx sid fi ctr k => let '(ns1, ms, o) := l_data_in me hidx sid fi ctr k ns in (ns1, ms, o, None)
  | MRecvErr _ idx' => (l_recverr idx' ns, [], [], None)
  end.

Definition step (c : cfg) (s : st) (e : ev) : st * list (node * N) :=
  match e with
  | EStart n => (put s n (l_start (get s n)) [] None, [])
  | EHsOut n idx => let '(ns, ms) := l_hsout (c_retries c) n (s_clk s) idx (get s n) in (put s n ns ms None, [])
  | EData n pl => let '(ns, ms) := l_data n pl (get s n) in (put s n ns ms None, [])
  | EDeliver k idx =>
    match nth_error (s_net s) (N.to_nat k) with
    | None => (put s NA (get s NA) [] None, [])
    | Some m =>
      let n := other (msg_src m) in
      let '(ns, ms, o, reg) := l_recv n (s_clk s) idx m (get s n) in
      (put s n ns ms reg, tag n o)
    end
  | ECheck n lidx elig =>
    let '(ns, ms) := l_check (c_addr c n) (c_addr c (other n)) n lidx elig (get s n) in (put s n ns ms None, [])
  end.

Fixpoint run (c : cfg) (s : st) (evs : list ev) : st :=
  match evs with
  | [] => s
  | e :: r => run c (fst (step c s e)) r
  end.

Definition reachable (c : cfg) (s : st) : Prop := exists evs, s = run c init evs.

(* ---- vocabulary of the theorems ----------------------------------------------------------------------------- *)
(* U (at the peer) is the other end of T: same session, opposite roles, indexes swapped *)
Definition twin (t u : tun) : Prop :=
  t_sid t = t_sid u /\ t_ini t = negb (t_ini u) /\ t_l t = t_r u /\ t_r t = t_l u /\ t_hid t = t_hid u.

Definition holds_sid (ns : nst) (sid : N) : Prop := exists u, In u (n_tuns ns) /\ t_sid u = sid.

(* the peer is still waiting for the response that created U *)
Definition pending_for (ns : nst) (u : tun) : Prop :=
  exists p, n_pend ns = Some p /\ p_ready p = true /\ p_hid p = t_hid u /\ p_idx p = t_r u.

Definition primary_of (ns : nst) : option tun := match n_tuns ns with p :: _ => Some p | [] => None end.

Definition tunnels (s : st) : nat := length (n_tuns (s_a s)) + length (n_tuns (s_b s)).

(* both nodes hold exactly one tunnel and the two are each other's ends *)
Definition converged (s : st) : Prop :=
  exists t u, n_tuns (s_a s) = [t] /\ n_tuns (s_b s) = [u] /\ twin t u /\
              n_pend (s_a s) = None /\ n_pend (s_b s) = None.

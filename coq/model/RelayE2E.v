(* Symbolic model of traffic through a relay for property C15 (relays never see or alter end-to-end traffic).
   Executable definitions only. Terms are those of lib/Sym.v (Dolev-Yao: every constructor is free).

   Mirrors /repo/inside.go sendInsideMessage (relay path) -> sendInsideEncrypt + prepareSendVia / SendVia, and
   /repo/outside.go readOutsidePackets -> VerifyRelay -> handleOutsideRelayPacket -> readOutsidePackets (relayed):

     inner  =  hdr(Message, None, idxB, c)  ||  AEAD_{kAB}(nonce c, ad = that header, plaintext)        (end to end)
     outer  =  hdr(Message, Relay, ridx, c')  ||  inner  ||  AEAD_{kAR}(nonce c', ad = header || inner, empty)   (tag only)

   The relay verifies the tag with kAR, strips header and tag, and sends  hdr'' || inner || tag_{kRB}  on. *)
From Coq Require Import List NArith Bool.
Import ListNotations.
From NV Require Import lib.Sym.
Open Scope N_scope.

(* ---- secret atoms ------------------------------------------------------------------------------------- *)

(* Symmetric session keys and application plaintexts are secret values never sent in the clear: atoms [Priv] of the
   term algebra, keys on even numbers, plaintexts on odd ones. *)
Definition key (k : N) : term := Priv (2 * k).
Definition data (d : N) : term := Priv (2 * d + 1).

(* a 16-byte nebula header is public: bytes determined by its fields *)
Definition hcode (ty st idx ctr : N) : N := ty + 16 * (st + 256 * (idx + 4294967296 * ctr)).
Definition hdr (ty st idx ctr : N) : term := Junk (hcode ty st idx ctr) 16.

Definition t_message : N := 1.
Definition st_none : N := 0.
Definition st_relay : N := 1.

(* ---- what the endpoints put on the wire ------------------------------------------------------------------- *)

(* sendInsideEncrypt: header, then the packet encrypted under the end-to-end key with the header as AD *)
Definition inner_pkt (kab idx c : N) (p : term) : term :=
  cat (hdr t_message st_none idx c) (Aead (key kab) c (hdr t_message st_none idx c) p).

(* prepareSendVia: relay header, the payload in the clear, and a tag (AEAD of the empty plaintext) over both *)
Definition outer_pkt (kar ridx c : N) (body : term) : term :=
  let ad := cat (hdr t_message st_relay ridx c) body in
  cat ad (Aead (key kar) c ad Empty).

(* one packet an endpoint sends through a relay *)
Record sent := mkSent {
  s_kab : N; s_idx : N; s_ctr : N; s_data : N;      (* end-to-end tunnel key, receiver's index, counter, plaintext *)
  s_kar : N; s_ridx : N; s_rctr : N                  (* sender<->relay tunnel key, relay index, counter on that tunnel *)
}.

Definition wire (s : sent) : term :=
  outer_pkt (s_kar s) (s_ridx s) (s_rctr s) (inner_pkt (s_kab s) (s_idx s) (s_ctr s) (data (s_data s))).

(* ---- what a relay knows -------------------------------------------------------------------------------------- *)

(* its own tunnel keys, every datagram that ever reached it, and anything else that is public *)
Definition knowledge (own : list N) (traffic : list sent) (extra : list term) : list term :=
  map key own ++ map wire traffic ++ extra.

(* ---- "the plaintext occurs only under an end-to-end key" ---------------------------------------------------- *)

Definition is_e2e (e2e : list N) (k : term) : bool :=
  match k with Priv x => N.even x && existsb (N.eqb (x / 2)) e2e | _ => false end.

(* [safe e2e t]: t exposes neither an end-to-end key nor any plaintext: they occur in t at most as the key of an
   AEAD, respectively as the plaintext of an AEAD under an end-to-end key. Slices [Sub] of a term are judged by the
   term they are cut from. *)
Fixpoint safe (e2e : list N) (t : term) : bool :=
  match t with
  | Priv x => N.even x && negb (existsb (N.eqb (x / 2)) e2e)
  | Aead k _ ad p => if is_e2e e2e k then safe e2e ad else safe e2e k && safe e2e ad && safe e2e p
  | DH _ B => safe e2e B
  | H t u | Hkdf t u _ | Cat t u => safe e2e t && safe e2e u
  | Sub t _ _ => safe e2e t
  | _ => true
  end.

(* the ciphertexts under end-to-end keys a term is made of *)
Fixpoint e2e_aeads (e2e : list N) (t : term) : list term :=
  match t with
  | Aead k _ ad p => if is_e2e e2e k then [t] else e2e_aeads e2e k ++ e2e_aeads e2e ad ++ e2e_aeads e2e p
  | DH _ B => e2e_aeads e2e B
  | H t u | Hkdf t u _ | Cat t u => e2e_aeads e2e t ++ e2e_aeads e2e u
  | Sub t _ _ => e2e_aeads e2e t
  | _ => []
  end.

(* ---- the receiving endpoint ------------------------------------------------------------------------------------ *)

Definition dl : N := 32.

(* a tunnel of the receiver: its local index, the end-to-end key, and who the peer is (certificate identity) *)
Record tunnel := mkTunnel { t_idx : N; t_key : N; t_peer : N }.

Definition find_tunnel (ts : list tunnel) (idx : N) : option tunnel := find (fun t => t_idx t =? idx) ts.

(* readOutsidePackets on an end-to-end data packet: strip 16 bytes, they must be the header (Message, None, idx, c)
   of a tunnel I hold, decrypt the rest under that tunnel's key with counter c as nonce and the header as AD.
   The counter is what the replay window is asked about (C11/C12); here it is returned. *)
Definition recv_inner (ts : list tunnel) (idx c : N) (t : term) : option (tunnel * term) :=
  let (h, body) := take dl 16 t in
  if term_eqb h (hdr t_message st_none idx c) then
    match find_tunnel ts idx with
    | Some tu => match adec (key (t_key tu)) c h body with Some p => Some (tu, p) | None => None end
    | None => None
    end
  else None.

(* a terminal relay record of the receiver: relay index, key of the tunnel to the relay, and the peer address the
   record claims the traffic is from (Relay.PeerAddr) *)
Record relayrec := mkRelay { r_idx : N; r_key : N; r_claim : N }.

(* readOutsidePackets on a relay packet, terminal record: header (Message, Relay, ridx, c'), tag over header and
   payload under the relay tunnel's key (VerifyRelay), then the payload is read as a packet of its own.
   Result: the identity the delivered plaintext is attributed to, and the plaintext. *)
Definition recv_outer (ts : list tunnel) (r : relayrec) (c' idx c : N) (t : term) : option (N * term) :=
  let (ad, tag) := take dl (tlen dl t - 16) t in
  let (h, body) := take dl 16 ad in
  if term_eqb h (hdr t_message st_relay (r_idx r) c') then
    match adec (key (r_key r)) c' ad tag with
    | Some Empty => match recv_inner ts idx c body with
                    | Some (tu, p) => Some (t_peer tu, p)
                    | None => None
                    end
    | _ => None
    end
  else None.

(* ---- the relay, honest -------------------------------------------------------------------------------------------- *)

(* handleOutsideRelayPacket, forwarding record: verify the tag, strip relay header and tag, re-wrap towards the target *)
Definition forward (kar ridx c' : N) (krb ridx2 c2 : N) (t : term) : option term :=
  let (ad, tag) := take dl (tlen dl t - 16) t in
  let (h, body) := take dl 16 ad in
  if term_eqb h (hdr t_message st_relay ridx c') then
    match adec (key kar) c' ad tag with
    | Some Empty => Some (outer_pkt krb ridx2 c2 body)
    | _ => None
    end
  else None.

(* Coalesce: executable model of nebula's receive coalescing (property C23).

   Mirrors /repo/overlay/batch:
     multi_coalesce.go   MultiCoalescer.Commit / Flush (staging, sort by (epoch, counter), dispatch by L4 protocol,
                         lane flush order tcp, udp, passthrough)
     tcp_coalesce.go     TCPCoalescer.commitStaged / commitParsed / canAppend / appendPayload / seed / sealFlow /
                         sealAllOpen / Flush / flushSlot (+ ipv4HdrChecksum, pseudoSumIPv4/6, foldOnceNoInvert)
     udp_coalesce.go     the UDP twin
     coalesce_core.go    ipHeadersMatch, ipv4CanCoalesceID (the parse prologues are represented by [p_shape], below)
     passthrough.go      the verbatim lane
   and the kernel side: [kernel_segment] is the reference TSO / USO segmentation of one tun write.

   Packets are ABSTRACT: a record of the header fields the code looks at, the payload bytes, and a [shape] telling
   which parse the packet survives.  The Go harness renders such packets to real IPv4/IPv6 bytes, feeds the real
   MultiCoalescer, and parses what the coalescer hands to its GSOWriter back into this vocabulary
   (corr/Coalesce_corr.v).  What "parse succeeds" means byte-wise (IHL = 20, no fragment bits, total length inside
   the buffer, L4 header at byte 40 for IPv6, TCP data offset in 20..60 and inside the packet, UDP length =
   the IP payload length, >= 8) is the harness' reference classifier; a change of those conditions in nebula shows up as a
   model/implementation difference.

   The two coalescers are the same machine up to a handful of protocol specific decisions; the model is that
   machine ([commit_staged] ... [lane_writes]) instantiated with a [policy] record per protocol.

   Ghost state: every slot also carries [s_mem], the staged packets folded into it in order.  It influences no
   output; the theorems use it to say which input packet each delivered packet is.

   No proofs in this file. *)
From Coq Require Import List NArith Bool Arith.
Import ListNotations.
From NV Require Import lib.Bytes lib.Ones lib.Corr gen.Consts_Coalesce.
Open Scope N_scope.

(* lazy conjunction: under vm_compute [andb a b] evaluates both arguments, this stops at the first false
   (it is convertible with [andb a b]) *)
Notation "a &&& b" := (if a then b else false) (at level 40, left associativity).

(* ---------------------------------------------------------------------------------------------- *)
(** * Abstract packets *)

Inductive shape :=
| ShTcp     (* survives parsedTCP.parseAt: plain IP header, not a fragment, consistent lengths, TCP header inside *)
| ShUdp     (* survives parsedUDP.parseAt *)
| ShOther   (* neither TCP nor UDP upstream: passthrough lane, never parsed *)
| ShFrag    (* pp.FragAny, or IPv4 MF / fragment offset bits *)
| ShBadLen  (* some length check of the lane parser fails *)
| ShExt.    (* L4 not directly behind a plain IP header: IPv4 options / IPv6 extension headers *)

Definition shape_eqb (a b : shape) : bool :=
  match a, b with
  | ShTcp, ShTcp | ShUdp, ShUdp | ShOther, ShOther | ShFrag, ShFrag | ShBadLen, ShBadLen | ShExt, ShExt => true
  | _, _ => false
  end.

Record pkt := mkPkt {
  p_proto : N;          (* pp.Protocol, the L4 protocol resolved upstream: selects the lane *)
  p_shape : shape;
  p_v6 : bool;
  p_src : N; p_dst : N; (* addresses as numbers (32 / 128 bit) *)
  p_sport : N; p_dport : N;
  p_tos : N;            (* IPv4 ToS / IPv6 traffic class: DSCP and ECN *)
  p_flow : N;           (* IPv6 flow label (0 for IPv4) *)
  p_ttl : N;            (* TTL / hop limit *)
  p_nxt : N;            (* IPv4 protocol byte / IPv6 next header byte *)
  p_df : bool;          (* IPv4 don't-fragment *)
  p_rsv : bool;         (* IPv4 reserved flag bit (0x8000 of the flags/fragment word) *)
  p_id : N;             (* IPv4 identification (0 for IPv6) *)
  p_seq : N; p_ack : N;
  p_x2 : N;             (* low nibble of TCP byte 12 (reserved bits / AE) *)
  p_flags : N;          (* TCP byte 13 *)
  p_win : N; p_urg : N;
  p_opts : list N;      (* TCP option bytes; the data offset is 5 + |opts|/4 *)
  p_ipck : N;           (* IPv4 header checksum field as carried *)
  p_l4ck : N;           (* TCP / UDP checksum field as carried *)
  p_pay : list N;       (* L4 payload: up to the IP length (TCP) / the UDP length (UDP) *)
  p_trail : list N;     (* bytes in the buffer behind the IP-declared length *)
  p_raw : list N        (* unparseable shapes: the whole packet, opaque *)
}.

Definition key := (N * N)%type.              (* SortKey: (epoch, counter) *)
Definition staged := (key * pkt)%type.       (* one Commit *)

Definition key_leb (a b : key) : bool :=
  (fst a <? fst b) || ((fst a =? fst b) && (snd a <=? snd b)).
Definition key_ltb (a b : key) : bool :=
  (fst a <? fst b) || ((fst a =? fst b) && (snd a <? snd b)).

Definition pkt_eqb (a b : pkt) : bool :=
  (p_proto a =? p_proto b) &&& shape_eqb (p_shape a) (p_shape b) &&& Bool.eqb (p_v6 a) (p_v6 b)
  &&& (p_src a =? p_src b) &&& (p_dst a =? p_dst b) &&& (p_sport a =? p_sport b) &&& (p_dport a =? p_dport b)
  &&& (p_tos a =? p_tos b) &&& (p_flow a =? p_flow b) &&& (p_ttl a =? p_ttl b) &&& (p_nxt a =? p_nxt b)
  &&& Bool.eqb (p_df a) (p_df b) &&& Bool.eqb (p_rsv a) (p_rsv b) &&& (p_id a =? p_id b)
  &&& (p_seq a =? p_seq b) &&& (p_ack a =? p_ack b) &&& (p_x2 a =? p_x2 b) &&& (p_flags a =? p_flags b)
  &&& (p_win a =? p_win b) &&& (p_urg a =? p_urg b) &&& nlist_eqb (p_opts a) (p_opts b)
  &&& (p_ipck a =? p_ipck b) &&& (p_l4ck a =? p_l4ck b)
  &&& nlist_eqb (p_pay a) (p_pay b) &&& nlist_eqb (p_trail a) (p_trail b)
  &&& nlist_eqb (p_raw a) (p_raw b).

(* The equivalence of the property: equal except the fields the kernel rewrites when it segments a superpacket
   - the checksums, the IPv4 ID when DF is set (RFC 6864: it carries no meaning then; IPv6 has none) - and
   except bytes behind the IP-declared length, which are not part of the IP datagram (ip_rcv trims them).  The
   IP / UDP length fields are functions of the compared fields. *)
Definition approxb (a b : pkt) : bool :=
  (p_proto a =? p_proto b) &&& shape_eqb (p_shape a) (p_shape b) &&& Bool.eqb (p_v6 a) (p_v6 b)
  &&& (p_src a =? p_src b) &&& (p_dst a =? p_dst b) &&& (p_sport a =? p_sport b) &&& (p_dport a =? p_dport b)
  &&& (p_tos a =? p_tos b) &&& (p_flow a =? p_flow b) &&& (p_ttl a =? p_ttl b) &&& (p_nxt a =? p_nxt b)
  &&& Bool.eqb (p_df a) (p_df b) &&& Bool.eqb (p_rsv a) (p_rsv b)
  &&& (p_v6 a || p_df a || (p_id a =? p_id b))
  &&& (p_seq a =? p_seq b) &&& (p_ack a =? p_ack b) &&& (p_x2 a =? p_x2 b) &&& (p_flags a =? p_flags b)
  &&& (p_win a =? p_win b) &&& (p_urg a =? p_urg b) &&& nlist_eqb (p_opts a) (p_opts b)
  &&& nlist_eqb (p_pay a) (p_pay b)
  &&& nlist_eqb (p_raw a) (p_raw b).
Definition approx (a b : pkt) : Prop := approxb a b = true.

(* Representation invariant of the abstraction: p_raw is only used by the opaque shapes, the TCP-only fields are
   blank in a UDP packet, the sequence number and the IPv4 ID are 32 / 16 bit values.  (This is what the harness'
   abstraction function produces; Coalesce_corr checks it on every staged packet.) *)
Definition wf_pktb (p : pkt) : bool :=
  match p_shape p with
  | ShTcp => match p_raw p with [] => true | _ => false end
             &&& (p_seq p <? 4294967296) &&& (p_id p <? 65536)
  | ShUdp => match p_raw p with [] => true | _ => false end
             &&& (p_id p <? 65536)
             &&& (p_seq p =? 0) &&& (p_ack p =? 0) &&& (p_x2 p =? 0) &&& (p_flags p =? 0) &&& (p_win p =? 0)
             &&& (p_urg p =? 0) &&& match p_opts p with [] => true | _ => false end
  | _ => true
  end.
(* header fields are bytes / 16-bit words (needed only for the statement about the IPv4 header checksum) *)
Definition ranges_okb (p : pkt) : bool :=
  (p_tos p <? 256) &&& (p_ttl p <? 256) &&& (p_nxt p <? 256) &&& (p_id p <? 65536).

(* field updates *)
Definition with_flags (p : pkt) (f : N) : pkt :=
  mkPkt (p_proto p) (p_shape p) (p_v6 p) (p_src p) (p_dst p) (p_sport p) (p_dport p) (p_tos p) (p_flow p) (p_ttl p)
        (p_nxt p) (p_df p) (p_rsv p) (p_id p) (p_seq p) (p_ack p) (p_x2 p) f (p_win p) (p_urg p) (p_opts p)
        (p_ipck p) (p_l4ck p) (p_pay p) (p_trail p) (p_raw p).
Definition with_seq (p : pkt) (s : N) : pkt :=
  mkPkt (p_proto p) (p_shape p) (p_v6 p) (p_src p) (p_dst p) (p_sport p) (p_dport p) (p_tos p) (p_flow p) (p_ttl p)
        (p_nxt p) (p_df p) (p_rsv p) (p_id p) s (p_ack p) (p_x2 p) (p_flags p) (p_win p) (p_urg p) (p_opts p)
        (p_ipck p) (p_l4ck p) (p_pay p) (p_trail p) (p_raw p).
Definition with_id (p : pkt) (i : N) : pkt :=
  mkPkt (p_proto p) (p_shape p) (p_v6 p) (p_src p) (p_dst p) (p_sport p) (p_dport p) (p_tos p) (p_flow p) (p_ttl p)
        (p_nxt p) (p_df p) (p_rsv p) i (p_seq p) (p_ack p) (p_x2 p) (p_flags p) (p_win p) (p_urg p) (p_opts p)
        (p_ipck p) (p_l4ck p) (p_pay p) (p_trail p) (p_raw p).
Definition with_cks (p : pkt) (ipck l4ck : N) : pkt :=
  mkPkt (p_proto p) (p_shape p) (p_v6 p) (p_src p) (p_dst p) (p_sport p) (p_dport p) (p_tos p) (p_flow p) (p_ttl p)
        (p_nxt p) (p_df p) (p_rsv p) (p_id p) (p_seq p) (p_ack p) (p_x2 p) (p_flags p) (p_win p) (p_urg p) (p_opts p)
        ipck l4ck (p_pay p) (p_trail p) (p_raw p).
Definition with_body (p : pkt) (pay trail : list N) : pkt :=
  mkPkt (p_proto p) (p_shape p) (p_v6 p) (p_src p) (p_dst p) (p_sport p) (p_dport p) (p_tos p) (p_flow p) (p_ttl p)
        (p_nxt p) (p_df p) (p_rsv p) (p_id p) (p_seq p) (p_ack p) (p_x2 p) (p_flags p) (p_win p) (p_urg p) (p_opts p)
        (p_ipck p) (p_l4ck p) pay trail (p_raw p).

(* flowKey {src, dst, sport, dport, isV6} *)
Definition fkey := (bool * N * N * N * N)%type.
Definition fk_of (p : pkt) : fkey := (p_v6 p, p_src p, p_dst p, p_sport p, p_dport p).
Definition fkey_eqb (a b : fkey) : bool :=
  match a, b with
  | (v, s, d, sp, dp), (v', s', d', sp', dp') =>
      Bool.eqb v v' && (s =? s') && (d =? d') && (sp =? sp') && (dp =? dp')
  end.

Definition paylen (p : pkt) : N := N.of_nat (length (p_pay p)).
Definition iphl (p : pkt) : N := if p_v6 p then 40 else 20.
Definition tcp_hlen (p : pkt) : N := iphl p + 20 + N.of_nat (length (p_opts p)).
Definition udp_hlen (p : pkt) : N := iphl p + 8.

Definition has (f bit : N) : bool := negb (N.land f bit =? 0).

(* ---------------------------------------------------------------------------------------------- *)
(** * Header checksum words (flushSlot) *)

(* sum of the k low 16-bit words of n *)
Fixpoint words16 (k : nat) (n : N) : N :=
  match k with O => 0 | S k' => n mod 65536 + words16 k' (n / 65536) end.

(* pseudoSumIPv4 / pseudoSumIPv6 (uint32 accumulator; it cannot overflow: at most 19 words) *)
Definition pseudo_sum (p : pkt) (proto l4len : N) : N :=
  if p_v6 p then words16 8 (p_src p) + words16 8 (p_dst p) + l4len / 65536 + l4len mod 65536 + proto
  else words16 2 (p_src p) + words16 2 (p_dst p) + proto + l4len.

(* foldOnceNoInvert: uint16 of the fold loop *)
Definition fold_once_no_invert (sum : N) : N := w16 (fold_loop 2 sum).

Definition ipv4_flags_word (p : pkt) : N := (if p_rsv p then 32768 else 0) + (if p_df p then 16384 else 0).
(* the ten header words with the checksum field zeroed and the total length field set to totlen *)
Definition ipv4_hdr_sum (p : pkt) (totlen : N) : N :=
  (17664 + p_tos p) + totlen + p_id p + ipv4_flags_word p + (p_ttl p * 256 + p_nxt p)
  + words16 2 (p_src p) + words16 2 (p_dst p).
(* ipv4HdrChecksum *)
Definition ipv4_hdr_checksum (p : pkt) (totlen : N) : N := fold_loop_cpl (ipv4_hdr_sum p totlen).

(* ---------------------------------------------------------------------------------------------- *)
(** * Slots, lanes *)

Record slot := mkSlot {
  s_verb : bool;
  s_seed : pkt;            (* rawPkt: the verbatim packet / the seed (never mutated here: the PSH propagate is s_psh) *)
  s_fk : fkey;
  s_hlen : N;
  s_gso : N;
  s_nseg : N;
  s_total : N;
  s_next : N;              (* TCP nextSeq *)
  s_psh : bool;            (* appendPayload OR-ed PSH into rawPkt *)
  s_pays : list (list N);  (* payIovs *)
  s_mem : list staged      (* ghost: the packets folded in, in order *)
}.

Inductive cls := CSealVerb | CKeepVerb | CData.

(* what differs between the TCP and the UDP coalescer *)
Record policy := mkPol {
  pol_parse : pkt -> bool;              (* !fragAny && parseAt succeeds *)
  pol_cls : pkt -> cls;                 (* head of commitParsed *)
  pol_hlen : pkt -> N;                  (* info.hdrLen *)
  pol_can_append : slot -> pkt -> bool;
  pol_closes : slot -> pkt -> bool;     (* appendPayload's result, evaluated on the slot before the append *)
  pol_seed_open : pkt -> bool;          (* seed registers the new slot as open *)
  pol_next : pkt -> N;
  pol_psh : pkt -> bool;
  pol_buf : N;
  pol_l4proto : N;                      (* for the pseudo header *)
  pol_gproto : N                        (* tio.GSOProto: 1 TCP, 2 UDP *)
}.

Record lane := mkLane {
  l_slots : list slot;            (* creation order *)
  l_open : list (fkey * nat);     (* openSlots: flow key -> index into l_slots *)
  l_last : option nat             (* lastSlot *)
}.
Definition lane0 : lane := mkLane [] [] None.

Fixpoint assoc (fk : fkey) (m : list (fkey * nat)) : option nat :=
  match m with
  | [] => None
  | (k, v) :: r => if fkey_eqb k fk then Some v else assoc fk r
  end.
Fixpoint remove_key (fk : fkey) (m : list (fkey * nat)) : list (fkey * nat) :=
  match m with
  | [] => []
  | (k, v) :: r => if fkey_eqb k fk then remove_key fk r else (k, v) :: remove_key fk r
  end.
Definition set_key (fk : fkey) (v : nat) (m : list (fkey * nat)) : list (fkey * nat) := (fk, v) :: remove_key fk m.

Fixpoint upd_nth {A} (i : nat) (x : A) (l : list A) : list A :=
  match l, i with
  | [], _ => []
  | _ :: r, O => x :: r
  | y :: r, S i' => y :: upd_nth i' x r
  end.

Definition last_matches (l : lane) (fk : fkey) : option nat :=
  match l_last l with
  | Some i => match nth_error (l_slots l) i with
              | Some s => if fkey_eqb (s_fk s) fk then Some i else None
              | None => None
              end
  | None => None
  end.

(* sealAllOpen *)
Definition seal_all (l : lane) : lane := mkLane (l_slots l) [] None.

(* sealFlow *)
Definition seal_flow (l : lane) (fk : fkey) : lane :=
  match l_open l with
  | [] => l
  | _ => mkLane (l_slots l) (remove_key fk (l_open l))
                (match last_matches l fk with Some _ => None | None => l_last l end)
  end.

(* the cached-slot lookup at the top of commitParsed *)
Definition find_open (l : lane) (fk : fkey) : option nat :=
  match last_matches l fk with
  | Some i => Some i
  | None => assoc fk (l_open l)
  end.

Definition verb_slot (kp : staged) : slot :=
  mkSlot true (snd kp) (false, 0, 0, 0, 0) 0 0 0 0 0 false [] [kp].

(* addVerbatim *)
Definition add_verbatim (l : lane) (kp : staged) : lane :=
  mkLane (l_slots l ++ [verb_slot kp]) (l_open l) (l_last l).

(* seed *)
Definition seed (pol : policy) (l : lane) (kp : staged) : lane :=
  let p := snd kp in
  let fk := fk_of p in
  if pol_buf pol <? pol_hlen pol p + paylen p then add_verbatim (seal_flow l fk) kp
  else
    let s := mkSlot false p fk (pol_hlen pol p) (paylen p) 1 (paylen p) (pol_next pol p) false [p_pay p] [kp] in
    let idx := length (l_slots l) in
    if pol_seed_open pol p
    then mkLane (l_slots l ++ [s]) (set_key fk idx (l_open l)) (Some idx)
    else seal_flow (mkLane (l_slots l ++ [s]) (l_open l) (l_last l)) fk.

(* appendPayload (the slot update) *)
Definition append_slot (pol : policy) (s : slot) (kp : staged) : slot :=
  let p := snd kp in
  mkSlot false (s_seed s) (s_fk s) (s_hlen s) (s_gso s) (s_nseg s + 1) (s_total s + paylen p) (pol_next pol p)
         (s_psh s || pol_psh pol p) (s_pays s ++ [p_pay p]) (s_mem s ++ [kp]).

(* commitParsed *)
Definition commit_parsed (pol : policy) (l : lane) (kp : staged) : lane :=
  let p := snd kp in
  let fk := fk_of p in
  match pol_cls pol p with
  | CSealVerb => add_verbatim (seal_flow l fk) kp
  | CKeepVerb => add_verbatim l kp
  | CData =>
      match find_open l fk with
      | Some i =>
          match nth_error (l_slots l) i with
          | Some s =>
              if pol_can_append pol s p then
                let l' := mkLane (upd_nth i (append_slot pol s kp) (l_slots l)) (l_open l) (l_last l) in
                if pol_closes pol s p then seal_flow l' fk
                else mkLane (l_slots l') (l_open l') (Some i)
              else seed pol (seal_flow l fk) kp
          | None => seed pol (seal_flow l fk) kp   (* dead: open indexes are valid (Coalesce_inv.lane_ok) *)
          end
      | None => seed pol l kp
      end
  end.

(* commitStaged *)
Definition commit_staged (pol : policy) (l : lane) (kp : staged) : lane :=
  if pol_parse pol (snd kp) then commit_parsed pol l kp
  else add_verbatim (seal_all l) kp.

(* ---------------------------------------------------------------------------------------------- *)
(** * The two protocols *)

Definition tcp_admissible (f : N) : bool :=
  has f coal_flag_ack && (N.ldiff f (N.lor coal_flag_ack (N.lor coal_flag_psh coal_flag_ece)) =? 0).

(* ipHeadersMatch: every compared byte, field by field *)
Definition ip_headers_match (a b : pkt) : bool :=
  Bool.eqb (p_v6 a) (p_v6 b) && (p_tos a =? p_tos b) && (p_flow a =? p_flow b)
  && (p_ttl a =? p_ttl b) && (p_nxt a =? p_nxt b) && Bool.eqb (p_df a) (p_df b) && Bool.eqb (p_rsv a) (p_rsv b)
  && (p_src a =? p_src b) && (p_dst a =? p_dst b).

(* ipv4CanCoalesceID seedHdr nextHdr seg *)
Definition ipv4_can_coalesce_id (sd nx : pkt) (seg : N) : bool :=
  p_df sd || (p_id nx =? w16 (p_id sd + w16 seg)).

(* headersMatch (TCP) *)
Definition tcp_headers_match (a b : pkt) : bool :=
  (tcp_hlen a =? tcp_hlen b) && ip_headers_match a b
  && (p_sport a =? p_sport b) && (p_dport a =? p_dport b)
  && (p_ack a =? p_ack b) && (p_x2 a =? p_x2 b)
  && (p_win a =? p_win b)
  && (p_urg a =? p_urg b) && nlist_eqb (p_opts a) (p_opts b).

(* udpHeadersMatch *)
Definition udp_headers_match (a b : pkt) : bool :=
  (udp_hlen a =? udp_hlen b) && ip_headers_match a b && (p_sport a =? p_sport b) && (p_dport a =? p_dport b).

Definition tcp_can_append (s : slot) (p : pkt) : bool :=
  (tcp_hlen p =? s_hlen s)
  && (p_seq p =? s_next s)
  && (s_nseg s <? coal_tcp_max_segs)
  && (paylen p <=? s_gso s)
  && (s_hlen s + s_total s + paylen p <=? coal_tcp_buf)
  && Bool.eqb (has (p_flags (s_seed s)) coal_flag_ece) (has (p_flags p) coal_flag_ece)
  && (p_v6 (s_seed s) || ipv4_can_coalesce_id (s_seed s) p (s_nseg s))
  && tcp_headers_match (s_seed s) p.

Definition udp_can_append (s : slot) (p : pkt) : bool :=
  (udp_hlen p =? s_hlen s)
  && (s_nseg s <? coal_udp_max_segs)
  && (paylen p <=? s_gso s)
  && (s_hlen s + s_total s + paylen p <=? coal_udp_buf)
  && (p_v6 (s_seed s) || ipv4_can_coalesce_id (s_seed s) p (s_nseg s))
  && udp_headers_match (s_seed s) p.

Definition is_shape (sh : shape) (p : pkt) : bool := shape_eqb (p_shape p) sh.

Definition tcp_pol : policy :=
  mkPol (is_shape ShTcp)
        (fun p => if negb (tcp_admissible (p_flags p)) then CSealVerb
                  else if paylen p =? 0 then CKeepVerb else CData)
        tcp_hlen
        tcp_can_append
        (fun s p => (paylen p <? s_gso s) || has (p_flags p) coal_flag_psh)
        (fun p => negb (has (p_flags p) coal_flag_psh))
        (fun p => w32 (p_seq p + w32 (paylen p)))
        (fun p => has (p_flags p) coal_flag_psh)
        coal_tcp_buf coal_proto_tcp 1.

Definition udp_pol : policy :=
  mkPol (is_shape ShUdp)
        (fun p => if paylen p =? 0 then CSealVerb else CData)
        udp_hlen
        udp_can_append
        (fun s p => paylen p <? s_gso s)
        (fun _ => true)
        (fun _ => 0)
        (fun _ => false)
        coal_udp_buf coal_proto_udp 2.

(* ---------------------------------------------------------------------------------------------- *)
(** * Writes *)

(* one WriteGSO call: the patched header (as a packet without body), the raw length fields, the payload fragments *)
Record gso := mkGso {
  g_proto : N;             (* tio.GSOProto *)
  g_hdr : pkt;             (* header fields as handed over; p_ipck / p_l4ck hold the patched checksum fields *)
  g_iplen : N;             (* IPv4 total length field / IPv6 payload length field *)
  g_udplen : N;            (* UDP length field (0 for TCP) *)
  g_pays : list (list N)
}.
Inductive write := WPlain (p : pkt) | WGso (g : gso).

(* flushSlot *)
Definition render (pol : policy) (s : slot) : gso :=
  let sd := s_seed s in
  let total := s_hlen s + s_total s in
  let l4len := total - iphl sd in
  let lenfield := w16 (if p_v6 sd then l4len else total) in
  let fl := if s_psh s then N.lor (p_flags sd) coal_flag_psh else p_flags sd in
  let ipck := if p_v6 sd then p_ipck sd else ipv4_hdr_checksum sd lenfield in
  let l4ck := fold_once_no_invert (pseudo_sum sd (pol_l4proto pol) l4len) in
  mkGso (pol_gproto pol)
        (with_body (with_cks (with_flags sd fl) ipck l4ck) [] [])
        lenfield
        (if pol_gproto pol =? 2 then w16 l4len else 0)
        (s_pays s).

(* Flush, one slot *)
Definition slot_write (pol : policy) (s : slot) : write :=
  if s_verb s || (s_nseg s =? 1) then WPlain (s_seed s) else WGso (render pol s).

Definition lane_writes (pol : policy) (l : lane) : list write := map (slot_write pol) (l_slots l).
Definition lane_mem (l : lane) : list staged := concat (map s_mem (l_slots l)).

(* ---------------------------------------------------------------------------------------------- *)
(** * MultiCoalescer *)

Fixpoint insert_staged (x : staged) (l : list staged) : list staged :=
  match l with
  | [] => [x]
  | y :: r => if key_leb (fst x) (fst y) then x :: l else y :: insert_staged x r
  end.
(* slices.SortFunc(staged, compareStaged): any sort is a model when the keys are distinct; this one is stable *)
Definition sort_staged (l : list staged) : list staged := fold_right insert_staged [] l.

Inductive lane_id := LTcp | LUdp | LPt.
(* dispatch; tso / uso: which lanes exist (NewTCPCoalescer / NewUDPCoalescer return nil without the capability) *)
Definition lane_of (tso uso : bool) (p : pkt) : lane_id :=
  if p_proto p =? coal_proto_tcp then (if tso then LTcp else LPt)
  else if p_proto p =? coal_proto_udp then (if uso then LUdp else LPt)
  else LPt.

Record mstate := mkM { m_tcp : lane; m_udp : lane; m_pt : list staged }.
Definition m0 : mstate := mkM lane0 lane0 [].

Definition dispatch (tso uso : bool) (m : mstate) (kp : staged) : mstate :=
  match lane_of tso uso (snd kp) with
  | LTcp => mkM (commit_staged tcp_pol (m_tcp m) kp) (m_udp m) (m_pt m)
  | LUdp => mkM (m_tcp m) (commit_staged udp_pol (m_udp m) kp) (m_pt m)
  | LPt => mkM (m_tcp m) (m_udp m) (m_pt m ++ [kp])
  end.

(* Commit* ; Flush, up to the lane flushes *)
Definition run (tso uso : bool) (batch : list staged) : mstate :=
  fold_left (dispatch tso uso) (sort_staged batch) m0.

(* what Flush hands to the tun writer, in call order *)
Definition writes_of (m : mstate) : list write :=
  lane_writes tcp_pol (m_tcp m) ++ lane_writes udp_pol (m_udp m) ++ map (fun kp => WPlain (snd kp)) (m_pt m).
Definition coalesce (tso uso : bool) (batch : list staged) : list write := writes_of (run tso uso batch).

(* ghost: the staged packets in the order in which they are delivered *)
Definition attrib_of (m : mstate) : list staged := lane_mem (m_tcp m) ++ lane_mem (m_udp m) ++ m_pt m.
Definition attribution (tso uso : bool) (batch : list staged) : list staged := attrib_of (run tso uso batch).

(* ---------------------------------------------------------------------------------------------- *)
(** * The kernel side: TSO / USO segmentation of one write *)

(* payload cut into pieces of n bytes, the last one possibly shorter (fuel = |l| suffices for n >= 1) *)
Fixpoint chunk_fuel (fuel n : nat) (l : list N) : list (list N) :=
  match fuel with
  | O => []
  | S f => match l with
           | [] => []
           | _ => firstn n l :: chunk_fuel f n (skipn n l)
           end
  end.
Definition chunk (n : nat) (l : list N) : list (list N) := chunk_fuel (length l) n l.

(* tcp_gso_segment: FIN and PSH survive only on the last segment, CWR only on the first *)
Definition seg_flags (f : N) (first last : bool) : N :=
  let f1 := if last then f else N.ldiff f 9 in
  if first then f1 else N.ldiff f1 128.
(* inet_gso_segment: the IPv4 ID counts up from the superpacket's *)
Definition seg_id (h : pkt) (i : N) : N := if p_v6 h then p_id h else w16 (p_id h + i).

(* segment i of a superpacket: the header replicated, sequence number advanced by i * gso_size, lengths and
   checksums recomputed (the abstract packet has no length fields; the recomputed checksums are written as 0,
   [approx] does not look at them) *)
Definition seg_pkt (g : gso) (gs i : N) (first last : bool) (c : list N) : pkt :=
  let h := g_hdr g in
  let h1 := if g_proto g =? 1
            then with_seq (with_flags h (seg_flags (p_flags h) first last)) (w32 (p_seq h + i * gs))
            else h in
  with_body (with_cks (with_id h1 (seg_id h i)) 0 0) c [].

Fixpoint segs_from (g : gso) (gs i : N) (cs : list (list N)) : list pkt :=
  match cs with
  | [] => []
  | c :: r => seg_pkt g gs i (i =? 0) (match r with [] => true | _ => false end) c :: segs_from g gs (i + 1) r
  end.

(* gso_size as Offload.WriteGSO stamps it into the virtio_net_hdr: the length of the first fragment *)
Definition gso_size (g : gso) : nat := length (hd [] (g_pays g)).

Definition kernel_segment (w : write) : list pkt :=
  match w with
  | WPlain p => [p]
  | WGso g => segs_from g (N.of_nat (gso_size g)) 0 (chunk (gso_size g) (concat (g_pays g)))
  end.

(* what the tun device's IP stack sees for a batch *)
Definition tun_view (ws : list write) : list pkt := concat (map kernel_segment ws).

(* ---------------------------------------------------------------------------------------------- *)
(** * Vocabulary of the order and geometry statements *)

(* same flow: same lane protocol and same {family, addresses, ports} *)
Definition same_flow (a b : pkt) : bool := (p_proto a =? p_proto b) && fkey_eqb (fk_of a) (fk_of b).

(* the one exception to per-flow order: a parseable pure TCP ACK (ACK, optionally PSH / ECE, no payload) *)
Definition pure_ack (p : pkt) : bool :=
  (p_proto p =? coal_proto_tcp) && is_shape ShTcp p && tcp_admissible (p_flags p) && (paylen p =? 0).

Fixpoint all_but_last {A} (f : A -> bool) (l : list A) : bool :=
  match l with
  | [] => true
  | [_] => true
  | x :: r => f x && all_but_last f r
  end.

Definition sum_lens (l : list (list N)) : N := fold_right (fun x acc => N.of_nat (length x) + acc) 0 l.

(* the geometry the kernel (and Offload.WriteGSO) accepts, and consistency of the header length fields *)
Definition geometry_okb (g : gso) : bool :=
  let h := g_hdr g in
  let gs := N.of_nat (gso_size g) in
  let n := N.of_nat (length (g_pays g)) in
  let hl := if g_proto g =? 1 then tcp_hlen h else udp_hlen h in
  let maxsegs := if g_proto g =? 1 then coal_tcp_max_segs else coal_udp_max_segs in
  let total := hl + sum_lens (g_pays g) in
  (2 <=? n) && (n <=? maxsegs) && (1 <=? gs)
  && all_but_last (fun x => N.of_nat (length x) =? gs) (g_pays g)
  && (1 <=? N.of_nat (length (last (g_pays g) []))) && (N.of_nat (length (last (g_pays g) [])) <=? gs)
  && (total <=? 65535)
  && (g_iplen g =? (if p_v6 h then total - 40 else total))
  && (g_udplen g =? (if g_proto g =? 2 then total - iphl h else 0))
  && ((g_proto g =? 1) || (g_proto g =? 2))
  && (if g_proto g =? 1 then is_shape ShTcp h else is_shape ShUdp h).

(* the checksum fields of a superpacket header: the L4 field holds the folded, not inverted pseudo-header sum
   over the total L4 length (virtio NEEDS_CSUM), the IPv4 header checksum verifies *)
Definition seeds_okb (g : gso) : bool :=
  let h := g_hdr g in
  let hl := if g_proto g =? 1 then tcp_hlen h else udp_hlen h in
  let total := hl + sum_lens (g_pays g) in
  (p_l4ck h =? fold16 (pseudo_sum h (if g_proto g =? 1 then 6 else 17) (total - iphl h)))
  && (p_v6 h || (fold16 (ipv4_hdr_sum h (g_iplen g) + p_ipck h) =? 65535)).

(* Model of the connection tracking part of /repo/firewall.go: conn, FirewallConntrack, Firewall.Drop, inConns
   (with the idle-expiry check of the F4 repair and the rules-version revalidation), addConn, evict; and of how
   newPacket (outside.go) orients a wire packet to the node. Executable definitions only.

   What is abstract (Section variables, instantiated by the correspondence with tables computed by the real code):
     allowed rs peer incoming t : the verdict of FirewallTable.match of rule set [rs] (InRules if [incoming], else
                                  OutRules) on packet [t] for the certificate of [peer]           (C16's subject)
     addr_ok rs peer t          : the two address checks at the top of Drop                      (C17's subject)
   Rule sets and peers are identified by numbers.

   Time: instants and durations are nanoseconds (Z), as in model/Wheel.v. Drop reads time.Now() several times;
   under the virtual clock of the correspondence (testing/synctest) all reads inside one Drop return the same
   instant [now], and that is how the model is written.

   [drop] is Drop with a nil routine cache. [drop_c] is Drop with a routine-local ConntrackCache (firewall/cache.go):
   a set of tuples consulted before the table; a hit passes the packet without touching the table (no expiry check,
   no revalidation, no refresh of Expires); a tuple enters the cache only at the end of inConns, i.e. on a table hit
   that was not expired and passed revalidation (addConn does not fill it). The cache is emptied when its ticker
   has fired (model/FwReload.v). *)
From Coq Require Import List ZArith NArith Bool.
Import ListNotations.
From NV Require Import model.Wheel gen.Consts_Conntrack.

(* firewall.Packet: LocalAddr, RemoteAddr, LocalPort, RemotePort, Protocol, Fragment. Addresses are numbers
   (IPv4: the 32-bit value; IPv6: 2^128 + the 128-bit value). The Go map key is the whole struct. *)
Definition tuple := (N * N * N * N * N * bool)%type.

Definition tuple_eqb (a b : tuple) : bool :=
  let '(a1, a2, a3, a4, a5, a6) := a in
  let '(b1, b2, b3, b4, b5, b6) := b in
  N.eqb a1 b1 && N.eqb a2 b2 && N.eqb a3 b3 && N.eqb a4 b4 && N.eqb a5 b5 && Bool.eqb a6 b6.

Definition t_proto (t : tuple) : N := let '(_, _, _, _, p, _) := t in p.

(* A packet as it is on the wire: source, destination, the two 16-bit words after the IP header (source and
   destination port; for ICMP the second one stands for the echo identifier), protocol, "is a later fragment". *)
Definition wire := (N * N * N * N * N * bool)%type.

(* newPacket: "Firewall packets are locally oriented". Later fragments carry no ports; for ICMP the local port
   is 0 and the remote port the identifier in both directions; otherwise the ports follow the addresses. *)
Definition orient (incoming : bool) (w : wire) : tuple :=
  let '(src, dst, sp, dp, proto, frag) := w in
  let l := if incoming then dst else src in
  let r := if incoming then src else dst in
  if frag then (l, r, 0%N, 0%N, proto, true)
  else if N.eqb proto ProtoICMP then (l, r, 0%N, dp, proto, false)
  else if incoming then (l, r, dp, sp, proto, false)
  else (l, r, sp, dp, proto, false).

(* the packet travelling the other way *)
Definition reverse (w : wire) : wire :=
  let '(src, dst, sp, dp, proto, frag) := w in
  if N.eqb proto ProtoICMP then (dst, src, sp, dp, proto, frag) else (dst, src, dp, sp, proto, frag).

(* type conn struct { Expires; incoming; rulesVersion } *)
Record conn := mkConn { c_exp : Z; c_in : bool; c_ver : N }.

(* Conns map[firewall.Packet]*conn as an association list; [cset] replaces, [cdel] removes. *)
Definition cmap := list (tuple * conn).

Fixpoint cfind (k : tuple) (m : cmap) : option conn :=
  match m with
  | [] => None
  | (k', v) :: r => if tuple_eqb k k' then Some v else cfind k r
  end.
Definition cdel (k : tuple) (m : cmap) : cmap := filter (fun kv => negb (tuple_eqb k (fst kv))) m.
Definition cset (k : tuple) (v : conn) (m : cmap) : cmap := (k, v) :: cdel k m.

(* The fields of Firewall that Drop reads: which rule set is loaded, rulesVersion, the three timeouts. *)
Record fwcfg := mkFw { f_rules : N; f_ver : N; f_tcp : Z; f_udp : Z; f_def : Z }.

(* switch fp.Protocol { case ProtoTCP: TCPTimeout; case ProtoUDP: UDPTimeout; default: DefaultTimeout } *)
Definition timeout_of (fw : fwcfg) (t : tuple) : Z :=
  if N.eqb (t_proto t) ProtoTCP then f_tcp fw
  else if N.eqb (t_proto t) ProtoUDP then f_udp fw
  else f_def fw.

(* FirewallConntrack: Conns + TimerWheel *)
Record ctrack := mkCt { ct_conns : cmap; ct_wheel : wheel tuple }.

(* NewFirewall: tmin/tmax over the three timeouts, NewTimerWheel(tmin, tmax), empty table *)
Definition wheel_min (tcp udp def : Z) : Z :=
  let tmin := if (tcp <? udp)%Z then tcp else udp in
  if (def <? tmin)%Z then def else tmin.
Definition wheel_max (tcp udp def : Z) : Z :=
  let tmin := if (tcp <? udp)%Z then tcp else udp in
  let tmax := if (tcp <? udp)%Z then udp else tcp in
  if (def <? tmin)%Z then tmax else if (tmax <? def)%Z then def else tmax.
Definition new_ct (tcp udp def : Z) : ctrack := mkCt [] (init (wheel_min tcp udp def) (wheel_max tcp udp def)).

(* evict(p): not tracked any more -> nothing; Expires not in the past (Expires - now >= 0, F24 repair: the same
   boundary as the lookup) -> Advance + re-Add with the remaining time; otherwise (Expires < now) delete the entry. *)
Definition evict (now : Z) (p : tuple) (ct : ctrack) : ctrack :=
  match cfind p (ct_conns ct) with
  | None => ct
  | Some c =>
      let newT := (c_exp c - now)%Z in
      if (0 <=? newT)%Z then mkCt (ct_conns ct) (add p newT (advance now (ct_wheel ct)))
      else mkCt (cdel p (ct_conns ct)) (ct_wheel ct)
  end.

Section Drop.
Variable allowed : N -> N -> bool -> tuple -> bool.
Variable addr_ok : N -> N -> tuple -> bool.

(* inConns with localCache = nil. Order, as in the code: one Purge (+ evict of what it returned); table lookup;
   idle-expiry check `now.After(c.Expires)` (a miss that advances the wheel, F4 repair); rules-version
   revalidation in the entry's ORIGINAL direction (kept and re-stamped, or deleted and a miss); refresh.
   [pre_purge] is the Purge/evict prologue, [look] the rest. *)
Definition pre_purge (now : Z) (ct : ctrack) : ctrack :=
  let (ep, w1) := purge (ct_wheel ct) in
  match ep with
  | Some p => evict now p (mkCt (ct_conns ct) w1)
  | None => mkCt (ct_conns ct) w1
  end.

Definition look (fw : fwcfg) (peer : N) (now : Z) (t : tuple) (ct1 : ctrack) : bool * ctrack :=
  match cfind t (ct_conns ct1) with
  | None => (false, ct1)
  | Some c =>
      if (c_exp c <? now)%Z then (false, mkCt (ct_conns ct1) (advance now (ct_wheel ct1)))
      else if negb (N.eqb (c_ver c) (f_ver fw)) && negb (allowed (f_rules fw) peer (c_in c) t)
      then (false, mkCt (cdel t (ct_conns ct1)) (ct_wheel ct1))
      else (true, mkCt (cset t (mkConn (now + timeout_of fw t) (c_in c) (f_ver fw)) (ct_conns ct1)) (ct_wheel ct1))
  end.

Definition in_conns (fw : fwcfg) (peer : N) (now : Z) (t : tuple) (ct : ctrack) : bool * ctrack :=
  look fw peer now t (pre_purge now ct).

(* addConn: a new wheel item only if the table has no entry; the entry is (over)written. *)
Definition add_conn (fw : fwcfg) (now : Z) (t : tuple) (incoming : bool) (ct : ctrack) : ctrack :=
  let T := timeout_of fw t in
  let w := match cfind t (ct_conns ct) with
           | None => add t T (advance now (ct_wheel ct))
           | Some _ => ct_wheel ct
           end in
  mkCt (cset t (mkConn (now + T) incoming (f_ver fw)) (ct_conns ct)) w.

(* Drop: true = the packet passes (Drop returned nil). Address checks first (no state touched when they fail),
   then the tracked flows, then the rule table of the packet's direction; an allowed packet is tracked. *)
Definition drop (fw : fwcfg) (peer : N) (now : Z) (incoming : bool) (t : tuple) (ct : ctrack) : bool * ctrack :=
  if negb (addr_ok (f_rules fw) peer t) then (false, ct)
  else
    let (hit, ct1) := in_conns fw peer now t ct in
    if hit then (true, ct1)
    else if allowed (f_rules fw) peer incoming t then (true, add_conn fw now t incoming ct1)
    else (false, ct1).

(* the routine cache: map[firewall.Packet]struct{} *)
Definition in_cache (t : tuple) (ch : list tuple) : bool := existsb (tuple_eqb t) ch.

(* Drop with a non-nil routine cache ch *)
Definition drop_c (fw : fwcfg) (peer : N) (now : Z) (incoming : bool) (t : tuple) (ch : list tuple) (ct : ctrack)
  : bool * list tuple * ctrack :=
  if negb (addr_ok (f_rules fw) peer t) then (false, ch, ct)
  else if in_cache t ch then (true, ch, ct)
  else
    let (hit, ct1) := in_conns fw peer now t ct in
    if hit then (true, t :: ch, ct1)
    else if allowed (f_rules fw) peer incoming t then (true, ch, add_conn fw now t incoming ct1)
    else (false, ch, ct1).

End Drop.

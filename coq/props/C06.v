(* C06  Completed handshakes agree on keys and indexes.  Property theorems only.

   [honest_exchange cI cR vI vR] runs nebula's Machine over the symbolic Noise model: an initiator built from
   configuration cI (credentials per certificate version, verifier, index allocator, ephemeral, cipher) in version vI
   calls Initiate, the responder built from cR / vR processes message 1 unmodified and answers, the initiator
   processes message 2 unmodified; Some (initiator Result, responder Result, message 1, message 2) iff both complete.
   Everything is universally quantified: cipher, curve, which certificate versions either node holds and starts in
   (so every version negotiation), key and index values. *)
From Coq Require Import List NArith Bool.
Import ListNotations.
From NV Require Import lib.Sym model.Noise model.Machine proofs.Noise_struct proofs.Noise_c06.
Open Scope N_scope.

Theorem C06_agree : forall cI cR vI vR rI rR p1 p2,
  honest_keys cI -> honest_keys cR -> same_suite cI cR ->
  honest_exchange cI cR vI vR = Some (rI, rR, p1, p2) ->
  (* each side's sending key is the other side's receiving key, and differs from its own receiving key *)
  r_ekey rI = r_dkey rR /\ r_dkey rI = r_ekey rR /\ r_ekey rI <> None /\ r_dkey rI <> None /\
  r_ekey rI <> r_dkey rI /\ r_ekey rR <> r_dkey rR /\
  (* indexes: remote = the peer's local, local = what the own allocator returned, never zero *)
  r_remote_idx rI = r_local_idx rR /\ r_remote_idx rR = r_local_idx rI /\
  c_alloc cI = Some (r_local_idx rI) /\ c_alloc cR = Some (r_local_idx rR) /\
  r_local_idx rI <> 0 /\ r_local_idx rR <> 0 /\
  (* message counts *)
  r_msgidx rI = 2 /\ r_msgidx rR = 2 /\ r_initiator rI = true /\ r_initiator rR = false /\
  (* packet headers: message 1 carries index 0 and counter 1, message 2 the initiator's index and counter 2 *)
  pk_ri p1 = 0 /\ pk_ctr p1 = 1 /\ pk_ri p2 = r_local_idx rI /\ pk_ctr p2 = 2 /\
  (* each side reports a certificate recombined with the other's static key *)
  (exists b, r_remote_cert rI = Some (b, Pub (c_spriv cR))) /\ (exists b, r_remote_cert rR = Some (b, Pub (c_spriv cI))).
Proof. exact honest_agree. Qed.
Print Assumptions C06_agree.

(* The shared secret both sides split: the chaining key after mixing DH(eI,eR), DH(sI,eR) and DH(eI,sR), each of
   which the two sides compute from different halves (DH commutativity is the only equation of the term algebra). *)
Theorem C06_dh_commutes : forall a b, dh a (Pub b) = dh b (Pub a).
Proof. exact dh_comm. Qed.
Print Assumptions C06_dh_commutes.

(* The hypotheses are satisfiable, and the exchange completes (with agreement re-checked by computation) for every
   combination the model distinguishes: 2 curves x 2 ciphers x initiator {v1 only, v2 only, both starting in v1, both
   starting in v2} x responder likewise; a responder holding both versions answers in the initiator's version. *)
Example C06_nonvacuous :
  C06Ex.all_combinations = true /\ C06Ex.negotiated = true /\
  honest_keys (C06Ex.node 1 3 0 0 5 501 C06Ex.trust) /\ honest_keys (C06Ex.node 2 3 0 0 6 502 C06Ex.trust) /\
  same_suite (C06Ex.node 1 3 0 0 5 501 C06Ex.trust) (C06Ex.node 2 3 0 0 6 502 C06Ex.trust).
Proof. split; [vm_compute; reflexivity|]. split; [vm_compute; reflexivity|]. exact C06Ex.cfg_honest. Qed.

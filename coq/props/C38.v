(* C38  Allow lists use longest-prefix semantics with a safe default.  Property theorems only.

   Vocabulary (model/AllowList.v, proofs/AllowList_proofs.v):
     es            the configured map as visited: list of (key, value); a key is (family, address, bits)
     norm_all es   the keys after parseAllowListCIDR (IPv4-mapped /n, n >= 96, becomes the IPv4 /(n-96))
     most_specific l x p v   (p, v) is in l, p contains x, and no entry of l containing x is longer than p
     consistent l  two entries for the same (masked) network carry the same value
     unmap x       an IPv4-mapped IPv6 address is looked up as its IPv4 address *)
From Coq Require Import List NArith Bool Permutation.
Import ListNotations.
From NV Require Import model.AllowList proofs.AllowList_proofs.
Open Scope N_scope.

(* The answer is the value of the most specific configured entry containing the address. *)
Theorem C38_lpm : forall es nes t x p v,
  new_allow_list es = Some t -> norm_all es = Some nes -> consistent nes ->
  most_specific nes (unmap x) p v -> allow t x = v.
Proof. intros es nes t x p v. apply allow_lpm. Qed.
Print Assumptions C38_lpm.

(* No configured entry contains the address: the family has no /0, all its values are the same, and the
   answer is the opposite of that value; a family without any entry allows. *)
Theorem C38_default : forall es nes t x,
  new_allow_list es = Some t -> norm_all es = Some nes -> wf_addr x = true ->
  (forall q w, In (q, w) nes -> contains q (unmap x) = false) ->
  (forall q w, In (q, w) nes -> pfam q = fst (unmap x) -> allow t x = negb w) /\
  ((forall q w, In (q, w) nes -> pfam q <> fst (unmap x)) -> allow t x = true).
Proof. intros es nes t x. apply allow_default_in. Qed.
Print Assumptions C38_default.

(* A list is refused exactly when a key is refused or some family mixes allow and deny without a /0. *)
Theorem C38_mixed_refused : forall es,
  new_allow_list es = None <->
  norm_all es = None \/ exists nes f, norm_all es = Some nes /\ mixed_no_default nes f.
Proof. exact new_refused_iff. Qed.
Print Assumptions C38_mixed_refused.

(* ... and a key is refused exactly when it is not a prefix or is IPv4-mapped and shorter than /96. *)
Theorem C38_key_refused : forall es,
  norm_all es = None <->
  exists k v, In (k, v) es /\
    (wf_prefix k = false \/ (is_mapped (pfam k, paddr k) = true /\ pbits k < 96)).
Proof. exact norm_all_refused_iff. Qed.
Print Assumptions C38_key_refused.

(* A value that is not a boolean refuses the list; otherwise the rules above decide. *)
Theorem C38_value_refused : forall res,
  new_allow_list_raw res = None <->
  (exists k, In (k, None) res) \/
  exists es, res = map (fun e => (fst e, Some (snd e))) es /\ new_allow_list es = None.
Proof. exact raw_refused_iff. Qed.
Print Assumptions C38_value_refused.

(* The result does not depend on the order in which the map is visited (any permutation). *)
Theorem C38_order : forall es es',
  Permutation es es' ->
  (new_allow_list es = None <-> new_allow_list es' = None) /\
  (forall nes t t' x, norm_all es = Some nes -> consistent nes ->
     new_allow_list es = Some t -> new_allow_list es' = Some t' -> wf_addr x = true ->
     allow t x = allow t' x).
Proof. exact order_both. Qed.
Print Assumptions C38_order.

(* The consistency hypothesis excludes exactly this: one network written twice (here 10.0.0.0/8 and
   ::ffff:10.0.0.0/104) with different values is answered by whichever spelling is visited last. *)
Theorem C38_order_refuted :
  exists es es' t t' x, Permutation es es' /\ new_allow_list es = Some t /\ new_allow_list es' = Some t' /\
    wf_addr x = true /\ allow t x <> allow t' x.
Proof. exact order_refuted. Qed.
Print Assumptions C38_order_refuted.

(* IPv4-mapped: ::ffff:a/(96+n) is the IPv4 prefix a/n, shorter mapped keys are refused, and a mapped address is
   answered as its IPv4 address. *)
Theorem C38_mapped : forall a,
  a < 2 ^ 32 ->
  (forall n, n <= 32 -> norm_key (V6, 65535 * 2 ^ 32 + a, 96 + n) = Some (V4, a, n)) /\
  (forall n, n < 96 -> norm_key (V6, 65535 * 2 ^ 32 + a, n) = None) /\
  (forall t, allow t (V6, 65535 * 2 ^ 32 + a) = allow t (V4, a)).
Proof.
  intros a Ha. split; [intros n; now apply mapped_key|]. split; [intros n; now apply mapped_key_short|].
  intros t. rewrite allow_unmap, (mapped_addr a Ha). reflexivity.
Qed.
Print Assumptions C38_mapped.

(* RemoteAllowList.Allow is the conjunction of the inside-range list of the peer's overlay address and the
   global list; AllowAll is the global list and every overlay address's inside list, i.e. Allow for every
   address; AllowUnknownVpnAddr is the global list. *)
Theorem C38_remote_and : forall g rg vpn vpns udp,
  remote_allow g rg vpn udp = allow_opt (inside_of rg vpn) udp && allow_opt g udp /\
  allow_all g rg vpns udp = allow_opt g udp && forallb (fun v => allow_opt (inside_of rg v) udp) vpns /\
  (vpns <> [] -> allow_all g rg vpns udp = forallb (fun v => remote_allow g rg v udp) vpns) /\
  allow_unknown g vpn = allow_opt g vpn.
Proof.
  intros. split; [apply remote_allow_and|]. split; [apply allow_all_spec|]. split; [apply allow_all_remote|reflexivity].
Qed.
Print Assumptions C38_remote_and.

(* The inside list is that of the most specific configured range containing the (unmapped) overlay address;
   with no containing range (or no ranges at all) there is none, and a missing list allows. *)
Theorem C38_inside : forall rs rg,
  new_remote_ranges rs = Some rg ->
  (forall p t, In (p, t) rg <->
     exists k es, In (k, es) rs /\ norm_key k = Some p /\ new_allow_list es = Some t) /\
  (forall vpn p t, consistent rg -> most_specific rg (unmap vpn) p t -> inside_of (Some rg) vpn = Some t) /\
  (forall vpn, inside_of (Some rg) vpn = None <-> forall p t, In (p, t) rg -> contains p (unmap vpn) = false) /\
  (forall vpn udp, inside_of None vpn = None /\ allow_opt None udp = true).
Proof.
  intros rs rg H. split; [now apply ranges_in|]. split; [intros vpn p t; apply inside_lpm|].
  split; [intros vpn; apply inside_none|]. intros; split; reflexivity.
Qed.
Print Assumptions C38_inside.

Theorem C38_ranges_refused : forall rs,
  new_remote_ranges rs = None <->
  exists k es, In (k, es) rs /\ (norm_key k = None \/ new_allow_list es = None).
Proof. exact ranges_refused. Qed.
Print Assumptions C38_ranges_refused.

Theorem C38_ranges_order : forall rs rs',
  Permutation rs rs' ->
  (new_remote_ranges rs = None -> new_remote_ranges rs' = None) /\
  (forall rg rg' vpn, new_remote_ranges rs = Some rg -> new_remote_ranges rs' = Some rg' -> consistent rg ->
     inside_of (Some rg) vpn = inside_of (Some rg') vpn).
Proof.
  intros rs rs' P. split; [now apply ranges_refused_perm|]. intros rg rg' vpn. now apply ranges_perm.
Qed.
Print Assumptions C38_ranges_order.

(* Interface name rules, for every regexp compiler [valid] and matcher [matches]: accepted rule sets are kept as
   configured, every pattern compiles and all values are the same; refused otherwise. *)
Theorem C38_names_accept : forall (P : Type) (valid : P -> bool) (rs rules : list (P * bool)),
  (new_name_rules valid rs = Some rules ->
     rules = rs /\ (forall p a, In (p, a) rs -> valid p = true) /\
     (forall p a q b, In (p, a) rs -> In (q, b) rs -> a = b)) /\
  (new_name_rules valid rs = None <->
     (exists p a, In (p, a) rs /\ valid p = false) \/ (exists p q, In (p, true) rs /\ In (q, false) rs)).
Proof. intros. split; [apply new_names_some|apply new_names_refused]. Qed.
Print Assumptions C38_names_accept.

(* AllowName: a name matched by some rule gets the rules' common value (so the first matching rule and every other
   matching rule agree), an unmatched name gets the opposite, and without rules every name is allowed. *)
Theorem C38_names : forall (P Nm : Type) (matches : P -> Nm -> bool) (rules : list (P * bool)) (nm : Nm) (u : bool),
  (forall q b, In (q, b) rules -> b = u) ->
  (forall p a, In (p, a) rules -> matches p nm = true -> allow_name matches rules nm = u) /\
  (forall p a, In (p, a) rules -> (forall q b, In (q, b) rules -> matches q nm = false) ->
     allow_name matches rules nm = negb u) /\
  allow_name matches [] nm = true.
Proof.
  intros P Nm matches rules nm u Hu. split; [intros p a; now apply allow_name_match|].
  split; [intros p a; now apply allow_name_nomatch|reflexivity].
Qed.
Print Assumptions C38_names.

Theorem C38_names_order : forall (P Nm : Type) (valid : P -> bool) (matches : P -> Nm -> bool) rs rs',
  Permutation rs rs' ->
  (new_name_rules valid rs = None -> new_name_rules valid rs' = None) /\
  (forall rules rules' nm, new_name_rules valid rs = Some rules -> new_name_rules valid rs' = Some rules' ->
     allow_name matches rules nm = allow_name matches rules' nm).
Proof.
  intros P Nm valid matches rs rs' Pm. split; [now apply names_refused_perm|].
  intros rules rules' nm. now apply names_perm.
Qed.
Print Assumptions C38_names_order.

(* The hypotheses are satisfiable on a non-trivial list:
   {0.0.0.0/0: false, 10.0.0.0/8: true, ::ffff:10.42.0.0/112: false, fd00::/8: false}. *)
Example C38_nonvacuous :
  let es := [((V4, 0, 0), false); ((V4, 167772160, 8), true); ((V6, 65535 * 2 ^ 32 + 170524672, 112), false);
             ((V6, 336294682933583715844663186250927177728, 8), false)] in
  exists t, new_allow_list es = Some t /\
    norm_all es = Some [((V4, 0, 0), false); ((V4, 167772160, 8), true); ((V4, 170524672, 16), false);
                        ((V6, 336294682933583715844663186250927177728, 8), false)] /\
    allow t (V4, 167837955) = true /\                       (* 10.1.2.3: the /8 *)
    allow t (V4, 170524673) = false /\                      (* 10.42.0.1: the mapped /16 inside it *)
    allow t (V6, 65535 * 2 ^ 32 + 170524673) = false /\     (* the same address written ::ffff:10.42.0.1 *)
    allow t (V4, 184549377) = false /\                      (* 11.0.0.1: the explicit /0 *)
    allow t (V6, 1) = true /\                               (* ::1: implied IPv6 default, opposite of false *)
    allow t (V6, 336294682933583715844663186250927177729) = false.  (* fd00::1 *)
Proof. eexists. vm_compute. repeat split; reflexivity. Qed.

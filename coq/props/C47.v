(* C47  The packet header encoding is exact.  Property theorems only. *)
From Coq Require Import List NArith.
Import ListNotations.
From NV Require Import lib.Bytes gen.Tab_Header model.Header proofs.Header_proofs.
Open Scope N_scope.

(* Encoding then parsing returns the same fields, reserved = 0, whatever follows the 16 bytes. *)
Theorem C47_roundtrip : forall v t st ri c tail,
  v < 16 -> t < 16 -> st < 256 -> ri < 2 ^ 32 -> c < 2 ^ 64 ->
  length (encode v t st ri c) = 16%nat /\
  parse (encode v t st ri c ++ tail) = Some (mkHdr v t st 0 ri c).
Proof. intros; split; [apply encode_length|now apply roundtrip]. Qed.
Print Assumptions C47_roundtrip.

(* Shorter input is refused, and nothing else is. *)
Theorem C47_short_refused : forall b, parse b = None <-> (length b < 16)%nat.
Proof. exact parse_none_iff. Qed.
Print Assumptions C47_short_refused.

(* The result depends on the first 16 bytes only. *)
Theorem C47_reads_16 : forall b, (16 <= length b)%nat -> parse b = parse (firstn 16 b).
Proof. exact parse_prefix. Qed.
Print Assumptions C47_reads_16.

(* Exactly the documented type/subtype combinations are valid (over the table generated from the
   real IsValidSubType on all 65536 pairs). *)
Theorem C47_valid_subtypes : forall t s, is_valid_subtype t s = true <-> In (t, s) documented_pairs.
Proof. exact is_valid_iff. Qed.
Print Assumptions C47_valid_subtypes.

Example C47_nonvacuous :
  parse (encode 1 5 0 4242 77 ++ [9; 9]) = Some (mkHdr 1 5 0 0 4242 77) /\ is_valid_subtype 5 0 = true.
Proof. vm_compute. split; reflexivity. Qed.

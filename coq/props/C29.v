(* C29  Local tunnel indexes are unique and never zero.  Property theorems only.
   Model: model/HostMap.v (allocateIndex / generateIndex / CheckAndComplete / Complete / AddRelay and the
   delete paths), tied to /repo by corr/HostMap_corr.v (harness `hostmap_idx`).  Candidate streams are arbitrary
   lists of 32-bit values - zeros, repeats and collisions included. *)
From Coq Require Import List NArith.
Import ListNotations.
From NV Require Import gen.Consts_HostMap model.HostMap proofs.HostMap_props.
Open Scope N_scope.

(* After any history: 0 is in none of the index maps; no index is in both the pending and the main map; every
   entry is keyed by the local index of the tunnel it points to; a relay index of a live tunnel maps to it. *)
Theorem C29_unique_nonzero : forall ops, IDX (run init ops).
Proof. exact idx_reachable. Qed.
Print Assumptions C29_unique_nonzero.

(* hence two different tunnels held at the same time (pending or established) never carry the same index *)
Theorem C29_distinct_tunnels_distinct_indexes : forall ops h1 h2 hi1 hi2,
  let s := run init ops in
  holder s h1 -> holder s h2 -> mget h1 (infos s) = Some hi1 -> mget h2 (infos s) = Some hi2 ->
  hi_local hi1 = hi_local hi2 -> h1 = h2.
Proof. intros ops h1 h2 hi1 hi2 s. apply holders_distinct, idx_reachable. Qed.
Print Assumptions C29_distinct_tunnels_distinct_indexes.

(* Every index handed out is non-zero and not held in its namespace at that moment - in every state and for
   every candidate stream. *)
Theorem C29_handed_out_pending : forall s id cs s' i,
  step (OAlloc id cs) s = (s', RIdx (Some i)) -> i <> 0 /\ held s i = None.
Proof. exact alloc_handed_out. Qed.
Print Assumptions C29_handed_out_pending.

Theorem C29_handed_out_responder : forall s id addrs remote cs s' i,
  step (OResp id addrs remote cs) s = (s', RResp 0 i) -> i <> 0 /\ held s i = None.
Proof. exact resp_handed_out. Qed.
Print Assumptions C29_handed_out_responder.

Theorem C29_handed_out_relay : forall s id peer cs s' i,
  step (OAddRelay id peer cs) s = (s', RIdx (Some i)) -> i <> 0 /\ mget i (rel s) = None.
Proof. exact relay_handed_out. Qed.
Print Assumptions C29_handed_out_relay.

(* In every step of every history an index leaves the pending+main namespace, or the relay namespace, only
   together with the tunnel that owned it (that tunnel is then referenced by no map at all), and a RemoteIndexes
   entry disappears only together with the tunnel it pointed to. *)
Theorem C29_release_only_owner : forall ops o,
  RELEASE (run init ops) (fst (step o (run init ops))).
Proof. intros ops o. apply step_RELEASE, HostMap_ops.good_reachable. Qed.
Print Assumptions C29_release_only_owner.

(* the executable forms evaluated on the implementation's dumps are implied by the propositions *)
Theorem C29_exec : forall ops o,
  idxb (run init ops) = true /\ releaseb (run init ops) (fst (step o (run init ops))) = true.
Proof.
  intros ops o. split; [apply idxb_of_IDX, idx_reachable|apply releaseb_of_RELEASE, step_RELEASE, HostMap_ops.good_reachable].
Qed.
Print Assumptions C29_exec.

(* Non-vacuity: zeros are skipped, a candidate colliding with the main or the pending map is skipped, a
   responder index colliding with a pending index is refused, a stale delete leaves the new owner's entry. *)
Example C29_nonvacuous :
  let s1 := run init [OResp 1 [1] 7 [0; 5]; OStart 2 2; OAlloc 2 [0; 5; 0; 6]; OStart 3 3] in
  snd (step (OAlloc 3 [5; 6; 0; 0; 9]) s1) = RIdx (Some 9) /\
  snd (step (OResp 4 [4] 7 [6]) s1) = RResp 1 6 /\
  snd (step (OAddRelay 1 9 [0; 0; 3]) s1) = RIdx (Some 3) /\
  let s2 := run s1 [ODelete 1; OResp 5 [5] 8 [5]; ODelete 1] in
  mget 5 (idx s2) = Some 5 /\ mget 6 (pidx s2) = Some 2.
Proof. vm_compute. repeat split; reflexivity. Qed.

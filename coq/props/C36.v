(* C36  Unusable underlay addresses are never used.  Property theorems only.
   Invariants over ALL histories of source updates (lighthouse answers, host updates, punch notifications, calculated
   remotes, tunnel closes, roaming sources, wrong-host blocks, handshake completions, keepalive punches, reads) under
   a fixed configuration (own networks, remote allow list + inside ranges, static hosts, calculated remotes). *)
From Coq Require Import List NArith Bool.
Import ListNotations.
From NV Require Import gen.Consts_RemoteList model.RemoteList model.RemotesAdmit
  proofs.RemoteList_order proofs.RemoteList_sort proofs.RemoteList_rebuild
  proofs.RemotesAdmit_inv proofs.RemotesAdmit_hist proofs.RemotesAdmit_static.
Open Scope N_scope.

(* T1: the cap in the code is the documented ten (generated from the working tree on every run). *)
Theorem C36_max_remotes_documented : MaxRemotes = 10 /\ cap = 10%nat.
Proof. split; reflexivity. Qed.
Print Assumptions C36_max_remotes_documented.

(* Whatever CopyAddrs of any RemoteList the lighthouse ever created can return - hence every handshake, punch or
   data destination drawn from it - was admitted by the filter of its source: the host it designates ([eff]: the
   address with an IPv4-mapped form resolved) is outside the node's own overlay networks, allowed by the global
   remote allow list and by the inside allow list of one of the overlay addresses the peer is known under; and it is
   not blocked.  Roaming sources are as the udp layer delivers them (Unmap()ed). *)
Theorem C36_filtered : forall c ops id r pref a,
  Forall plain_src ops ->
  In (id, r) (lh_lists (lrun c (lh_init c) ops)) ->
  In a (copy_addrs (adm c) pref (snd r)) ->
  in_my c (eff a) = false /\ global_allow c (eff a) = true /\
  (exists v, In v (fst r) /\ inside_allow c v (eff a) = true) /\
  ~ In a (rl_bad (snd r)).
Proof.
  intros c ops id r pref a P Hin Ha. destruct (reachable_good c ops P) as [A _].
  pose proof (A _ Hin) as I. cbn [snd] in I. destruct (proj1 (copy_ok c r pref I) a Ha) as [(H1 & H2 & H3) H4].
  repeat split; assumption.
Qed.
Print Assumptions C36_filtered.

(* ... and that list is exactly the sorted, duplicate-free form of the current sources (C37), so "returned by
   CopyAddrs" and "held by some source and not blocked" coincide. *)
Theorem C36_copy_is_sources : forall c ops id r pref,
  Forall plain_src ops -> In (id, r) (lh_lists (lrun c (lh_init c) ops)) ->
  copy_addrs (adm c) pref (snd r) = sort_addrs pref (sources (adm c) (snd r)).
Proof.
  intros c ops id r pref P Hin. destruct (reachable_good c ops P) as [A _].
  pose proof (A _ Hin) as I. cbn [snd] in I. apply (proj2 (copy_ok c r pref I)).
Qed.
Print Assumptions C36_copy_is_sources.

(* Each owner (information source) contributes at most ten reported IPv4, ten reported IPv6 addresses and ten relays. *)
Theorem C36_cap : forall c ops id r e,
  Forall plain_src ops -> In (id, r) (lh_lists (lrun c (lh_init c) ops)) -> In e (rl_cache (snd r)) ->
  (length (oc_r4 (snd e)) <= 10)%nat /\ (length (oc_r6 (snd e)) <= 10)%nat /\ (length (oc_relay (snd e)) <= 10)%nat.
Proof.
  intros c ops id r e P Hin He. destruct (reachable_good c ops P) as [A _].
  pose proof (A _ Hin) as [I _]. cbn [snd] in I. exact (proj2 (i_cache c _ I e He)).
Qed.
Print Assumptions C36_cap.

(* Punch notifications: every punch destination passed the same admission filter, for the overlay address the
   notification is about; nothing else changes. *)
Theorem C36_punch_filtered : forall c s from old vpn v4 v6 s' dst a,
  lstep c s (LPunch from old vpn v4 v6) = (s', OPunch dst) -> In a dst ->
  s' = s /\ exists d, details old vpn = Some d /\
  in_my c (eff a) = false /\ global_allow c (eff a) = true /\ inside_allow c d (eff a) = true.
Proof.
  intros c s from old vpn v4 v6 s' dst a H Ha. destruct (punch_filtered c _ _ _ _ _ _ _ _ H) as [E F].
  split; [exact E|]. destruct (F a Ha) as (d & Hd & H1 & H2 & v & [<-|[]] & H3). exists d. repeat split; assumption.
Qed.
Print Assumptions C36_punch_filtered.

(* Keepalive punches to all remotes go to what CopyAddrs returns for that tunnel (so C36_filtered applies). *)
Theorem C36_punch_all_filtered : forall c ops vpns pref s' dst,
  Forall plain_src ops ->
  lstep c (lrun c (lh_init c) ops) (LPunchAll vpns pref) = (s', OPunch dst) ->
  dst = [] \/ exists id r, In (id, r) (lh_lists s') /\ dst = rl_addrs (snd r) /\ rl_dirty (snd r) = false /\
    forall a, In a dst -> usable c (fst r) (eff a) /\ ~ In a (rl_bad (snd r)).
Proof. intros c ops vpns pref s' dst P H. eapply punch_all_filtered; [apply reachable_good, P|exact H]. Qed.
Print Assumptions C36_punch_all_filtered.

(* Static hosts keep what they were configured with: after any sequence of tunnel closes, lighthouse answers, host
   updates, punch notifications, roaming packets, wrong-host blocks, keepalive punches and reads (from peers, which
   never carry the node's own address), a static host is still registered under the same list, and that list still
   has the same resolver-result set (the configured addresses), the same entries under the node's own key and the
   same vpn addresses as at start-up. *)
Theorem C36_static_kept : forall c ops S,
  Forall (keeps_op c) ops -> is_static c S = true ->
  exists id r0 r,
    mget (lh_map (lh_init c)) S = Some id /\ mget (lh_map (lrun c (lh_init c) ops)) S = Some id /\
    lget (lh_lists (lh_init c)) id = Some r0 /\ lget (lh_lists (lrun c (lh_init c) ops)) id = Some r /\
    sig c r = sig c r0.
Proof. exact static_kept. Qed.
Print Assumptions C36_static_kept.

(* ... so every configured address the filter admits is returned by CopyAddrs unless it is blocked. *)
Theorem C36_static_addresses_returned : forall c ops id r0 r pref a,
  Forall plain_src ops ->
  lget (lh_lists (lh_init c)) id = Some r0 -> lget (lh_lists (lrun c (lh_init c) ops)) id = Some r -> sig c r = sig c r0 ->
  In a (rl_dns (snd r0)) -> adm c (rl_vpn (snd r0)) (ap_addr a) = true -> ~ In a (rl_bad (snd r)) ->
  In a (copy_addrs (adm c) pref (snd r)).
Proof. exact static_kept_copy. Qed.
Print Assumptions C36_static_addresses_returned.

(* The hypotheses are satisfiable and the statements bite: own network 10.77.0.1/24, lighthouse and static host
   10.77.0.2 configured with 1.1.1.1:4242, 10.77.0.50:4242 (inside the own network) and [::ffff:10.77.0.51]:4242
   (the same, IPv4-mapped); a query reply about 10.77.0.3 reporting 8.8.8.8:1 and 10.77.0.9:1; a roaming packet for the
   static host from 9.9.9.9:7; the tunnel to the static host closes. *)
Example C36_nonvacuous :
  let c := mkCfg [(F4, 172818433, 24)] false [(F4, 172818434)] None []
             [((F4, 172818434), [(F4, 16843009, 4242); (F4, 172818482, 4242); (F6, 281470854561843, 4242)])] [] in
  let ops := [LQueryReply [(F4, 172818434)] 0 (Some (F4, 172818435)) [(134744072, 1); (172818441, 1)] [] [] [];
              LLearn [(F4, 172818434)] (F4, 151587081, 7); LDelete [(F4, 172818434)]] in
  Forall plain_src ops /\ Forall (keeps_op c) ops /\ is_static c (F4, 172818434) = true /\
  snd (lstep c (lrun c (lh_init c) ops) (LCopy (F4, 172818434) [])) = OList true [(F4, 16843009, 4242); (F4, 151587081, 7)] [] [((F4, 172818433), (1, 0, 0)); ((F4, 172818434), (0, 0, 0))] /\
  snd (lstep c (lrun c (lh_init c) ops) (LCopy (F4, 172818435) [])) = OList true [(F4, 134744072, 1)] [] [((F4, 172818434), (1, 0, 0))] /\
  snd (lstep c (lh_init c) (LPunch [(F4, 172818434)] 0 (Some (F4, 172818435)) [(134744072, 1); (172818441, 1)] [])) = OPunch [(F4, 134744072, 1)].
Proof.
  cbv zeta. split; [repeat constructor|]. split; [repeat constructor; cbn; discriminate|].
  split; [reflexivity|]. split; [vm_compute; reflexivity|]. split; vm_compute; reflexivity.
Qed.

(* C16  Firewall verdicts follow the rule semantics.  Property theorems only.

   Model: model/Firewall.v (the nested table AddRule builds and FirewallTable.match walks; Drop).
   Documented semantics: [rule_matches] in model/Firewall.v, Part 2. Interpretation choices (all are what the code does
   AND what its comments / sanity() warnings / docs say; none was needed to make the proof go through):
   - a rule with both ca_name and ca_sha matches if EITHER matches ("(CA SHA or CA name)");
   - "any" among the groups, host "any", cidr "any", or no selector at all: every peer matches (the other selectors of
     that rule are ignored - sanity() warns about exactly this);
   - proto icmp (1 or 58 in AddRule) matches ICMP and ICMPv6 packets, its ports are ignored (coerced to any);
   - ICMP packets carry no port: they match only rules whose port is any (so proto any + port 80 does not match ICMP);
   - port 0 is "any": through the AddRule API a range that contains 0 is an any-port rule, -1 is the fragment bucket
     (the configuration parser only produces 0-0, -1 - -1 or 1 <= lo <= hi <= 65535, see C22);
   - a non-first fragment matches only "fragment" or "any" port rules;
   - incoming packets are matched on the local port, outgoing on the remote port;
   - local_cidr absent: any address, unless the node has unsafe networks and default_local_cidr_any is off, then the
     node's own overlay networks. *)
From Coq Require Import List NArith ZArith Bool.
Import ListNotations.
From NV Require Import lib.Corr lib.Ip gen.Consts_Firewall model.Firewall proofs.Firewall_refine proofs.Firewall_drop.
Open Scope N_scope.

(* the constants printed from /repo/firewall/packet.go are the documented ones *)
Theorem C16_constants :
  proto_any = 0 /\ proto_tcp = 6 /\ proto_udp = 17 /\ proto_icmp = 1 /\ proto_icmpv6 = 58 /\
  port_any = 0%Z /\ port_fragment = (-1)%Z.
Proof. repeat split; reflexivity. Qed.
Print Assumptions C16_constants.

(* The table built by any sequence of successful AddRule calls matches exactly when some rule matches, for ALL rule
   lists, configurations, directions, packets, peer certificates and CA pools. *)
Theorem C16_refine : forall cf rs t incoming pkt pr pl,
  add_rules cf rs empty_table = Some t ->
  table_match t incoming pkt pr pl = existsb (rule_matches cf incoming pkt pr pl) rs.
Proof. exact refine. Qed.
Print Assumptions C16_refine.

(* AddRule fails exactly on: unknown protocol, start > end (after the ICMP coercion), local_cidr that does not parse,
   cidr that does not parse unless an "any" selector short-cuts it - whatever the table already holds. *)
Theorem C16_add_rule_errors : forall cf r t, add_rule cf r t = None <-> rule_valid r = false.
Proof. exact add_rule_none. Qed.
Print Assumptions C16_add_rule_errors.

Theorem C16_add_rules_succeed : forall cf rs,
  (exists t, add_rules cf rs empty_table = Some t) <-> forallb rule_valid rs = true.
Proof. exact add_rules_succeed. Qed.
Print Assumptions C16_add_rules_succeed.

(* Drop, no connection-tracking state for the tuple, addresses accepted (C17): allowed iff a rule of the packet's
   direction matches. *)
Theorem C16_drop : forall cf inr outr fw incoming pkt h pr pl,
  new_firewall cf inr outr = Some fw ->
  remote_check h (pk_remote pkt) = None ->
  any_contains (routable cf) (pk_local pkt) = true ->
  (drop fw incoming pkt h pr pl false = VAllow <->
   existsb (rule_matches cf incoming pkt pr pl) (if incoming then inr else outr) = true).
Proof. exact drop_iff_rule. Qed.
Print Assumptions C16_drop.

Theorem C16_drop_untracked : forall fw cs incoming pkt h pr pl,
  aget pkt_eqb pkt cs = None ->
  fst (drop_ct fw cs incoming pkt h pr pl) = drop fw incoming pkt h pr pl false.
Proof. exact drop_ct_untracked. Qed.
Print Assumptions C16_drop_untracked.

(* Allowed packets are tracked afterwards. *)
Theorem C16_tracked : forall fw cs incoming pkt h pr pl cs',
  drop_ct fw cs incoming pkt h pr pl = (VAllow, cs') -> aget pkt_eqb pkt cs' <> None.
Proof. exact allowed_tracked. Qed.
Print Assumptions C16_tracked.

(* Drop may equally be evaluated with "some rule of the direction matches" in place of the built tables (used by the
   correspondence for port ranges too wide to build entry by entry inside Coq, e.g. 1-65535 = 65535 map entries). *)
Theorem C16_drop_by_rules : forall cf inr outr fw cs incoming pkt h pr pl,
  new_firewall cf inr outr = Some fw ->
  drop_ct_m (rules_matcher cf inr outr) 0 cf cs incoming pkt h pr pl = drop_ct fw cs incoming pkt h pr pl
  /\ forall tracked, drop_m (rules_matcher cf inr outr) cf incoming pkt h pr pl tracked = drop fw incoming pkt h pr pl tracked.
Proof. exact drop_by_rules. Qed.
Print Assumptions C16_drop_by_rules.

Theorem C16_new_firewall_succeeds : forall cf inr outr,
  (exists fw, new_firewall cf inr outr = Some fw) <-> forallb rule_valid inr && forallb rule_valid outr = true.
Proof. exact new_firewall_some. Qed.
Print Assumptions C16_new_firewall_succeeds.

(* the full range is not "any": 1-65535 admits neither a non-first fragment nor (under proto any) ICMP *)
Example C16_full_range_is_not_any :
  let r := mkRule 0 1%Z 65535%Z [] [97; 110; 121] CNone CNone [] [] in
  let cf := mkConf [((true, 167772161), 24)] [] false in
  let pr := mkPeer [112] [] [] [((true, 167772165), 24)] [] in
  rule_valid r = true /\
  rule_matches cf true (mkPkt (true, 167772161) (true, 167772165) 65535 1 6 false) pr [] r = true /\
  rule_matches cf true (mkPkt (true, 167772161) (true, 167772165) 0 0 6 true) pr [] r = false /\
  rule_matches cf true (mkPkt (true, 167772161) (true, 167772165) 0 7 1 false) pr [] r = false /\
  rule_matches cf true (mkPkt (true, 167772161) (true, 167772165) 0 0 6 false) pr [] r = false.
Proof. vm_compute. repeat split; reflexivity. Qed.

(* ---- non-vacuity and the interpretation choices as evaluated facts ---- *)
Definition ex_cf := mkConf [((true, 167772161), 24)] [((true, 3232235520), 24)] false.   (* 10.0.0.1/24, unsafe 192.168.0.0/24 *)
Definition ex_rules := [
  mkRule 6 80%Z 90%Z [[97]; [98]] [] CNone CNone [] [];                                  (* tcp 80-90 groups a,b *)
  mkRule 0 0%Z 0%Z [[97; 110; 121]; [120]] [104] CNone CAny [] [];                        (* any/any groups any,x host h, local any *)
  mkRule 1 5%Z 7%Z [] [] (CPfx ((true, 167772160), 25)) (CPfx ((true, 3232235520), 24)) [99; 97] [115]  (* icmp 10.0.0.0/25 -> 192.168.0.0/24, ca "ca"/"s" *)
].
Definition ex_peer := mkPeer [112] [[97]; [98]; [99]] [115] [((true, 167772165), 24)] [].
Definition ex_pkt := mkPkt (true, 167772161) (true, 167772165) 85 40000 6 false.

Example C16_nonvacuous :
  (exists t, add_rules ex_cf ex_rules empty_table = Some t) /\
  rule_matches ex_cf true ex_pkt ex_peer [] (nth 0 ex_rules (mkRule 0 0%Z 0%Z [] [] CNone CNone [] [])) = true /\
  rule_matches ex_cf false ex_pkt ex_peer [] (nth 0 ex_rules (mkRule 0 0%Z 0%Z [] [] CNone CNone [] [])) = false.
Proof. split; [eexists; vm_compute; reflexivity|split; vm_compute; reflexivity]. Qed.

(* local_cidr absent + unsafe networks + default_local_cidr_any off: only my own overlay network is a valid local address *)
Example C16_default_local_cidr :
  rule_matches ex_cf true (mkPkt (true, 3232235530) (true, 167772165) 85 1 6 false) ex_peer []
    (mkRule 6 80%Z 90%Z [[97]] [] CNone CNone [] []) = false /\
  rule_matches (mkConf (my_nets ex_cf) (my_unsafe ex_cf) true) true (mkPkt (true, 3232235530) (true, 167772165) 85 1 6 false) ex_peer []
    (mkRule 6 80%Z 90%Z [[97]] [] CNone CNone [] []) = true.
Proof. split; vm_compute; reflexivity. Qed.

(* "any" among the groups makes the other groups irrelevant; ICMP ignores the rule's ports; proto any + a port never
   matches ICMP *)
Example C16_interpretations :
  rule_matches ex_cf true ex_pkt (mkPeer [112] [] [] [((true, 167772165), 24)] []) [] (nth 1 ex_rules (mkRule 0 0%Z 0%Z [] [] CNone CNone [] [])) = true /\
  rule_matches ex_cf true (mkPkt (true, 3232235530) (true, 167772165) 0 77 58 false) ex_peer [([115], [99; 97])]
    (nth 2 ex_rules (mkRule 0 0%Z 0%Z [] [] CNone CNone [] [])) = true /\
  rule_matches ex_cf true (mkPkt (true, 167772161) (true, 167772165) 80 80 1 false) ex_peer []
    (mkRule 0 80%Z 80%Z [] [97; 110; 121] CNone CAny [] []) = false /\
  rule_matches ex_cf true (mkPkt (true, 167772161) (true, 167772165) 80 80 6 false) ex_peer []
    (mkRule 0 80%Z 80%Z [] [97; 110; 121] CNone CAny [] []) = true.
Proof. repeat split; vm_compute; reflexivity. Qed.

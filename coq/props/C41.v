(* C41  Route configuration parses exactly.  Property theorems only.

   Quantifier: every value of tun.routes / tun.unsafe_routes (any YAML shape), every set of overlay networks,
   and every behaviour of netip.ParsePrefix / netip.ParseAddr (the oracles pp / pa: each string is some
   prefix / address or is invalid).  None = the loader returned an error. *)
From Coq Require Import List NArith ZArith Bool String.
Import ListNotations.
From NV Require Import model.RouteCfg proofs.RouteCfg_proofs.
Open Scope N_scope.
Arguments bytes_of s%string.

(* ---- numeric fields --------------------------------------------------------------------------- *)

(* A decimal string (optional '-' or '+', one or more digits, leading zeros allowed) is the same
   configuration value as the integer it denotes: both give exactly that integer, or both are refused
   when it does not fit Go's int. *)
Theorem C41_decimal_string_is_its_value : forall neg ds, ds <> [] -> digits_ok ds ->
  parse_num (YStr (dec_text neg ds)) = parse_num (YInt (dec_signed neg ds)) /\
  parse_num (YStr (43 :: dec_text false ds)) = parse_num (YInt (dec_signed false ds)).
Proof. intros. split; [now apply parse_num_text|now apply parse_num_text_plus]. Qed.
Print Assumptions C41_decimal_string_is_its_value.

(* In particular the canonical rendering of any integer. *)
Theorem C41_string_equals_int : forall z, parse_num (YStr (decimal z)) = parse_num (YInt z).
Proof. exact parse_num_decimal. Qed.
Print Assumptions C41_string_equals_int.

(* An integer that fits int is taken as is. *)
Theorem C41_int_exact : forall z, in_int z = true -> parse_num (YInt z) = Some z.
Proof. intros z H. cbn [parse_num]. now rewrite H. Qed.
Print Assumptions C41_int_exact.

(* Nothing else is a number: a value is accepted only if it is an int, or a string that is a decimal
   string (so "12a", "", " 7", "0x10", "1e3" ... are refused), and the result is the denoted integer. Bools,
   floats (even integral), null, lists and maps are refused - no default is substituted. *)
Theorem C41_only_numbers : forall v z, parse_num v = Some z ->
  (v = YInt z /\ in_int z = true) \/
  (exists sign ds, v = YStr (sign ++ map (fun d => d + 48) ds) /\ (sign = [] \/ sign = [43] \/ sign = [45]) /\
                   ds <> [] /\ digits_ok ds /\ in_int z = true /\
                   z = if str_eqb sign [45] then (- dec_value 0 ds)%Z else dec_value 0 ds).
Proof.
  intros v z H. destruct (parse_num_cases v z H) as [Hi|[s [-> Ha]]]; [left; exact Hi|right].
  destruct (atoi_sound s z Ha) as [sign [ds [-> R]]]. exists sign, ds. split; [reflexivity|exact R].
Qed.
Print Assumptions C41_only_numbers.

Theorem C41_other_types_refused : forall b s l m,
  parse_num (YBool b) = None /\ parse_num (YFloatText s) = None /\ parse_num YNull = None /\
  parse_num (YList l) = None /\ parse_num (YMap m) = None.
Proof. intros. repeat split. Qed.
Print Assumptions C41_other_types_refused.

(* ---- tun.routes ------------------------------------------------------------------------------- *)

(* The list loads if and only if every entry is well formed (route_wf: a map with an mtu that is a number
   >= 500 and a route string that parses to a prefix inside the networks), and then each Route carries
   exactly the stated MTU and prefix.  An absent / null key gives no routes. *)
Theorem C41_routes_exact : forall pp nets v rs,
  parse_routes pp nets v = Some rs <->
  (v = YNull /\ rs = []) \/ (exists es, v = YList es /\ Forall2 (route_wf pp nets) es rs).
Proof. exact routes_iff. Qed.
Print Assumptions C41_routes_exact.

(* Inside: every address of an accepted route is an address of one of the overlay networks. *)
Theorem C41_routes_inside : forall pp nets e mtu metric c via inst,
  parse_route_entry pp nets e = Some (mtu, metric, c, via, inst) ->
  exists n, In n nets /\ forall v, contains c (fst (fst c)) v = true -> contains n (fst (fst c)) v = true.
Proof.
  intros pp nets e mtu metric c via inst H. apply route_entry_iff in H.
  destruct H as [m [mtu' [s [c' [_ [E [_ [_ [_ Hi]]]]]]]]]. injection E as _ _ <- _ _.
  now apply route_inside_covers.
Qed.
Print Assumptions C41_routes_inside.

(* ---- tun.unsafe_routes ------------------------------------------------------------------------ *)

(* The list loads if and only if every entry is well formed (unsafe_wf), and then MTU, metric, gateway
   weights, gateways, prefix and install flag are exactly the stated ones: a numeric field equals
   parse_num of the stated value and is in range (mtu 0 or >= 500; metric 0..2^31-1; weight 1..2^31-1);
   the defaults (mtu 0, metric 0, weight 1, install true) appear only when the key is absent. *)
Theorem C41_unsafe_routes_exact : forall pp pa nets v rs,
  parse_unsafe_routes pp pa nets v = Some rs <->
  (v = YNull /\ rs = []) \/ (exists es, v = YList es /\ Forall2 (unsafe_wf pp pa nets) es rs).
Proof. exact unsafe_routes_iff. Qed.
Print Assumptions C41_unsafe_routes_exact.

(* Outside: the base address of an accepted unsafe route is in none of the overlay networks (this is the
   test the code makes; it is about the base address only, so 0.0.0.0/0 is an acceptable unsafe route). *)
Theorem C41_unsafe_outside : forall pp pa nets e mtu metric c via inst,
  parse_unsafe_entry pp pa nets e = Some (mtu, metric, c, via, inst) ->
  forall n, In n nets -> contains n (fst (fst c)) (snd (fst c)) = false.
Proof.
  intros pp pa nets e mtu metric c via inst H. apply unsafe_entry_iff in H.
  destruct H as [m [mtu' [metric' [s [c' [via' [inst' [_ [E [_ [_ [_ [_ [_ [_ Hb]]]]]]]]]]]]]]].
  injection E as _ _ <- _ _. now apply base_outside.
Qed.
Print Assumptions C41_unsafe_outside.

(* Out-of-range and non-numeric values are refused rather than replaced: whatever else the entry
   holds, a present mtu / metric / weight that is not a number in range makes the entry fail. *)
Theorem C41_out_of_range_refused : forall pp pa nets m r,
  parse_unsafe_entry pp pa nets (YMap m) = Some r ->
  (forall v, ylookup k_mtu m = Some v -> exists z, parse_num v = Some z /\ (z = 0 \/ 500 <= z)%Z /\ fst (fst (fst (fst r))) = z) /\
  (forall v, ylookup k_metric m = Some v -> exists z, parse_num v = Some z /\ (0 <= z <= 2147483647)%Z /\ snd (fst (fst (fst r))) = z) /\
  (forall l, ylookup k_via m = Some (YList l) ->
     Forall2 (fun g gw => exists gm, g = YMap gm /\
                (forall v, ylookup k_weight gm = Some v -> parse_num v = Some (snd gw) /\ (1 <= snd gw <= 2147483647)%Z) /\
                (ylookup k_weight gm = None -> snd gw = 1%Z)) l (snd (fst r))).
Proof.
  intros pp pa nets m r H. apply unsafe_entry_iff in H.
  destruct H as [m' [mtu [metric [s [c [via [inst [E [-> [Hmtu [Hmet [Hvia _]]]]]]]]]]]]. injection E as <-.
  cbn [fst snd]. unfold num_field in *. repeat split.
  - intros v Hv. rewrite Hv in Hmtu. destruct Hmtu. eauto.
  - intros v Hv. rewrite Hv in Hmet. destruct Hmet. eauto.
  - intros l Hl. destruct Hvia as [[s' [ip [Hv _]]]|[l' [Hv F]]]; rewrite Hl in Hv; [discriminate|].
    injection Hv as <-. eapply Forall2_imp; [|exact F]. cbv beta.
    intros g gw [gm [s' [-> [_ [_ Hw]]]]]. exists gm. split; [reflexivity|].
    unfold num_field in Hw. split.
    + intros v Hv. rewrite Hv in Hw. exact Hw.
    + intros Hn. rewrite Hn in Hw. now injection Hw.
Qed.
Print Assumptions C41_out_of_range_refused.

(* ---- the statements are not vacuous ------------------------------------------------------------- *)

Example C41_nonvacuous :
  let pp := fun s => if str_eqb s (bytes_of "1.0.0.0/8") then Some (4, 16777216, 8)
                     else if str_eqb s (bytes_of "10.0.0.0/29") then Some (4, 167772160, 29) else None in
  let pa := fun s => if str_eqb s (bytes_of "10.0.0.2") then Some (4, 167772162, []) else None in
  let nets := [(4, 167772160, 24)] in
  parse_unsafe_routes pp pa nets
    (YList [YMap [(k_route, YStr (bytes_of "1.0.0.0/8")); (k_metric, YStr (bytes_of "100"));
                  (k_via, YList [YMap [(k_gateway, YStr (bytes_of "10.0.0.2")); (k_weight, YStr (bytes_of "5"))]])]])
  = Some [(0%Z, 100%Z, (4, 16777216, 8), [((4, 167772162, []), 5%Z)], true)] /\
  parse_unsafe_routes pp pa nets
    (YList [YMap [(k_route, YStr (bytes_of "1.0.0.0/8")); (k_metric, YFloatText (bytes_of "1"));
                  (k_via, YStr (bytes_of "10.0.0.2"))]]) = None /\
  parse_routes pp nets (YList [YMap [(k_mtu, YStr (bytes_of "1300")); (k_route, YStr (bytes_of "10.0.0.0/29"))]])
  = Some [(1300%Z, 0%Z, (4, 167772160, 29), [], true)] /\
  parse_routes pp nets (YList [YMap [(k_mtu, YInt 499); (k_route, YStr (bytes_of "10.0.0.0/29"))]]) = None /\
  decimal (-2147483648) = bytes_of "-2147483648".
Proof. vm_compute. repeat split. Qed.

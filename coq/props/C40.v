(* C40  Multipath routing is deterministic and weight-proportional.  Property theorems only.

   Quantifier: every gateway list with weights 1 .. 2^31-1 (weights_ok) of 1 .. 2^32 gateways (count_ok: the
   only limit left after the 128-bit repair is Go's int sum of the weights, which cannot wrap below 2^32
   gateways of maximal weight), every port pair and every value of the other packet fields.
   bucket i is the hash interval (bound_{i-1}, bound_i] with bound_0 = -1; widths (-1) bs are the shares. *)
From Coq Require Import List NArith ZArith Bool.
Import ListNotations.
From NV Require Import lib.Bytes model.Routing proofs.Routing_proofs.
Open Scope N_scope.

(* The flow hash is a 31-bit value: the hash space is 0 .. 2^31-1. *)
Theorem C40_hash_range : forall lport rport, hash_packet lport rport < 2 ^ 31.
Proof. exact hash_packet_range. Qed.
Print Assumptions C40_hash_range.

(* The computation never panics, gives one bound per gateway, and bound_i is exactly
   round-half-up (running weight_i * 2^31 / total weight) - 1 (the 128-bit arithmetic is exact). *)
Theorem C40_buckets_exact : forall ws, weights_ok ws -> count_ok ws ->
  calc_buckets ws = Some (spec_loop (sumN ws) 0 ws) /\ length (spec_loop (sumN ws) 0 ws) = length ws.
Proof. intros ws Hw Hc. split; [now apply calc_buckets_valid|apply spec_loop_length]. Qed.
Print Assumptions C40_buckets_exact.

(* Bounds never decrease (no overlaps), and a gateway whose exact share is at least one hash value
   (total <= weight * 2^31) gets a non-empty bucket. *)
Theorem C40_monotone : forall ws bs, weights_ok ws -> count_ok ws -> calc_buckets ws = Some bs ->
  Forall2 (fun w wd => (0 <= wd)%Z /\ (sumN ws <= w * two31 -> (1 <= wd)%Z)) ws (widths (-1) bs).
Proof.
  intros ws bs Hw Hc E. pose proof (bounds_ok_valid ws bs Hw Hc E) as H.
  unfold bounds_ok in H. apply andb_prop in H as [H _]. apply shares_ok_Forall2 in H.
  eapply Forall2_weaken; [|exact H]. cbv beta. intros w wd S. apply share_ok_iff in S. tauto.
Qed.
Print Assumptions C40_monotone.

(* Strictness cannot be claimed for every list: weight 1 beside three gateways of weight 2^31-1 gets the
   empty bucket (-1, -1]; its exact share is about 1/3 of a hash value. *)
Theorem C40_empty_share_possible :
  exists ws bs, weights_ok ws /\ count_ok ws /\ calc_buckets ws = Some bs /\ exists r, widths (-1) bs = 0%Z :: r.
Proof.
  exists [1; 2147483647; 2147483647; 2147483647], [(-1)%Z; 715827882%Z; 1431655764%Z; 2147483647%Z].
  split; [repeat constructor|]. split; [split; [discriminate|cbn; discriminate]|].
  split; [exact empty_share_example|]. eexists. reflexivity.
Qed.
Print Assumptions C40_empty_share_possible.

(* Proportional: each share differs from weight * 2^31 / total by strictly less than one hash value,
   | width_i * total - weight_i * 2^31 | < total. *)
Theorem C40_proportional : forall ws bs, weights_ok ws -> count_ok ws -> calc_buckets ws = Some bs ->
  Forall2 (fun w wd => (Z.abs (wd * Z.of_N (sumN ws) - Z.of_N (w * two31)) < Z.of_N (sumN ws))%Z)
          ws (widths (-1) bs).
Proof.
  intros ws bs Hw Hc E. pose proof (bounds_ok_valid ws bs Hw Hc E) as H.
  unfold bounds_ok in H. apply andb_prop in H as [H _]. apply shares_ok_Forall2 in H.
  eapply Forall2_weaken; [|exact H]. cbv beta. intros w wd S. apply share_ok_iff in S. tauto.
Qed.
Print Assumptions C40_proportional.

(* Cover: the last bound is the top of the hash space ... *)
Theorem C40_last_bound : forall ws bs, weights_ok ws -> count_ok ws -> calc_buckets ws = Some bs ->
  exists pre, bs = pre ++ [2147483647%Z].
Proof.
  intros ws bs Hw Hc E. pose proof (bounds_ok_valid ws bs Hw Hc E) as H.
  unfold bounds_ok in H. apply andb_prop in H as [_ H]. now apply last_is_iff.
Qed.
Print Assumptions C40_last_bound.

(* ... so for every port pair exactly one bucket contains the hash, and BalancePacket returns that
   bucket's gateway with ok = true (never the fallback). *)
Theorem C40_cover : forall gs gws lport rport,
  weights_ok (map snd gs) -> count_ok (map snd gs) -> calculate gs = Some gws ->
  exists a, owners (Z.of_N (hash_packet lport rport)) (-1) gws = [a] /\
            balance lport rport gws = Some (a, true).
Proof. intros. eapply calculate_cover; eassumption. Qed.
Print Assumptions C40_cover.

(* Deterministic: the chosen gateway is a function of (local port, remote port) and the gateway list;
   addresses, protocol and the fragment flag do not matter. *)
Theorem C40_deterministic : forall p1 p2 gws,
  p_lport p1 = p_lport p2 -> p_rport p1 = p_rport p2 -> balance_packet p1 gws = balance_packet p2 gws.
Proof. intros p1 p2 gws H1 H2. unfold balance_packet. now rewrite H1, H2. Qed.
Print Assumptions C40_deterministic.

(* The hypotheses are satisfiable and the statements are not vacuous. *)
Example C40_nonvacuous :
  weights_ok [10; 5] /\ count_ok [10; 5] /\
  calc_buckets [10; 5] = Some [1431655764%Z; 2147483647%Z] /\
  calc_buckets [2147483647; 2147483647; 2147483647; 2147483647; 2147483647]
    = Some [429496729%Z; 858993458%Z; 1288490188%Z; 1717986917%Z; 2147483647%Z] /\
  (exists gws, calculate [(7, 10); (8, 5)] = Some gws /\ balance 1234 80 gws = Some (8, true)).
Proof.
  split; [repeat constructor|]. split; [split; [discriminate|cbn; discriminate]|].
  split; [vm_compute; reflexivity|]. split; [vm_compute; reflexivity|].
  eexists. split; vm_compute; reflexivity.
Qed.

(* C49  Stopping a node at any point releases everything.  Property theorems only.
   The system: model/Lifecycle.v - the Control state machine (Ready / Started / Stopping / Stopped) under every
   sequence of Start (succeeding or failing in activation), Stop (atomic, or split at the point where it gives up
   the state lock so that other calls interleave), RebindUDPServer and fatal reader errors, for every configuration
   (any number of readers, lighthouse client workers, conntrack cache tickers, DNS responder, sshd), together with
   the table of what a node keeps running and open. "Released": after the goroutines whose guard holds have returned
   (closing what they close on the way out) none is left, and everything ever opened is closed. *)
From Coq Require Import List NArith Bool.
Import ListNotations.
From NV Require Import gen.Tab_Lifecycle model.Lifecycle proofs.Lifecycle_proofs.

(* whenever the run state is Stopped, every goroutine's guard holds (it returns) and every resource is closed *)
Theorem C49_stopped_released : forall c ops,
  let s := run (ready c) ops in l_state s = SStopped -> released s = true.
Proof. exact stopped_released. Qed.
Print Assumptions C49_stopped_released.

(* from EVERY reachable state: a Stop ends in Stopped with everything released; when another Stop is half way
   (state Stopping) this call returns at once and changes nothing, and that other call's completion releases *)
Theorem C49_stop_releases : forall c ops,
  let s := run (ready c) ops in
  (l_state s <> SStopping -> l_state (step s OStop) = SStopped /\ released (step s OStop) = true) /\
  (l_state s = SStopping -> step s OStopBegin = s /\
                            l_state (step s OStopEnd) = SStopped /\ released (step s OStopEnd) = true).
Proof. exact stop_releases. Qed.
Print Assumptions C49_stop_releases.

(* a second Stop is a no-op, and nothing after Stop restarts, reopens, re-closes or rebinds anything *)
Theorem C49_second_stop_noop : forall c ops o,
  let s := run (ready c) ops in
  l_state s = SStopped ->
  step s OStop = s /\
  l_state (step s o) = SStopped /\ l_closed (step s o) = l_closed s /\ l_acts (step s o) = l_acts s /\
  l_opened (step s o) = l_opened s /\ l_rebinds (step s o) = l_rebinds s.
Proof. exact stop_idempotent. Qed.
Print Assumptions C49_second_stop_noop.

Theorem C49_stop_twice : forall c ops, let s := run (ready c) ops in step (step s OStop) OStop = step s OStop.
Proof. exact stop_twice. Qed.
Print Assumptions C49_stop_twice.

(* a Start whose activation fails releases what Main had acquired *)
Theorem C49_start_fail_releases : forall c ops,
  let s := run (ready c) ops in
  l_state s = SReady -> l_state (step s (OStart false)) = SStopped /\ released (step s (OStart false)) = true.
Proof. exact start_fail_releases. Qed.
Print Assumptions C49_start_fail_releases.

(* nothing is closed or cancelled before the first Stop / failed Start: the clauses above are not satisfied by a
   node that is torn down early *)
Theorem C49_up_until_stopped : forall c ops, let s := run (ready c) ops in
  (l_state s = SReady \/ l_state s = SStarted) -> l_closed s = [].
Proof. exact started_all_open. Qed.
Print Assumptions C49_up_until_stopped.

(* Stop's tunnel-closing phase (after the context is cancelled, before the interface is closed) performs no channel send
   that only a cancelled goroutine could serve: the only such channel is the lighthouse query channel, and - measured on
   the real Interface.send for every message type, rebind state and node kind on every run - sending a CloseTunnel never
   puts anything into it.  The second statement shows the obligation is real: in state Stopping a send into that channel
   has no live receiver. *)
Theorem C49_stop_phase_never_blocks : forall c ops,
  let s := run (ready c) ops in
  (forall q, lookup_queries send_queries t_close_tunnel true false = Some q -> may_block s (stop_sends q) = false) /\
  (l_state s = SStopping -> may_block s (stop_sends 1) = true) /\
  forallb (fun r => let '(t, _, _, n) := r in negb (N.eqb t t_close_tunnel) || N.eqb n 0) send_queries = true.
Proof.
  intros c ops s. split; [exact (stop_phase_never_blocks c ops)|]. split; [exact (stopping_query_send_would_block c ops)|].
  exact (proj1 close_tunnel_never_queries).
Qed.
Print Assumptions C49_stop_phase_never_blocks.

(* the socket ledger: EVERY udp listener Main opened (one per configured routine) is closed once the state is Stopped and
   open until then - including the ones that never got a reader because activate clamped the reader routines to what
   the udp backend (SupportsMultipleReaders) and the overlay device (queues really opened) allow *)
Theorem C49_all_listeners_closed : forall c ops, let s := run (ready c) ops in
  (l_state s = SStopped -> udp_open s = 0%nat) /\
  (l_state s = SReady \/ l_state s = SStarted -> udp_open s = k_configured c) /\
  (k_routines c <= k_configured c)%nat /\ (k_routines c <= k_queues c)%nat.
Proof. exact listeners_ledger. Qed.
Print Assumptions C49_all_listeners_closed.

Example C49_nonvacuous :
  released (run (ready ex_cfg) [OStart true; ORebind; OStop]) = true /\
  released (run (ready ex_cfg) [OStart true; ORebind]) = false /\
  length (l_acts (run (ready ex_cfg) [OStart true])) = 18%nat.
Proof. exact ex_full_stop. Qed.

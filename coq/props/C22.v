(* C22  Firewall configuration parses exactly.  Property theorems only.

   Model: model/FwConfig.v (parsePortValue = strconv.ParseUint(s,10,16), parsePort, convertRule over YAML values,
   AddFirewallRulesFromConfig against a recorder and against the real AddRule). netip.ParsePrefix is the parameter pp.
   Stated as the code has it (not findings): a port text "0", or a range whose low end is 0 ("0-5"), is "any";
   parsePort itself accepts a reversed range ("90-80") - it is AddRule that refuses it, so such a rule list does not
   load; blanks are trimmed around the two halves of a range only (" 80" alone is refused); a null scalar
   (`host:`) is printed as the literal "<nil>". The convertRule panics found here (F21) are repaired in nebula and the
   repaired behaviour (errors) is what the model mirrors. *)
From Coq Require Import List NArith ZArith Bool String.
Import ListNotations.
From NV Require Import lib.Corr lib.Ip gen.Consts_Firewall model.Firewall model.FwConfig
  proofs.Firewall_drop proofs.FwConfig_proofs.
Open Scope N_scope.

(* parsePortValue: exactly the non-empty strings of ASCII digits whose decimal value is at most 65535 (leading zeros
   allowed; no sign, blank, underscore, hex, unicode digit), for ALL strings *)
Theorem C22_port_value : forall s n,
  parse_port_value s = Some n <-> (s <> [] /\ forallb is_digit s = true /\ dec_val s = n /\ n <= 65535).
Proof. intros. rewrite parse_port_value_decimal16. apply decimal16_iff. Qed.
Print Assumptions C22_port_value.

(* parsePort: `any`, `fragment`, a decimal in 0..65535 (0 is any), or lo-hi split at the FIRST dash with blanks trimmed
   around both halves, both decimals in 0..65535 (lo = 0 makes it any); everything else is an error - for ALL strings *)
Theorem C22_port : forall s a b,
  parse_port s = Some (a, b) <->
    (s = bs "any" /\ a = 0%Z /\ b = 0%Z)
    \/ (s = bs "fragment" /\ a = (-1)%Z /\ b = (-1)%Z)
    \/ (exists n, is_decimal16 s n /\ a = Z.of_N n /\ b = Z.of_N n)
    \/ (exists l r lo hi, s = l ++ dash :: r /\ ~ In dash l /\ is_decimal16 (trim l) lo /\ is_decimal16 (trim r) hi
                          /\ a = Z.of_N lo /\ b = if lo =? 0 then 0%Z else Z.of_N hi).
Proof. exact port_grammar. Qed.
Print Assumptions C22_port.

(* a rule list is handed to AddRule only if every rule is a map that converts, names a known protocol, gives a valid port
   text (unless icmp), not both code and port, has at least one selector and parseable cidrs; and the AddRule arguments
   are the ones the text denotes *)
Theorem C22_selectors : forall pp tbl rs,
  rules_from_config pp tbl = ROk rs ->
  ((tbl = None \/ tbl = Some YNull) /\ rs = []) \/
  exists ys, tbl = Some (YList ys) /\
    Forall2 (fun y r => exists c, convert_rule y = ROk c /\
       known_proto (c_proto c) (r_proto r)
       /\ (c_code c = [] \/ c_port c = [])
       /\ (c_host c <> [] \/ c_groups c <> [] \/ c_cidr c <> [] \/ c_local c <> [] \/ c_ca_name c <> [] \/ c_ca_sha c <> [])
       /\ (if str_eqb (c_proto c) (bs "icmp") then r_start r = port_any /\ r_end r = port_any
           else parse_port (if nonempty (c_code c) then c_code c else c_port c) = Some (r_start r, r_end r))
       /\ cidr_denotes pp (c_cidr c) (r_cidr r) /\ cidr_denotes pp (c_local c) (r_local r)
       /\ r_groups r = c_groups c /\ r_host r = c_host c /\ r_ca_name r = c_ca_name c /\ r_ca_sha r = c_ca_sha c) ys rs.
Proof. exact rules_from_config_sound. Qed.
Print Assumptions C22_selectors.

(* the real firewall loads exactly when the text is accepted and every range has lo <= hi; the loaded table then admits
   exactly the packets the textual rules describe (composition with C16_refine) *)
Theorem C22_exact : forall pp cf tbl t,
  load_config pp cf tbl empty_table = ROk t ->
  exists rs, rules_from_config pp tbl = ROk rs /\ forallb rule_valid rs = true /\
    forall incoming pkt pr pl, table_match t incoming pkt pr pl = existsb (rule_matches cf incoming pkt pr pl) rs.
Proof. exact load_config_exact. Qed.
Print Assumptions C22_exact.

Theorem C22_loads_when_valid : forall pp cf tbl rs,
  rules_from_config pp tbl = ROk rs -> forallb rule_valid rs = true ->
  exists t, load_config pp cf tbl empty_table = ROk t.
Proof. exact load_config_complete. Qed.
Print Assumptions C22_loads_when_valid.

(* malformed input is refused, never a crash *)
Theorem C22_no_panic : forall pp cf tbl t, rules_from_config pp tbl <> RPanic /\ load_config pp cf tbl t <> RPanic.
Proof. exact no_panic. Qed.
Print Assumptions C22_no_panic.

(* ---- evaluated facts: non-vacuity and the cases the statement singles out ---- *)
Example C22_port_examples :
  parse_port (bs "0") = Some (0, 0)%Z /\ parse_port (bs "0-5") = Some (0, 0)%Z /\ parse_port (bs "0-0") = Some (0, 0)%Z /\
  parse_port (bs " 80 - 90 ") = Some (80, 90)%Z /\ parse_port (bs "0080") = Some (80, 80)%Z /\
  parse_port (bs "65535") = Some (65535, 65535)%Z /\ parse_port (bs "65536") = None /\
  parse_port (bs " 80") = None /\ parse_port (bs "+80") = None /\ parse_port (bs "-80") = None /\ parse_port (bs "0x50") = None /\
  parse_port (bs "") = None /\ parse_port (bs "80-") = None /\ parse_port (bs "1-2-3") = None /\ parse_port (bs "0-65536") = None /\
  parse_port (bs "99999999999999999999999999") = None /\
  parse_port (bs "90-80") = Some (90, 80)%Z /\
  rule_valid (mkRule 6 90%Z 80%Z [] [104] CNone CNone [] []) = false.
Proof. vm_compute. repeat split; reflexivity. Qed.

Definition ex_tbl : option yaml := Some (YList [
  YMap [(bs "groups", YList [YStr (bs "a"); YStr (bs "b")]); (bs "port", YStr (bs "80-90")); (bs "proto", YStr (bs "tcp"))];
  YMap [(bs "host", YStr (bs "any")); (bs "port", YInt 53); (bs "proto", YStr (bs "udp"))];
  YMap [(bs "cidr", YStr (bs "10.0.0.0/24")); (bs "proto", YStr (bs "icmp"))] ]).
Definition ex_pp (s : str) : option prefix := if str_eqb s (bs "10.0.0.0/24") then Some ((true, 167772160), 24) else None.
Definition ex_cf := mkConf [((true, 167772161), 24)] [] false.

Example C22_nonvacuous :
  rules_from_config ex_pp ex_tbl = ROk [
    mkRule 6 80%Z 90%Z [bs "a"; bs "b"] [] CNone CNone [] [];
    mkRule 17 53%Z 53%Z [] (bs "any") CNone CNone [] [];
    mkRule 1 0%Z 0%Z [] [] (CPfx ((true, 167772160), 24)) CNone [] [] ] /\
  (exists t, load_config ex_pp ex_cf ex_tbl empty_table = ROk t) /\
  rules_from_config ex_pp (Some (YList [YMap [(bs "port", YStr (bs "80")); (bs "proto", YStr (bs "tcp"))]])) = RErr /\
  rules_from_config ex_pp (Some (YList [YMap [(bs "host", YStr (bs "h")); (bs "port", YStr (bs "80")); (bs "proto", YStr (bs "sctp"))]])) = RErr /\
  rules_from_config ex_pp (Some (YList [YMap [(bs "group", YList []); (bs "port", YStr (bs "80")); (bs "proto", YStr (bs "tcp"))]])) = RErr.
Proof. split; [vm_compute; reflexivity|split; [eexists; vm_compute; reflexivity|repeat split; vm_compute; reflexivity]]. Qed.

(* C31  Concurrent handshakes converge to one working tunnel.  Property theorems only.
   The system: model/Converge.v - two nodes, every schedule of initiations, retransmissions, deliveries (any order,
   any number of times, or never), inside packets and connection-manager checks. *)
From Coq Require Import List NArith Bool.
Import ListNotations.
From NV Require Import gen.Tab_Converge model.Converge proofs.Converge_base proofs.Converge_swap proofs.Converge_shape
  proofs.Converge_inv proofs.Converge_props proofs.Converge_tab.
Open Scope N_scope.

(* ---- at most one of the two nodes ever swaps its primary ------------------------------------------------------- *)
(* the swap rule: a swap requires the peer's overlay address to be >= ours (mirror of shouldSwapPrimary; the table
   regenerated from the real function on every run says the same on all 24 feature rows) *)
Theorem C31_swap_rule : forall me peer elig, should_swap me peer elig = true -> addr_cmp peer me <> Lt.
Proof. exact should_swap_requires. Qed.
Print Assumptions C31_swap_rule.

Theorem C31_swap_table : forallb row_ok swap_tab = true /\ forallb has_key all_keys = true /\
  (forall cls rk nc se, In (cls, rk, nc, se, true) swap_tab -> cls <> 0) /\
  N.of_nat max_tunnels = MaxHostInfosPerVpnIp /\ N.of_nat max_cached = maxCachedPackets.
Proof.
  split; [exact swap_tab_ok|]. split; [exact (proj1 swap_tab_complete)|]. split; [exact swap_tab_requires_ge|].
  split; [exact max_tunnels_pinned|exact max_cached_pinned].
Qed.
Print Assumptions C31_swap_table.

(* overlay addresses are totally ordered: distinct addresses are strictly ordered exactly one way *)
Theorem C31_addr_order : forall a b,
  (addr_cmp a b = Eq <-> a = b) /\ addr_cmp b a = CompOpp (addr_cmp a b) /\
  (a <> b -> addr_cmp a b = Lt \/ addr_cmp b a = Lt).
Proof. intros a b. split; [apply addr_cmp_eq|]. split; [apply addr_cmp_antisym|apply addr_total]. Qed.
Print Assumptions C31_addr_order.

(* in no reachable state have both nodes decided swapPrimary; the node with the larger address never does *)
Theorem C31_one_swapper : forall c evs, c_addr_a c <> c_addr_b c ->
  let s := run c init evs in n_swaps (s_a s) = 0 \/ n_swaps (s_b s) = 0.
Proof. exact one_swapper. Qed.
Print Assumptions C31_one_swapper.

Theorem C31_larger_never_swaps : forall c evs n,
  addr_cmp (c_addr c (other n)) (c_addr c n) = Lt -> n_swaps (get (run c init evs) n) = 0.
Proof. exact larger_never_swaps. Qed.
Print Assumptions C31_larger_never_swaps.

(* ---- the two hostinfos of one handshake mirror each other -------------------------------------------------------- *)
(* In every reachable state, for every tunnel T a node holds:
   - any tunnel of the peer with the same session is T's other end: opposite role, local(T) = remote(U),
     remote(T) = local(U), same handshake;
   - if T is the initiator's end, the peer holds the other end or has removed it;
   - if T is the responder's end, the peer's pending handshake is exactly the one that created T (same stage-0
     packet, the index T names as remote) or the peer has finished that handshake. *)
Theorem C31_mirror : forall c s, reachable c s -> forall x t, In t (tuns s x) ->
  (forall u, In u (tuns s (other x)) -> t_sid u = t_sid t -> twin t u) /\
  (t_ini t = true -> holds_sid (get s (other x)) (t_sid t) \/ In (t_sid t) (n_gone (get s (other x)))) /\
  (t_ini t = false -> pending_for (get s (other x)) t \/ In (t_hid t) (n_done (get s (other x)))).
Proof. exact mirror. Qed.
Print Assumptions C31_mirror.

(* the same as one case distinction: the other end is held, was removed by the peer, is still pending at the peer
   (responder-side tunnels), or the peer finished that handshake without this session (responder-side tunnels) *)
Theorem C31_mirror_status : forall c s, reachable c s -> forall x t, In t (tuns s x) ->
  (exists u, In u (tuns s (other x)) /\ twin t u) \/
  In (t_sid t) (n_gone (get s (other x))) \/
  (t_ini t = false /\ pending_for (get s (other x)) t) \/
  (t_ini t = false /\ In (t_hid t) (n_done (get s (other x))) /\ ~ holds_sid (get s (other x)) (t_sid t)).
Proof. exact mirror_status. Qed.
Print Assumptions C31_mirror_status.

(* ---- traffic flows as soon as a handshake has completed ---------------------------------------------------------- *)
(* Whenever the peer holds the other end of a node's primary (by C31_mirror: always for a primary completed as
   initiator, unless the peer has removed it), an inside packet sent now comes out of the peer's tun when it is
   delivered - whatever else is in flight, in both directions (x is either node). *)
Theorem C31_traffic : forall c s x pl p rest u idx, reachable c s ->
  tuns s x = p :: rest -> In u (tuns s (other x)) -> t_sid u = t_sid p ->
  let s1 := fst (step c s (EData x pl)) in
  snd (step c s1 (EDeliver (N.of_nat (length (s_net s))) idx)) = [(other x, pl)].
Proof. exact data_delivered. Qed.
Print Assumptions C31_traffic.

(* ---- once the network is quiet: what is proved, and why not more -------------------------------------------------- *)
(* PARTIAL.  Proved: (1) without a handshake packet being delivered no event adds a tunnel - checks, data, test,
   recv_error packets only keep or remove; (2) once each node holds exactly one tunnel and the two are the ends of
   one session, whatever remains after any such event still matches.  NOT proved: that fair schedules reach such a
   state (see C31_fairness_alone_insufficient: in this model, where a check may fire at any time, they need not). *)
Theorem C31_quiescent_partial : forall c s e, reachable c s -> hs_delivery s e = false ->
  (forall x, (length (tuns (fst (step c s e)) x) <= length (tuns s x))%nat) /\
  (forall ta tb, tuns s NA = [ta] -> tuns s NB = [tb] -> t_sid ta = t_sid tb ->
     forall ta' tb', In ta' (tuns (fst (step c s e)) NA) -> In tb' (tuns (fst (step c s e)) NB) -> twin ta' tb').
Proof.
  intros c s e R H. split.
  - intro x. now apply step_tunnels_le.
  - intros ta tb HA HB E. exact (matched_stays c s e ta tb R HA HB E H).
Qed.
Print Assumptions C31_quiescent_partial.

(* a schedule in which every packet is delivered, every tunnel is checked in every round and both applications keep
   sending returns to the same configuration (two tunnels on each side) every two rounds, the smaller node swapping
   each time: fairness of ticks and deliveries alone does not give convergence when the timer wheel is abstracted *)
Theorem C31_fairness_alone_insufficient :
  let s0 := run ex_cfg init ex_race in
  let x2 := fair_round ex_cfg (fair_round ex_cfg (s0, [], length (s_net s0))) in
  let s2 := fst (fst x2) in
  let x4 := fair_round ex_cfg (fair_round ex_cfg (s2, [], snd x2)) in
  let s4 := fst (fst x4) in
  reachable ex_cfg s2 /\ s4 = run ex_cfg s2 (snd (fst x4)) /\ snd (fst x4) <> [] /\
  snd x4 = length (s_net s4) /\ config_of s4 = config_of s2 /\ tunnels s2 = 4%nat /\
  n_swaps (s_a s2) < n_swaps (s_a s4).
Proof. exact fair_rounds_cycle. Qed.
Print Assumptions C31_fairness_alone_insufficient.

(* the hypotheses above are satisfiable: a clean handshake converges; after two simultaneous initiations both
   nodes hold two tunnels with pairwise swapped indexes and data flows both ways at once *)
Example C31_nonvacuous :
  converged (run ex_cfg init [EStart NA; EHsOut NA 7; EDeliver 0 9; EDeliver 1 0]) /\
  (let s := run ex_cfg init ex_race in
   map t_l (tuns s NA) = [7; 17] /\ map t_r (tuns s NA) = [18; 8] /\
   map t_l (tuns s NB) = [8; 18] /\ map t_r (tuns s NB) = [17; 7]).
Proof. split; [exact clean_handshake_converges|exact race_two_tunnels_each]. Qed.

(* C42  Certificate reload never changes a node's identity.  Property theorems only.

   [plookup] / [ca_lookup] are lookups in gen/Tab_PkiReload.v, the complete tabulation of the real
   NewPKIFromConfig / ReloadConfigString -> PKI.reload (reloadCerts + reloadCAPool) over the abstract features
   (256 + 5 feasible rows, >= 3 concrete situations each: inline PEM, freshly signed v1/v2 certificates, both
   curves), regenerated from /repo on every run. [reload_certs] / [step] / [run] are defined from those lookups.
   Per-reload theorems hold for ALL states and files; the history theorems for ALL sequences of reloads (induction).

   Identity = curve, primary (first) overlay network, and the overlay network list (CertState.myVpnNetworks:
   the v2 certificate's networks, else the v1 certificate's). One documented route changes the network list:
   adding a v2 certificate NEXT TO a v1 certificate that keeps exactly the old networks (upstream's migration path;
   [v2_added_next_to_v1]); curve and primary network are fixed on every route. *)
From Coq Require Import List NArith Bool.
Import ListNotations.
From NV Require Import lib.Corr lib.ConnMgr_lib lib.PkiReload_lib gen.Tab_PkiReload model.PkiReload
  proofs.PkiReload_proofs proofs.PkiReload_hist proofs.PkiReload_disconnect.
From NV Require gen.Tab_ConnMgr model.ConnMgr.
Open Scope N_scope.

(* the generated table answers exactly the feature combinations that can occur, and every answer was observed on at
   least three different concrete situations *)
Theorem C42_table_total : (forall r, pfeasible r = true <-> exists o, plookup r = Some o) /\
  (forall r, ca_feasible r = true <-> exists o, ca_lookup r = Some o) /\ 3 <= tab_reload_situations_per_row.
Proof. exact (conj table_total (conj ca_table_total situations_per_row)). Qed.
Print Assumptions C42_table_total.

(* the real code's verdict IS the documented rule: new files are taken into use iff they load, the key pairs with
   every certificate, v1 and v2 agree, and networks and curve are those in use (on all 9 old x new shapes) *)
Theorem C42_accept_iff_rule : forall s c, inv_b s = true -> accepted s c = rule (features (Some s) c).
Proof. exact accepted_iff_rule. Qed.
Print Assumptions C42_accept_iff_rule.

(* every reload of a well-formed state has a defined outcome (no situation falls outside the table) *)
Theorem C42_reload_defined : forall s c, inv_b s = true ->
  reload_certs s c = Some (if rule (features (Some s) c) then state_of c else s).
Proof. exact reload_certs_defined. Qed.
Print Assumptions C42_reload_defined.

(* a refused reload leaves the previous certificates in use *)
Theorem C42_refused_unchanged : forall s c s', reload_certs s c = Some s' -> accepted s c = false -> s' = s.
Proof. exact reload_refused_unchanged. Qed.
Print Assumptions C42_refused_unchanged.

(* an accepted reload: curve and primary network unchanged; overlay networks unchanged unless a v2 certificate was
   added next to the v1 certificate (which keeps the old networks); a v2 certificate is dropped only if a v1
   certificate with its networks and curve stays; and the new certificates pair up *)
Theorem C42_identity : forall s c s', inv_b s = true -> reload_certs s c = Some s' -> accepted s c = true ->
  s' = state_of c /\ inv_b s' = true /\
  st_curve s' = st_curve s /\ st_prim s' = st_prim s /\
  (st_nets s' = st_nets s \/ v2_added_next_to_v1 s s') /\
  (forall b, s_v2 s = Some b -> s_v2 s' = None ->
     exists a', s_v1 s' = Some a' /\ k_nets a' = k_nets b /\ k_curve a' = k_curve b).
Proof. exact identity_thm. Qed.
Print Assumptions C42_identity.

(* contrapositive, as the statement has it: a reload that would change curve or primary network, change the networks
   other than by adding a v2 certificate next to the unchanged v1 one, or drop the v2 certificate without an
   equivalent v1 one, is refused and the previous certificates stay in use *)
Theorem C42_change_refused : forall s c s', inv_b s = true -> reload_certs s c = Some s' ->
  ~ identity_kept s (state_of c) -> accepted s c = false /\ s' = s.
Proof. exact change_refused. Qed.
Print Assumptions C42_change_refused.

(* the invariant, in words *)
Theorem C42_pairing_meaning : forall s, inv_b s = true <->
  (s_v1 s <> None \/ s_v2 s <> None) /\
  (forall a b, s_v1 s = Some a -> s_v2 s = Some b -> k_pub a = k_pub b /\ k_curve a = k_curve b /\ prim a = prim b) /\
  (forall a, s_v1 s = Some a -> k_pub a = s_kpub s) /\ (forall b, s_v2 s = Some b -> k_pub b = s_kpub s).
Proof. exact inv_b_paired. Qed.
Print Assumptions C42_pairing_meaning.

(* in every state reachable from a start-up by any sequence of reloads, the v1 and v2 certificates in use share one
   key pair (the private key's), one curve and one primary network; curve and primary network are those of start-up *)
Theorem C42_pairing : forall e p0 evs p, start e = Some (Some p0) -> run p0 evs = Some p ->
  inv_b (cs p0) = true /\ inv_b (cs p) = true /\
  st_curve (cs p) = st_curve (cs p0) /\ st_prim (cs p) = st_prim (cs p0).
Proof. exact pairing_thm. Qed.
Print Assumptions C42_pairing.

(* ... and every history is defined: start-up and each reload has an outcome *)
Theorem C42_history_defined : (forall e, exists r, start e = Some r) /\
  (forall evs p, inv_b (cs p) = true -> exists p', run p evs = Some p').
Proof. exact (conj start_defined run_defined). Qed.
Print Assumptions C42_history_defined.

(* over any history in which no reload adds a v2 certificate next to the v1 certificate of a v1-only state, the
   overlay network list is the one of the first state *)
Theorem C42_history_networks : forall evs p p', inv_b (cs p) = true -> run p evs = Some p' -> never_adds_v2 p evs ->
  st_nets (cs p') = st_nets (cs p).
Proof. exact run_networks. Qed.
Print Assumptions C42_history_networks.

(* the documented exception is real: adding a v2 certificate next to the v1 one is accepted although the v2
   certificate is not a superset (network 3 of the old list [1;3] is absent from the new list [1;2]) *)
Theorem C42_add_v2_changes_networks : exists s c s',
  inv_b s = true /\ reload_certs s c = Some s' /\ accepted s c = true /\
  st_nets s' <> st_nets s /\ exists n, In n (st_nets s) /\ ~ In n (st_nets s').
Proof. exact add_v2_changes_networks. Qed.
Print Assumptions C42_add_v2_changes_networks.

(* an unreadable CA bundle (missing file, malformed PEM, empty setting, a host certificate in it, trailing garbage),
   or one whose authorities have all expired, keeps the previous trust store - at one reload and along any history;
   the certificate half and the trust-store half of a reload do not influence each other *)
Theorem C42_ca_kept :
  (forall q c, ca_kind c <> 0 -> reload_ca q c = Some q) /\
  (forall q c, existsb (fun x => negb (snd x)) (ca_cas c) = false -> existsb (fun x => snd x) (ca_cas c) = true ->
     reload_ca q c = Some q) /\
  (forall evs p p', run p evs = Some p' -> Forall (fun e => ca_kind (snd e) <> 0) evs -> ca p' = ca p) /\
  (forall p e p', step p e = Some p' ->
     cs p' = (if accepted (cs p) (fst e) then state_of (fst e) else cs p) /\
     ca p' = (if ca_rule (ca_features (snd e)) then pool_of (snd e) else ca p)).
Proof. exact (conj ca_unreadable_kept (conj ca_all_expired_kept (conj run_ca_kept step_independent))). Qed.
Print Assumptions C42_ca_kept.

(* newly blocklisted or untrusted peers are disconnected on the next connection-manager check. BY REFERENCE TO THE
   C30 TABLE (ConnMgr.decide = lookup in gen/Tab_ConnMgr.v): the check's certificate feature is the peer's status
   against the trust store in use after the reload. Blocklisted: closed always; untrusted (issuer no longer an
   unexpired authority of the pool): closed when pki.disconnect_invalid is on (the default) *)
Theorem C42_disconnect : forall p e p' peer r x,
  step p e = Some p' -> ca_rule (ca_features (snd e)) = true ->
  ConnMgr_lib.r_cert r = peer_status (ca p') peer -> ConnMgr.decide r = Some x ->
  (nmem (snd peer) (ca_block (snd e)) = true ->
     ConnMgr_lib.d_dec x = DClose /\ ConnMgr_lib.d_removed x = true) /\
  (nmem (snd peer) (ca_block (snd e)) = false ->
   existsb (fun y => (fst y =? fst peer) && negb (snd y)) (ca_cas (snd e)) = false ->
   ConnMgr_lib.r_dinv r = true -> ConnMgr_lib.d_dec x = DClose /\ ConnMgr_lib.d_removed x = true).
Proof. exact reload_then_check. Qed.
Print Assumptions C42_disconnect.

(* the same for whatever trust store any history of reloads has put in use *)
Theorem C42_disconnect_reachable : forall p evs p' peer r x,
  run p evs = Some p' -> ConnMgr_lib.r_cert r = peer_status (ca p') peer -> ConnMgr.decide r = Some x ->
  (nmem (snd peer) (p_block (ca p')) = true -> ConnMgr_lib.d_dec x = DClose /\ ConnMgr_lib.d_removed x = true) /\
  (nmem (snd peer) (p_block (ca p')) = false -> trusted (ca p') (fst peer) = false -> ConnMgr_lib.r_dinv r = true ->
   ConnMgr_lib.d_dec x = DClose /\ ConnMgr_lib.d_removed x = true).
Proof. exact reachable_then_check. Qed.
Print Assumptions C42_disconnect_reachable.

(* C30  Tunnel teardown decisions follow the liveness policy.  Property theorems only.

   [decide] / [rehs_decide] / [swap_decide] are lookups in gen/Tab_ConnMgr.v, the complete tabulation of the
   real makeTrafficDecision + doTrafficCheck / tryRehandshake / shouldSwapPrimary over their abstract feature
   spaces (1536 + 24 + 12 feasible rows, >= 3 concrete situations each), regenerated from /repo on every run.
   The per-check theorems hold for ALL rows (finite domain swept completely); the history theorems for ALL
   histories of checks, by induction. *)
From Coq Require Import List NArith Bool.
Import ListNotations.
From NV Require Import lib.ConnMgr_lib gen.Tab_ConnMgr model.ConnMgr proofs.ConnMgr_proofs.
Open Scope N_scope.

(* T1: the constants the features are measured against, as documented *)
Theorem C30_constants :
  reject_after_messages = 2 ^ 64 - 1 - 2 ^ 40 /\ rehandshake_after_messages = 2 ^ 34 /\
  rehandshake_after_messages < reject_after_messages /\
  default_check_interval_ns = 5 * 10 ^ 9 /\ default_pending_deletion_interval_ns = 10 * 10 ^ 9 /\
  default_inactivity_timeout_ns = 600 * 10 ^ 9 /\ default_drop_inactive = false /\ default_disconnect_invalid = true.
Proof. repeat split; reflexivity. Qed.
Print Assumptions C30_constants.

(* the table answers every feature combination that can occur (an exhausted counter is past the rekey
   threshold, so never swap eligible) and no other *)
Theorem C30_table_total : forall r, feasible r = true <-> exists x, decide r = Some x.
Proof. exact table_total. Qed.
Print Assumptions C30_table_total.

(* a tunnel whose peer certificate is blocklisted is closed *)
Theorem C30_blocklisted_closed : forall r x, decide r = Some x -> r_cert r = CBlock ->
  d_dec x = DClose /\ d_removed x = true.
Proof. exact blocklisted_closed. Qed.
Print Assumptions C30_blocklisted_closed.

(* one whose certificate is no longer valid is closed when disconnect_invalid is on ... *)
Theorem C30_invalid_closed_when_on : forall r x, decide r = Some x -> r_cert r = CInvalid -> r_dinv r = true ->
  d_dec x = DClose /\ d_removed x = true.
Proof. exact invalid_closed_on. Qed.
Print Assumptions C30_invalid_closed_when_on.

(* ... and, when it is off, treated exactly like a tunnel with a valid certificate *)
Theorem C30_invalid_ignored_when_off : forall r x, decide r = Some x -> r_cert r = CInvalid -> r_dinv r = false ->
  decide (with_cert COk r) = Some x.
Proof. exact invalid_ignored_off. Qed.
Print Assumptions C30_invalid_ignored_when_off.

(* one whose message counter is exhausted is dropped (removed, the peer cannot be told) *)
Theorem C30_exhausted_dropped : forall r x, decide r = Some x -> r_exh r = true ->
  d_removed x = true /\ d_notify x = false /\ (cc r = false -> d_dec x = DDelete).
Proof. exact exhausted_dropped. Qed.
Print Assumptions C30_exhausted_dropped.

(* a test probe marks the tunnel (pendingDeletion, pending-deletion interval); only a primary with outbound
   but no inbound traffic is probed *)
Theorem C30_probe_marks : forall r x, decide r = Some x -> d_probe x = true ->
  d_dec x = DProbe /\ d_pd x = true /\ d_timer x = TPending /\ d_removed x = false /\
  r_primary r = true /\ r_out r = true /\ r_in r = false /\ r_pd r = false.
Proof. exact probe_marks. Qed.
Print Assumptions C30_probe_marks.

(* one that saw no inbound traffic since the probe (the mark) is dropped *)
Theorem C30_probe_unanswered_dropped : forall r x, decide r = Some x -> r_pd r = true -> r_in r = false ->
  d_removed x = true /\ (cc r = false -> d_dec x = DDelete).
Proof. exact unanswered_dropped. Qed.
Print Assumptions C30_probe_unanswered_dropped.

(* closed for idleness only if primary, drop_inactive on, idle >= the inactivity timeout (and no traffic) *)
Theorem C30_idle_close_only_if : forall r x, decide r = Some x -> d_dec x = DClose -> cc r = false ->
  r_primary r = true /\ r_dropi r = true /\ r_idle r = true /\ r_in r = false /\ r_out r = false.
Proof. exact close_only_if. Qed.
Print Assumptions C30_idle_close_only_if.

(* a tunnel that received traffic since the last check is never removed for lack of traffic *)
Theorem C30_inbound_never_removed : forall r x, decide r = Some x -> r_in r = true -> cc r = false -> r_exh r = false ->
  d_removed x = false /\ d_pd x = false /\ d_timer x = TCheck.
Proof. exact inbound_kept. Qed.
Print Assumptions C30_inbound_never_removed.

(* the exact rule: removed iff (certificate closes) or exhausted or unanswered or idle-close; the peer is
   notified iff the counter allows and the reason is the certificate or idleness; removed iff the decision is
   deleteTunnel or closeTunnel *)
Theorem C30_removed_exactly_when : forall r x, decide r = Some x ->
  d_removed x = exact_removed r /\ d_notify x = exact_notify r /\ d_removed x = removing (d_dec x).
Proof. exact removed_exact. Qed.
Print Assumptions C30_removed_exactly_when.

(* the executable statement of the property used by the correspondence accepts every row of the table *)
Theorem C30_table_meets_spec : forall r x, decide r = Some x -> spec_ok r (d_removed x) (d_notify x) = true.
Proof. exact table_meets_spec. Qed.
Print Assumptions C30_table_meets_spec.

(* a re-handshake is attempted on the checks of a primary that received traffic (certificate fine, counter not
   exhausted) ... *)
Theorem C30_rehandshake_attempted_iff : forall r x, decide r = Some x -> (d_dec x = DRehs <-> rehs_attempt r = true).
Proof. exact rehs_attempted_iff. Qed.
Print Assumptions C30_rehandshake_attempted_iff.

(* ... and then started exactly when our certificate of that version is gone, the peer's version is higher and
   we hold one, the signature differs (re-issued), the version is below the one we initiate with, or the
   counter passed the rekey threshold *)
Theorem C30_rehandshake_when : forall h y, rehs_decide h = Some y ->
  (y <> HNone <-> h_lc h = false \/ h_up h = true \/ h_se h = false \/ h_bi h = true \/ h_rk h = true).
Proof. exact rehs_started_iff. Qed.
Print Assumptions C30_rehandshake_when.

Theorem C30_rehandshake_table_total : forall h, rh_wf h = true <-> exists y, rehs_decide h = Some y.
Proof. exact rehs_total. Qed.
Print Assumptions C30_rehandshake_table_total.

(* ---- all histories of checks of a tunnel (run = fold of the table-driven step; any start state, any
   traffic flags, clock advances, certificate status, configuration and counter per check) ---------------- *)

(* a tunnel that received traffic since the previous check survives that check *)
Theorem C30_history_survive : forall clk st evs tr, run clk st evs = Some tr ->
  Forall (fun o => t_alive (o_before o) = true -> e_in (o_ev o) = true -> ev_cc (o_ev o) = false ->
                   e_ctr (o_ev o) <> CtrExh -> t_alive (o_after o) = true /\ t_pd (o_after o) = false) tr.
Proof. exact history_survive_run. Qed.
Print Assumptions C30_history_survive.

(* a primary that sent a probe and saw nothing is deleted at the next check *)
Theorem C30_history_probe : forall clk st evs tr, run clk st evs = Some tr ->
  forall pre o1 o2 post, tr = pre ++ o1 :: o2 :: post ->
  d_probe (o_res o1) = true -> t_alive (o_before o1) = true -> e_in (o_ev o2) = false ->
  t_alive (o_after o2) = false /\ d_removed (o_res o2) = true.
Proof. exact history_probe_run. Qed.
Print Assumptions C30_history_probe.

(* an idle primary is closed only with drop_inactive, and no earlier than the inactivity timeout after the
   initial lastUsed and after every earlier check that saw traffic in either direction *)
Theorem C30_history_idle : forall clk st evs tr, run clk st evs = Some tr ->
  (forall l, t_last st = Some l -> l <= clk) ->
  forall pre o post, tr = pre ++ o :: post ->
  d_dec (o_res o) = DClose -> ev_cc (o_ev o) = false ->
  e_dropi (o_ev o) = true /\ o_primary o = true /\
  (forall l, t_last st = Some l -> e_timeout (o_ev o) <= o_now o - l) /\
  (forall o', In o' pre -> traffic o' = true -> e_timeout (o_ev o) <= o_now o - o_now o').
Proof. exact history_idle. Qed.
Print Assumptions C30_history_idle.

(* histories never leave the tables as long as "same signature" is only claimed of a loaded certificate *)
Theorem C30_history_defined : forall evs clk st,
  Forall (fun pe => ev_feasible (snd pe) = true) evs -> exists tr, run clk st evs = Some tr.
Proof. exact run_total. Qed.
Print Assumptions C30_history_defined.

(* Non-vacuity. A new primary with outbound traffic only is probed, then deleted; with inbound traffic it
   lives, rests, and (drop_inactive on, 10 min timeout) is closed for idleness at the first check 10 min after
   its last traffic, not at the one a nanosecond earlier. *)
Definition ev0 (dt : N) (i o : bool) : bool * event :=
  (true, mkEv dt i o COk true CtrLow true 600000000000 true true true false false).

Example C30_nonvacuous_probe :
  option_map (map (fun o => (d_dec (o_res o), t_alive (o_after o)))) (run 0 t_init [ev0 5000000000 false false; ev0 10000000000 false false])
  = Some [(DProbe, true); (DDelete, false)].
Proof. vm_compute. reflexivity. Qed.

Example C30_nonvacuous_idle :
  option_map (map (fun o => (d_dec (o_res o), t_alive (o_after o))))
    (run 0 t_init [ev0 5000000000 true true; ev0 5000000000 false false; ev0 594999999999 false false; ev0 1 false false])
  = Some [(DRehs, true); (DNothing, true); (DNothing, true); (DClose, false)].
Proof. vm_compute. reflexivity. Qed.

Example C30_nonvacuous_rehandshake :
  rehs_decide (mkRh true false true false true) = Some HStart /\ rehs_decide (mkRh true false false false false) = Some HStart /\
  rehs_decide (mkRh true false true false false) = Some HNone.
Proof. vm_compute. repeat split. Qed.

(* C14  Unauthenticated packets have no effect.  Property theorems only.
   [read_outside] is the effect set the real readOutsidePackets produced for a datagram with the given features
   (gen/Tab_Outside.v, regenerated from the code on every run). *)
From Coq Require Import List NArith Bool.
Import ListNotations.
From NV Require Import lib.Outside_lib gen.Tab_Outside model.Outside proofs.Outside_proofs.
Open Scope N_scope.

(* The table covers the whole feature space: every datagram description has an entry. *)
Theorem C14_table_total : forall r, feasible r = true -> exists m, read_outside r = Some m.
Proof. exact read_total. Qed.
Print Assumptions C14_table_total.

(* A datagram shorter than a header does nothing. *)
Theorem C14_short : tab_short = 0.
Proof. reflexivity. Qed.
Print Assumptions C14_short.

(* Every effect other than answering with a recv_error (delivery to the tun, closing a tunnel, roaming, liveness
   update, window update, lighthouse handler, relay control, forwarding, test reply, unwrapping a relayed payload)
   requires a packet of the right version whose index resolves to a tunnel, whose AEAD tag verifies under that
   tunnel's key and whose counter the replay window accepts - or the packet is of the unencrypted types Handshake
   (handshake manager, C05-C10) or RecvError (see C14_recv_error_refuted). *)
Theorem C14_gated : forall r m e,
  read_outside r = Some m -> has e m = true -> e <> e_recverr ->
  authfresh r = true \/ r_ty r = t_handshake \/ r_ty r = t_recv_error.
Proof. exact gated. Qed.
Print Assumptions C14_gated.

(* A packet that is not authentic and fresh, not a handshake and not in the recv_error region does nothing at all
   at the receiver except, possibly, being answered with a recv_error. *)
Theorem C14_unauthenticated_inert : forall r m e,
  read_outside r = Some m -> authfresh r = false -> r_ty r <> t_handshake -> f12_region r = false ->
  has e m = true -> e = e_recverr.
Proof.
  intros r m e L Ha Hh Hf He. apply has_bit. exact (subset_has _ _ _ (unauth_inert r m L Ha Hh Hf) He).
Qed.
Print Assumptions C14_unauthenticated_inert.

(* A tunnel is closed only by an authentic fresh CloseTunnel message - or by a recv_error in the F12 region.
   (Handshake rows of the table describe a first handshake message of a node the receiver holds no tunnel for;
   what handshake packets do to existing tunnels is the subject of C05-C10, not of this table.) *)
Theorem C14_close : forall r m,
  read_outside r = Some m -> has e_close m = true ->
  (r_ty r = t_close_tunnel /\ authfresh r = true) \/ f12_region r = true.
Proof. exact close_only. Qed.
Print Assumptions C14_close.

(* "Only an authenticated close message tears a tunnel down remotely" holds as stated exactly when
   listen.accept_recv_error does not permit the source (never, or private with a public source). *)
Theorem C14_close_authenticated_only : forall r m,
  r_cfgA r = false -> read_outside r = Some m -> has e_close m = true ->
  r_ty r = t_close_tunnel /\ authfresh r = true.
Proof. exact close_strict. Qed.
Print Assumptions C14_close_authenticated_only.

(* The property as stated is REFUTED by the code in its default configuration (finding F12): a 16-byte recv_error,
   no key involved, carrying the peer's index of a tunnel and arriving from that tunnel's current underlay address -
   or from any address when the tunnel has no direct remote - closes the tunnel. *)
Theorem C14_recv_error_refuted :
  default_accept_recv_error_always = true /\
  exists r m, r_auth r = false /\ r_full r = false /\ r_cfgA r = true /\ r_rm r = MMatch /\
              read_outside r = Some m /\ has e_close m = true /\ spec_ok r m = false.
Proof.
  split; [reflexivity|]. exists f12_witness, m_close. vm_compute. repeat split; reflexivity.
Qed.
Print Assumptions C14_recv_error_refuted.

Theorem C14_recv_error_refuted_relayed_tunnel :
  exists r m, r_auth r = false /\ r_cfgA r = true /\ r_rm r = MInvalid /\
              read_outside r = Some m /\ has e_close m = true /\ spec_ok r m = false.
Proof. exists f12_witness_relayed_tunnel, m_close. vm_compute. repeat split; reflexivity. Qed.
Print Assumptions C14_recv_error_refuted_relayed_tunnel.

(* Outside exactly that region the code meets the documented rule. *)
Theorem C14_rule_outside_region : forall r m,
  read_outside r = Some m -> f12_region r = false -> spec_ok r m = true.
Proof.
  intros r m L Hf. pose proof (tab_all_read _ tab_spec_outside_region r m L) as S. cbn beta in S.
  rewrite Hf in S. exact S.
Qed.
Print Assumptions C14_rule_outside_region.

(* The region is exact: a recv_error closes a tunnel iff accept_recv_error permits the source, the index is a
   peer index of a tunnel, the source is the tunnel's remote or the tunnel has none, version and subtype are valid
   and the source is not inside my own overlay networks; and closing is all a recv_error can do. *)
Theorem C14_recv_error_exact : forall r m,
  read_outside r = Some m -> r_ty r = t_recv_error ->
  subset m m_close = true /\
  has e_close m = f12_region r && r_ver r && (r_st r =? 0) && negb (via_eqb (r_via r) VVpn).
Proof.
  intros r m L Ht. assert (R : is_re r = true) by (unfold is_re; now apply N.eqb_eq).
  pose proof (tab_all_read _ tab_re_scope r m L) as S1. pose proof (tab_all_read _ tab_f12_exact r m L) as S2.
  cbn beta in S1, S2. rewrite R in S1, S2. cbn [implb] in S1, S2. split; [exact S1|]. now apply eqb_prop.
Qed.
Print Assumptions C14_recv_error_exact.

(* A handshake-typed packet reaches nothing but the handshake manager. *)
Theorem C14_handshake_scope : forall r m,
  read_outside r = Some m -> r_ty r = t_handshake -> subset m m_hs = true.
Proof.
  intros r m L Ht. assert (R : is_hs r = true) by (unfold is_hs; now apply N.eqb_eq).
  pose proof (tab_all_read _ tab_hs_scope r m L) as S. cbn beta in S. rewrite R in S. exact S.
Qed.
Print Assumptions C14_handshake_scope.

(* The replay window moves only for authentic fresh packets, so a forged or replayed packet cannot make later
   genuine packets look stale. *)
Theorem C14_window : forall r m, read_outside r = Some m -> has e_win m = true -> authfresh r = true.
Proof.
  intros r m L H. pose proof (tab_all_read _ tab_win_iff r m L) as S. cbn beta in S. rewrite H in S.
  apply eqb_prop in S. symmetry in S. apply andb_true_iff in S as [S _]. now apply andb_true_iff in S as [S _].
Qed.
Print Assumptions C14_window.

(* All histories: whatever sequence of datagrams arrives (any window implementation), the receiver ends in the
   state it reaches on the sub-history of the datagrams that acted - so every digest of that state is the same -
   and each of those was, for the state it met, authentic and fresh, a handshake packet, or in the F12 region. *)
Theorem C14_history : forall (W : Type) (wcheck : W -> N -> bool) (wupdate : W -> N -> W) (X : Type) (digest : state W -> X)
  (h : list pkt) (s : state W),
  digest (run W wcheck wupdate s h) = digest (run W wcheck wupdate s (acted W wcheck wupdate s h)) /\
  sublist (acted W wcheck wupdate s h) h.
Proof.
  intros. split; [f_equal; apply run_acted|apply acted_sublist].
Qed.
Print Assumptions C14_history.

Theorem C14_history_justified : forall (W : Type) (wcheck : W -> N -> bool) (s : state W) (p : pkt),
  acted_at W wcheck s p = true -> justified W wcheck s p.
Proof. exact acted_justified. Qed.
Print Assumptions C14_history_justified.

(* a datagram that did not act leaves the receiver - windows included - exactly as it was *)
Theorem C14_history_inert : forall (W : Type) (wcheck : W -> N -> bool) (wupdate : W -> N -> W) (s : state W) (p : pkt),
  acted_at W wcheck s p = false -> step W wcheck wupdate s p = s.
Proof. exact step_inert. Qed.
Print Assumptions C14_history_inert.

(* The hypotheses are met by real rows, and authentic fresh packets do act: a data packet is delivered, roams and
   marks the tunnel live; a forged copy (same features, tag not verifying) does nothing; a replay does nothing. *)
Example C14_nonvacuous :
  let good := mkRow t_message 0 true VDirect true true true true true true RNA MNA in
  let forged := mkRow t_message 0 true VDirect true true true true false true RNA MNA in
  let replay := mkRow t_message 0 true VDirect true true true true true false RNA MNA in
  let stray := mkRow t_message 0 true VDirect true true false true false false RNA MNA in
  read_outside good = Some (mask_of [e_deliver; e_roam; e_live; e_win]) /\
  read_outside forged = Some 0 /\ read_outside replay = Some 0 /\ read_outside stray = Some m_recverr.
Proof. vm_compute. repeat split; reflexivity. Qed.

(* a history over a toy window (highest counter seen): the forged and the replayed datagram drop out *)
Example C14_history_example :
  let wcheck := fun (w c : N) => w <? c in
  let wupdate := fun (w c : N) => N.max w c in
  let good := mkRow t_message 0 true VDirect true true true true true true RNA MNA in
  let forged := mkRow t_message 0 true VDirect true true true true false true RNA MNA in
  let s0 := mkState N (fun _ => 2) [] in
  let h := [mkPkt forged 7 3 100; mkPkt good 7 3 101; mkPkt good 7 3 101; mkPkt good 7 4 102] in
  map p_id (acted N wcheck wupdate s0 h) = [101; 102].
Proof. vm_compute. reflexivity. Qed.

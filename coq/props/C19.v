(* C19  Tracked flows are revalidated after a rule reload.  Property theorems only.

   Setting as in props/C18.v; a history may contain any number of reloads [EReload rs tcp udp def] (a reload that
   installs a new firewall with rule set rs and new timeouts: Interface.reloadFirewall, model/FwReload.v).

   What the code guarantees at the uint16 wrap of rulesVersion (65535 -> 0): the new firewall keeps its own empty
   conntrack, i.e. every tracked flow is forgotten (C19_wrap_resets). So no entry survives a wrap, and within an epoch
   versions only grow: an entry that carries the current version was validated against the current rules
   (C19_current_version_means_validated), for any number of reloads. The price: at the wrap a reload that changes
   nothing about the rules does cut established flows (C19_same_rules_wrap_refuted; known finding F25, signature
   reload-version-wrap) - which is why C19_same_rules_never_cut and C19_history_spec_as_stated carry the no-wrap
   hypothesis. *)
From Coq Require Import List ZArith NArith Bool.
Import ListNotations.
From NV Require Import gen.Consts_Conntrack model.Wheel model.Conntrack model.FwReload
  proofs.Conntrack_proofs proofs.FwReload_proofs proofs.Conntrack_cache.
Open Scope Z_scope.

(* ALL histories of packets, sleeps and reloads, every flow: the verdicts satisfy the history-level specification:
   after a reload a tracked flow is honoured only once its ORIGINAL direction has been re-checked against the rules
   now loaded (flag fr of FKnown), by the first packet of the flow after the reload; if that fails the flow is
   forgotten and the packet is judged by the rules alone; at the wrap every flow is forgotten (`true`). *)
Theorem C19_history_spec : forall allowed addr_ok rs v0 tcp udp def t0 h f,
  (v0 < 65536)%N ->
  flow_ok allowed addr_ok true f (spec_boot rs v0 tcp udp def t0) h
          (verdicts allowed addr_ok h (boot rs v0 tcp udp def t0)) = true.
Proof.
  intros. apply model_meets_spec; [now apply vinv_boot|apply Rf_boot].
Qed.
Print Assumptions C19_history_spec.

(* The specification as the property states it ([flow_ok ... false]: a reload only ever marks flows for revalidation,
   it never forgets one whose original direction the new rules allow) holds on every history in which rulesVersion
   does not wrap. This is the specification the correspondence evaluates on the implementation's verdicts; the wrap
   is the known finding F25 (C19_same_rules_wrap_refuted). *)
Theorem C19_history_spec_as_stated : forall allowed addr_ok rs v0 tcp udp def t0 h f,
  (v0 < 65536)%N -> no_wrap v0 h = true ->
  flow_ok allowed addr_ok false f (spec_boot rs v0 tcp udp def t0) h
          (verdicts allowed addr_ok h (boot rs v0 tcp udp def t0)) = true.
Proof.
  intros. rewrite flow_ok_no_wrap by assumption. apply model_meets_spec; [now apply vinv_boot|apply Rf_boot].
Qed.
Print Assumptions C19_history_spec_as_stated.

(* After any sequence of reloads and traffic: a packet passes only if the address checks pass and either a rule of
   the rules NOW loaded allows it, or its flow is tracked, not idle past its timeout, and the flow's ORIGINAL
   direction is allowed by the rules now loaded (for a peer owning the remote address: this packet's peer if the
   entry is revalidated now, the peer that validated it since the last reload otherwise). *)
Theorem C19_revalidated : forall allowed addr_ok rs v0 tcp udp def t0 h p d t,
  (v0 < 65536)%N ->
  let n := exec allowed addr_ok h (boot rs v0 tcp udp def t0) in
  fst (step allowed addr_ok (EPkt p d t) n) = Some true ->
  addr_ok (f_rules (n_fw n)) p t = true /\
  (allowed (f_rules (n_fw n)) p d t = true \/
   exists c, cfind t (conns_of n) = Some c /\ n_now n <= c_exp c /\
             exists p', addr_ok (f_rules (n_fw n)) p' t = true /\ allowed (f_rules (n_fw n)) p' (c_in c) t = true).
Proof.
  intros allowed addr_ok rs v0 tcp udp def t0 h p d t L n P.
  apply pass_justified; [|exact P].
  apply inv_exec; [now apply vinv_boot|apply ivalid_boot].
Qed.
Print Assumptions C19_revalidated.

(* ... otherwise the flow is forgotten, and stays forgotten: after a refused packet of f (for instance one whose
   flow failed revalidation), through any further reloads, sleeps and other traffic, packets of f that the rules
   loaded at their time do not allow are refused. *)
Theorem C19_forgotten_stays_forgotten : forall allowed addr_ok rs v0 tcp udp def t0 h1 p d f h2,
  let n := exec allowed addr_ok h1 (boot rs v0 tcp udp def t0) in
  addr_ok (f_rules (n_fw n)) p f = true ->
  fst (step allowed addr_ok (EPkt p d f) n) = Some false ->
  quiet allowed addr_ok f (f_rules (n_fw n)) h2 = true ->
  forallb negb (restrict f h2 (verdicts allowed addr_ok h2 (snd (step allowed addr_ok (EPkt p d f) n)))) = true.
Proof.
  intros allowed addr_ok rs v0 tcp udp def t0 h1 p d f h2 n A R Q.
  destruct (step_pkt_fw allowed addr_ok p d f n) as [Efw _].
  apply (dead_stays allowed addr_ok f h2); [now apply refused_dead|now rewrite Efw].
Qed.
Print Assumptions C19_forgotten_stays_forgotten.

(* A reload that changes nothing about how the rules decide flow t (and whatever it does to the timeouts) never
   cuts it: a packet that passes before the reload passes right after it - provided the version counter does not
   wrap, and each remote address belongs to one peer. *)
Theorem C19_same_rules_never_cut : forall allowed addr_ok rs v0 tcp udp def t0 h p d t rs' tcp' udp' def',
  (v0 < 65536)%N ->
  let n := exec allowed addr_ok h (boot rs v0 tcp udp def t0) in
  (forall p1 p2, addr_ok (f_rules (n_fw n)) p1 t = true -> addr_ok (f_rules (n_fw n)) p2 t = true -> p1 = p2) ->
  (forall q dd, allowed rs' q dd t = allowed (f_rules (n_fw n)) q dd t) ->
  (forall q, addr_ok rs' q t = addr_ok (f_rules (n_fw n)) q t) ->
  next_ver (f_ver (n_fw n)) <> 0%N ->
  fst (step allowed addr_ok (EPkt p d t) n) = Some true ->
  fst (step allowed addr_ok (EPkt p d t) (reload rs' tcp' udp' def' n)) = Some true.
Proof.
  intros allowed addr_ok rs v0 tcp udp def t0 h p d t rs' tcp' udp' def' L n Ex SA SO NW P.
  destruct (inv_exec allowed addr_ok h (boot rs v0 tcp udp def t0)) as [V IV];
    [now apply vinv_boot|apply ivalid_boot|].
  now apply same_rules_keeps.
Qed.
Print Assumptions C19_same_rules_never_cut.

(* With a routine-local conntrack cache a reload does not empty the cache, so a cached flow skips revalidation - but
   only until the next tick: after any reloads, a packet no rule allows passes only if the table honours its flow under
   the rules NOW loaded, or honoured a packet of it (under the rules loaded then) within the current cache period. *)
Theorem C19_cache_staleness_bounded : forall allowed addr_ok rs v0 tcp udp def t0 P h p d f,
  let cn0 := cboot (boot rs v0 tcp udp def t0) P in
  let cn := cexec allowed addr_ok h cn0 in
  fst (cstep allowed addr_ok (EPkt p d f) cn) = Some true ->
  allowed (f_rules (n_fw (cn_node cn))) p d f = false ->
  table_live allowed addr_ok p f (cn_node cn) \/
  exists h1 p' d' h2, h = h1 ++ EPkt p' d' f :: h2 /\
    table_live allowed addr_ok p' f (cn_node (cexec allowed addr_ok h1 cn0)) /\
    no_tick P t0 (n_now (cn_node (cexec allowed addr_ok h1 cn0))) h2 = true.
Proof. intros. now apply (cache_pass_justified allowed addr_ok p d f h cn0). Qed.
Print Assumptions C19_cache_staleness_bounded.

(* all histories with reloads and a cache: the specification with a cache, as the property states it (no reset at the
   version wrap), on histories without a wrap *)
Theorem C19_cache_history_spec_as_stated : forall allowed addr_ok rs v0 tcp udp def t0 P h f,
  (v0 < 65536)%N -> no_wrap v0 h = true ->
  cflow_ok allowed addr_ok false f (cspec_boot (spec_boot rs v0 tcp udp def t0) P) h
           (cverdicts allowed addr_ok h (cboot (boot rs v0 tcp udp def t0) P)) = true.
Proof.
  intros. rewrite cflow_ok_no_wrap by assumption.
  apply cache_model_meets_spec; [now apply vinv_boot|apply CR_boot, Rf_boot].
Qed.
Print Assumptions C19_cache_history_spec_as_stated.

(* The wrap: the reload that takes rulesVersion from 65535 to 0 leaves an empty conntrack. *)
Theorem C19_wrap_resets : forall rs tcp udp def n,
  next_ver (f_ver (n_fw n)) = 0%N -> conns_of (reload rs tcp udp def n) = [].
Proof. exact reload_wrap_empty. Qed.
Print Assumptions C19_wrap_resets.

(* Any number of reloads (65 536 and more): no entry carries a version above the firewall's, and an entry that
   carries the firewall's version was validated against the rules now loaded - a stale entry never looks current. *)
Theorem C19_current_version_means_validated : forall allowed addr_ok rs v0 tcp udp def t0 h t c,
  (v0 < 65536)%N ->
  let n := exec allowed addr_ok h (boot rs v0 tcp udp def t0) in
  cfind t (conns_of n) = Some c ->
  (c_ver c <= f_ver (n_fw n))%N /\
  (c_ver c = f_ver (n_fw n) ->
   exists p, addr_ok (f_rules (n_fw n)) p t = true /\ allowed (f_rules (n_fw n)) p (c_in c) t = true).
Proof.
  intros allowed addr_ok rs v0 tcp udp def t0 h t c L n F.
  destruct (inv_exec allowed addr_ok h (boot rs v0 tcp udp def t0)) as [V IV];
    [now apply vinv_boot|apply ivalid_boot|].
  split; [now apply (proj2 V t)|now apply IV].
Qed.
Print Assumptions C19_current_version_means_validated.

(* ---- the wrap cuts flows that the rules still allow ----------------------------------------------------------------
   rulesVersion 65535; flow f allowed inbound, its reply rides on the tracked flow; a reload to the SAME rules
   (version 0: conntrack reset) and the reply is refused. One version earlier the same reload keeps the flow. *)
Definition wit_allowed (rs p : N) (d : bool) (t : tuple) : bool := d.
Definition wit_addr_ok (rs p : N) (t : tuple) : bool := true.
Definition wit_f : tuple := (1, 2, 10, 90, 6, false)%N.
Definition wit_h : list ev :=
  [EPkt 0 true wit_f; EPkt 0 false wit_f; EReload 0 720000000000 180000000000 600000000000; EPkt 0 false wit_f].

Theorem C19_same_rules_wrap_refuted :
  verdicts wit_allowed wit_addr_ok wit_h (boot 0 65535 720000000000 180000000000 600000000000 0) = [true; true; false] /\
  verdicts wit_allowed wit_addr_ok wit_h (boot 0 65534 720000000000 180000000000 600000000000 0) = [true; true; true].
Proof. vm_compute. split; reflexivity. Qed.
Print Assumptions C19_same_rules_wrap_refuted.

(* the hypotheses of C19_same_rules_never_cut are satisfiable (one peer owns the remote address, no wrap, the
   packet passes on the tracked flow), and its conclusion holds there *)
Definition wit_owner (rs p : N) (t : tuple) : bool := N.eqb p 0.
Example C19_nonvacuous :
  let n := exec wit_allowed wit_owner [EPkt 0 true wit_f] (boot 0 65534 720000000000 180000000000 600000000000 0) in
  (forall p1 p2, wit_owner (f_rules (n_fw n)) p1 wit_f = true -> wit_owner (f_rules (n_fw n)) p2 wit_f = true -> p1 = p2) /\
  next_ver (f_ver (n_fw n)) <> 0%N /\
  wit_allowed (f_rules (n_fw n)) 0%N false wit_f = false /\
  fst (step wit_allowed wit_owner (EPkt 0 false wit_f) n) = Some true /\
  fst (step wit_allowed wit_owner (EPkt 0 false wit_f) (reload 0 1 2 3 n)) = Some true.
Proof.
  cbv zeta. split.
  - unfold wit_owner. intros p1 p2 E1 E2. apply N.eqb_eq in E1, E2. congruence.
  - vm_compute. repeat split. discriminate.
Qed.

(* C24  Superpacket segmentation yields valid original segments.  Property theorems only.

   Vocabulary (model/Segment.v):  [segment_l4 tcp pkt hl cs g]  is SegmentTCP (tcp = true) / SegmentUDP (tcp = false)
   with its incremental checksum arithmetic, on the superpacket  pkt  with L3+L4 header length hl, L3 header length
   (csum_start) cs and segment size g;  [wf_l4 tcp pkt hl cs g]  says that pkt is a TCP/UDP superpacket: bytes,
   g >= 1, hl <= |pkt|, hl <= 120, IPv4 with 20 <= IHL*4 <= cs or IPv6 with cs >= 40, the L4 header is hl - cs
   bytes (TCP: the data offset, >= 20; UDP: 8) and every segment fits the 16-bit length fields.
   No bound on the payload length, the number of segments, g, the flags, the ID or the sequence number. *)
From Coq Require Import List NArith Bool Arith.
Import ListNotations.
From NV Require Import lib.Bytes lib.Ones model.Segment proofs.Segment_ref proofs.Segment_main proofs.Segment_inplace
  proofs.Segment_pipe.
Open Scope N_scope.

(* The per-segment incremental computation (base header sums computed once with the variable fields complemented out;
   length, ID, sequence number, flags and payload sum added per segment; 32/64-bit accumulators folded) yields exactly
   the segments of the from-scratch reference, which sets the fields on a copy of the header and computes the IPv4
   header checksum and the TCP/UDP checksum over the complete regions. Never an error on a well-formed superpacket. *)
Theorem C24_incremental_equals_reference : forall tcp pkt hl cs g,
  wf_l4 tcp pkt hl cs g -> segment_l4 tcp pkt hl cs g = Some (segments_ref tcp pkt hl cs g).
Proof. exact segment_l4_ref. Qed.
Print Assumptions C24_incremental_equals_reference.

(* Payloads: ceil(|payload| / g) segments (one for a header-only superpacket); their payloads are the consecutive
   g-byte pieces of the original payload, so they concatenate to it in order; each is at most g, all but the last
   exactly g, none empty unless the superpacket has no payload; segment i starts at payload offset i*g. *)
Theorem C24_payload : forall tcp pkt hl cs g segs,
  wf_l4 tcp pkt hl cs g -> segment_l4 tcp pkt hl cs g = Some segs ->
  length segs = seg_count (length (skipn hl pkt)) g /\ (1 <= length segs)%nat /\
  concat (map (skipn hl) segs) = skipn hl pkt /\
  forall i, (i < length segs)%nat ->
    let s := nth i segs [] in
    (hl <= length s)%nat /\
    skipn hl s = chunk_ref (skipn hl pkt) g i /\
    (length s - hl <= g)%nat /\
    ((i + 1 < length segs)%nat -> length s = (hl + g)%nat) /\
    ((0 < length (skipn hl pkt))%nat -> (hl < length s)%nat) /\
    length (concat (map (skipn hl) (firstn i segs))) = (i * g)%nat.
Proof. exact payload_thm. Qed.
Print Assumptions C24_payload.

(* L3 of every segment: version/IHL byte copied; IPv4: total length = the segment's length, ID = original ID + i
   mod 2^16, header checksum valid over the IHL bytes; IPv6: payload length = the segment's length - 40. *)
Theorem C24_valid_ip : forall tcp pkt hl cs g segs i,
  wf_l4 tcp pkt hl cs g -> segment_l4 tcp pkt hl cs g = Some segs -> (i < length segs)%nat ->
  let s := nth i segs [] in
  bat s 0 = bat pkt 0 /\
  (is_v4 pkt = true ->
     rd16 s 2 = N.of_nat (length s) /\ rd16 s 4 = (rd16 pkt 4 + N.of_nat i) mod 65536 /\
     valid_csum (firstn (ihl_of s) s)) /\
  (is_v4 pkt = false -> rd16 s 4 = N.of_nat (length s - 40)).
Proof. intros tcp pkt hl cs g segs i WF SEG Hi. exact (l3_thm tcp pkt hl cs g segs WF SEG i Hi). Qed.
Print Assumptions C24_valid_ip.

(* L4 of every segment: the TCP/UDP checksum is valid over pseudo-header (the segment's own addresses, protocol,
   L4 length = segment length - cs) ++ L4 header ++ payload. *)
Theorem C24_valid_transport : forall tcp pkt hl cs g segs i,
  wf_l4 tcp pkt hl cs g -> segment_l4 tcp pkt hl cs g = Some segs -> (i < length segs)%nat ->
  let s := nth i segs [] in
  valid_csum (pseudo_hdr (is_v4 pkt) s (l4_proto tcp) (N.of_nat (length s - cs)) ++ skipn cs s).
Proof. intros tcp pkt hl cs g segs i WF SEG Hi. exact (l4_thm tcp pkt hl cs g segs WF SEG i Hi). Qed.
Print Assumptions C24_valid_transport.

(* UDP: the length field is the segment's L4 length; the stored checksum is the complement of the sum over
   pseudo-header ++ datagram with a zeroed field, except that a computed 0 is stored as 0xffff (RFC 768) - so the
   field is never 0 ("no checksum"). *)
Theorem C24_udp_fields : forall pkt hl cs g segs i,
  wf_udp pkt hl cs g -> segment_udp pkt hl cs g = Some segs -> (i < length segs)%nat ->
  let s := nth i segs [] in
  rd16 s (cs + 4) = N.of_nat (length s - cs) /\
  rd16 s (cs + 6) <> 0 /\
  (let c := csum16 (pseudo_hdr (is_v4 pkt) s IPPROTO_UDP (N.of_nat (length s - cs)) ++ wr16 (skipn cs s) 6 0) 0 in
   rd16 s (cs + 6) = if c =? 0 then 65535 else c).
Proof. exact udp_fields_thm. Qed.
Print Assumptions C24_udp_fields.

(* TCP: the sequence number advances by the payload delivered before segment i (i*g, see C24_payload) modulo 2^32;
   flag bit 7 (CWR) survives on the first segment only, bits 0 (FIN) and 3 (PSH) on the last only, every other
   bit is copied. *)
Theorem C24_tcp_fields : forall pkt hl cs g segs i,
  wf_tcp pkt hl cs g -> segment_tcp pkt hl cs g = Some segs -> (i < length segs)%nat ->
  let s := nth i segs [] in
  rd32 s (cs + 4) = (rd32 pkt (cs + 4) + N.of_nat (i * g)) mod 4294967296 /\
  forall bit, N.testbit (bat s (cs + 13)) bit = N.testbit (bat pkt (cs + 13)) bit && flag_kept bit i (length segs).
Proof. exact tcp_fields_thm. Qed.
Print Assumptions C24_tcp_fields.

(* Every header byte outside the rewritten fields (addresses, protocol / next header, TTL, IP options, extension
   headers, ports, ack, data offset, window, urgent pointer, TCP options) is the superpacket's. *)
Theorem C24_header_copied : forall tcp pkt hl cs g segs i k,
  wf_l4 tcp pkt hl cs g -> segment_l4 tcp pkt hl cs g = Some segs ->
  (i < length segs)%nat -> (k < hl)%nat -> rewritten tcp (is_v4 pkt) cs k = false ->
  bat (nth i segs []) k = bat pkt k.
Proof. intros tcp pkt hl cs g segs i k WF SEG Hi Hk Hr. exact (copied_thm tcp pkt hl cs g segs WF SEG i k Hi Hk Hr). Qed.
Print Assumptions C24_header_copied.

(* The in-place buffer manipulation of the Go loop (stamp the saved header at i*g, patch at absolute offsets, slice)
   yields the same segments: a stamp never overwrites payload still to be delivered - for any g, including g < hl. *)
Theorem C24_inplace_tcp : forall pkt hl cs g,
  wf_tcp pkt hl cs g -> segment_tcp_inplace pkt hl cs g = segment_tcp pkt hl cs g.
Proof. exact segment_tcp_inplace_eq. Qed.
Print Assumptions C24_inplace_tcp.

Theorem C24_inplace_udp : forall pkt hl cs g,
  wf_udp pkt hl cs g -> segment_udp_inplace pkt hl cs g = segment_udp pkt hl cs g.
Proof. exact segment_udp_inplace_eq. Qed.
Print Assumptions C24_inplace_udp.

(* What decodeRead (virtio_net_hdr parsing, CheckValid, CorrectHdrLen, protoFromGSOType) and the error returns of the
   segmenters establish: a read that is turned into a superpacket and segmented without an error is well formed -
   given the two facts the code does not check and the kernel guarantees (IPv6: csum_start >= 40; segments fit
   16-bit length fields, e.g. |pkt| <= 65535). *)
Theorem C24_pipeline_wellformed : forall pkt vh tcp hl cs g segs,
  bytes_ok pkt = true -> v_csumstart vh < 65536 ->
  decode_read pkt vh = DSuper tcp hl cs g ->
  segment_l4 tcp pkt hl cs g = Some segs ->
  (is_v4 pkt = false -> (40 <= cs)%nat) ->
  N.of_nat (hl + Nat.min g (length pkt - hl)) <= 65535 ->
  wf_l4 tcp pkt hl cs g.
Proof. exact decode_read_wf. Qed.
Print Assumptions C24_pipeline_wellformed.

(* ---- the hypotheses are satisfiable; the wrap-arounds happen ---- *)

(* IPv4 with one option word (IHL 6), ID 0xffff; TCP with one option word (data offset 6), sequence number
   0xfffffffe, flags CWR|ACK|PSH|FIN; five payload bytes cut at g = 2 *)
Definition ex_tcp4 : list N :=
  [70; 0; 0; 0; 255; 255; 0; 0; 64; 6; 0; 0; 10; 0; 0; 1; 10; 0; 0; 2; 1; 2; 3; 4] ++
  [18; 52; 0; 80; 255; 255; 255; 254; 0; 0; 0; 1; 96; 153; 255; 255; 0; 0; 0; 0; 1; 1; 1; 1] ++
  [1; 2; 3; 4; 5].

Example C24_nonvacuous_tcp4 :
  wf_tcp ex_tcp4 48 24 2 /\
  exists segs, segment_tcp ex_tcp4 48 24 2 = Some segs /\
    map (fun s => length s) segs = [50; 50; 49]%nat /\
    map (fun s => rd16 s 4) segs = [65535; 0; 1] /\
    map (fun s => rd32 s 28) segs = [4294967294; 0; 2] /\
    map (fun s => bat s 37) segs = [144; 16; 25].
Proof.
  split; [apply wf_tcpb_iff; vm_compute; reflexivity|].
  eexists. split; [vm_compute; reflexivity|]. vm_compute. repeat split; reflexivity.
Qed.

(* IPv6 UDP, seven payload bytes cut at g = 3; and a header-only IPv6 UDP superpacket (one segment) *)
Definition ex_udp6 (pay : list N) : list N :=
  [96; 0; 0; 0; 0; 0; 17; 64] ++ repeat 32 16 ++ repeat 1 16 ++ [0; 53; 0; 53; 0; 0; 0; 0] ++ pay.

Example C24_nonvacuous_udp6 :
  wf_udp (ex_udp6 [9; 8; 7; 6; 5; 4; 3]) 48 40 3 /\ wf_udp (ex_udp6 []) 48 40 1460 /\
  exists s1 s2,
    segment_udp (ex_udp6 [9; 8; 7; 6; 5; 4; 3]) 48 40 3 = Some s1 /\ map (fun s => length s) s1 = [51; 51; 49]%nat /\
    segment_udp (ex_udp6 []) 48 40 1460 = Some s2 /\ map (fun s => length s) s2 = [48%nat].
Proof.
  split; [apply wf_udpb_iff; vm_compute; reflexivity|]. split; [apply wf_udpb_iff; vm_compute; reflexivity|].
  eexists. eexists. split; [vm_compute; reflexivity|]. split; [vm_compute; reflexivity|].
  split; vm_compute; reflexivity.
Qed.

(* the RFC 768 case occurs: a UDP segment whose checksum is computed as 0 and stored as 0xffff *)
Example C24_udp_zero_checksum_case :
  let pkt := ex_udp6 [246; 103] in
  wf_udp pkt 48 40 2 /\
  exists s, segment_udp pkt 48 40 2 = Some [s] /\ rd16 s 46 = 65535 /\
            csum16 (pseudo_hdr false s IPPROTO_UDP 10 ++ wr16 (skipn 40 s) 6 0) 0 = 0.
Proof.
  split; [apply wf_udpb_iff; vm_compute; reflexivity|].
  eexists. split; [vm_compute; reflexivity|]. vm_compute. split; reflexivity.
Qed.

(* C25  Accelerated checksum equals the RFC 1071 checksum.  Property theorems only. *)
From Coq Require Import List NArith.
Import ListNotations.
From NV Require Import lib.Bytes lib.Ones model.Csum proofs.Csum_proofs proofs.Csum_gvisor.
Open Scope N_scope.

(* checksumAVX2 (instruction-level arithmetic model of checksum_amd64.s) returns, for every byte buffer shorter
   than 2^34 bytes and every uint16 seed, exactly the value of the RFC 1071 reference: equality of values, not
   just congruence modulo 65535. The bound is the real one: sixteen 64-bit lanes take one u32 each per 64 bytes,
   and their (wrapping) total stays below 2^64 for fewer than 2^32 words. *)
Theorem C25_equal : forall buf init,
  bytes_ok buf = true -> init < 65536 -> N.of_nat (length buf) < 2 ^ 34 ->
  asm_csum buf init = rfc1071 buf init.
Proof. exact asm_csum_correct. Qed.
Print Assumptions C25_equal.

(* The dispatcher's fallback (model of gvisor's checksum.Checksum, whose algorithm depends on the alignment of the
   buffer's start address) returns the same value at every alignment, for every length. *)
Theorem C25_fallback_equal : forall addr buf init,
  bytes_ok buf = true -> init < 65536 -> gvisor_csum addr buf init = rfc1071 buf init.
Proof. exact gvisor_csum_correct. Qed.
Print Assumptions C25_fallback_equal.

(* checksum.Checksum, whichever routine the CPU check selects. *)
Theorem C25_dispatch_equal : forall has_avx2 addr buf init,
  bytes_ok buf = true -> init < 65536 -> N.of_nat (length buf) < 2 ^ 34 ->
  checksum_go has_avx2 addr buf init = rfc1071 buf init.
Proof. exact checksum_go_correct. Qed.
Print Assumptions C25_dispatch_equal.

(* Which representative both sides return: a 16-bit value that is 0 exactly when the seed and every byte are 0
   (so a non-zero sum that is a multiple of 0xffff comes out as 0xffff, never 0), congruent to the plain sum. *)
Theorem C25_representative : forall buf init,
  rfc1071 buf init <= 65535 /\
  (rfc1071 buf init = 0 <-> init = 0 /\ Forall (fun b => b = 0) buf) /\
  rfc1071 buf init mod 65535 = (init + sum16 buf) mod 65535.
Proof. exact rfc1071_representative. Qed.
Print Assumptions C25_representative.

(* The reference is the textbook algorithm: 16-bit one's-complement additions, word by word (this is the
   executable specification the correspondence evaluates on the implementation's outputs). *)
Theorem C25_reference_is_textbook : forall buf init,
  bytes_ok buf = true -> init < 65536 -> textbook buf init = rfc1071 buf init.
Proof. exact textbook_rfc1071. Qed.
Print Assumptions C25_reference_is_textbook.

(* hypotheses are satisfiable and every path of the routine is exercised: scalar only (31 bytes), one 32-byte trip
   plus 8/4/2/1 tails (47), a 64-byte trip plus a 32-byte trip plus all tails (111); zero vs 0xffff *)
Example C25_nonvacuous :
  asm_csum (repeat 255 31) 65535 = 65280 /\ asm_csum (repeat 0 47) 0 = 0 /\ asm_csum (repeat 0 47) 65535 = 65535 /\
  asm_csum (repeat 255 111 ++ [1]) 1 = rfc1071 (repeat 255 111 ++ [1]) 1 /\ rfc1071 (repeat 255 111 ++ [1]) 1 = 65282 /\
  gvisor_csum 3 (repeat 255 111 ++ [1]) 1 = 65282 /\ gvisor_csum 0 (repeat 0 9) 65535 = 65535.
Proof. vm_compute. repeat split; reflexivity. Qed.

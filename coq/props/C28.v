(* C28  Hostmap indexes stay consistent.  Property theorems only.
   Model: model/HostMap.v (tied to /repo by the correspondence corr/HostMap_corr.v, harness `hostmap`);
   [run init ops] ranges over ALL histories of the operations of type [op]: pending start / index allocation /
   completion / timeout, responder additions, deletes of any known hostinfo (live, pending or already removed),
   promotions, relay allocations - with arbitrary addresses, certificates and index candidate streams. *)
From Coq Require Import List NArith Lia.
Import ListNotations.
From NV Require Import gen.Consts_HostMap model.HostMap proofs.HostMap_props.
Open Scope N_scope.

(* "at most five": the constant is generated from the code on every run *)
Lemma max_hostinfos_doc : MaxHostInfosPerVpnIp = 5.
Proof. reflexivity. Qed.

(* After any history: every address maps to a primary that heads its list; the list holds at most
   MaxHostInfosPerVpnIp distinct live tunnels that all own the address; every tunnel referenced by Hosts,
   moreHosts, Indexes, RemoteIndexes or Relays is live, and RemoteIndexes / Relays point to their owners. *)
Theorem C28_wf : forall ops, WF (run init ops).
Proof. exact wf_reachable. Qed.
Print Assumptions C28_wf.

(* the executable form evaluated on the implementation's dumps is exactly WF *)
Theorem C28_wf_exec : forall s, wfb s = true <-> WF s.
Proof. intros s. split; [apply WF_of_wfb|apply wfb_of_WF]. Qed.
Print Assumptions C28_wf_exec.

Theorem C28_at_most_five : forall ops a, (length (get_list (run init ops) a) <= 5)%nat.
Proof.
  intros ops a. pose proof (wf_len _ (wf_reachable ops) a) as H. rewrite max_hostinfos_doc in H.
  lia.
Qed.
Print Assumptions C28_at_most_five.

(* Removing a tunnel (live, pending or already removed) erases every reference to it: afterwards no address
   list, no Hosts/moreHosts entry, no Indexes, RemoteIndexes or Relays entry points to it. *)
Theorem C28_delete_total : forall ops id,
  known id (run init ops) = true -> unreachable (fst (delete_hi id (run init ops))) id.
Proof. intros ops id. apply delete_unreachable, HostMap_ops.good_reachable. Qed.
Print Assumptions C28_delete_total.

(* DeleteHostInfo reports "no tunnel to the peer remains" exactly when, before the call, no other tunnel is in
   the list of any of its addresses. *)
Theorem C28_final_iff : forall ops id,
  known id (run init ops) = true ->
  (snd (delete_hi id (run init ops)) = true <-> no_other_holder (run init ops) id).
Proof. intros ops id. apply delete_final_iff, HostMap_ops.good_reachable. Qed.
Print Assumptions C28_final_iff.

(* A tunnel that was live and has stopped being live (deleted or evicted) is never live again and is never
   referenced by any map again, whatever follows - in particular after any later promotion. *)
Theorem C28_no_resurrect : forall ops1 ops2 ops3 h,
  live (run init ops1) h -> ~ live (run init (ops1 ++ ops2)) h ->
  ~ live (run init (ops1 ++ ops2 ++ ops3)) h /\ unreachable (run init (ops1 ++ ops2 ++ ops3)) h.
Proof. exact removed_stays_removed. Qed.
Print Assumptions C28_no_resurrect.

(* Promoting a tunnel that is not live changes nothing, in every state. *)
Theorem C28_promote_removed_noop : forall s h, ~ live s h -> make_primary h s = (s, false).
Proof. exact promote_not_live. Qed.
Print Assumptions C28_promote_removed_noop.

(* Non-vacuity: seven tunnels for address 1 (the oldest two are evicted), the survivor list is newest first,
   a delete of the primary is not final, a promotion of an evicted tunnel is refused. *)
Example C28_nonvacuous :
  let ops := [OResp 1 [1; 2] 9 [11]; OResp 2 [1] 9 [0; 12]; OResp 3 [1] 9 [13]; OResp 4 [1] 9 [14];
              OResp 5 [1] 9 [15]; OResp 6 [1] 9 [16]; OResp 7 [1; 1] 9 [17]] in
  let s := run init ops in
  get_list s 1 = [7; 6; 5; 4; 3] /\ get_list s 2 = [] /\ mget 11 (idx s) = None /\
  snd (step (ODelete 7) s) = RBool false /\ snd (step (OPromote 1) s) = RBool false /\
  snd (step (OPromote 3) s) = RBool true /\ get_list (fst (step (OPromote 3) s)) 1 = [3; 7; 6; 5; 4].
Proof. vm_compute. repeat split; reflexivity. Qed.

(* C44  The DNS responder answers only from authenticated data.  Property theorems only.

   model/Dns.v: a history [h] is any list of completed handshakes (DAdd: certificate id, name, overlay addresses, as
   handed to dnsServer.Add by unlockedAddHostInfo), config reloads (DReload) and replacements of my own certificate
   (DCert), from a responder created by newDnsServerFromConfig (dinit).  [parse_query s client qs] = the answer
   records and "rcode is NXDOMAIN" of parseQuery for the question list [qs] from [client].
   [certs_of mine h] = my certificates and the certificates of the completed handshakes of the history. *)
From Coq Require Import List NArith Bool.
Import ListNotations.
From NV Require Import lib.Ip lib.Corr model.Dns proofs.Dns_proofs proofs.Dns_examples.
Open Scope N_scope.

(* Every A / AAAA answer, after any history, to any client and question list: it belongs to a question of that type,
   and name (up to case) and address come from ONE certificate of a completed handshake or of my own. *)
Theorem C44_sources : forall on id cname addrs h client qs t n v,
  let s := drun (dinit on id cname addrs) h in
  In (t, n, v) (fst (parse_query s client qs)) -> t = ty_A \/ t = ty_AAAA ->
  exists q c, In q qs /\ q_type q = t /\ n = fqdn (q_name q) /\ In c (certs_of (id, cname, addrs) h) /\
    lower (q_name q) = key_of c /\ In (N.eqb t ty_A, v) (c_addrs c).
Proof. exact sources. Qed.
Print Assumptions C44_sources.

(* Matching is case-insensitive: question lists that differ only in the case of the names get the same rcode and
   the same records (type and value; the owner name echoes the question). *)
Theorem C44_case : forall s client qs1 qs2,
  Forall2 same_q qs1 qs2 ->
  map strip (fst (parse_query s client qs1)) = map strip (fst (parse_query s client qs2)) /\
  snd (parse_query s client qs1) = snd (parse_query s client qs2).
Proof. exact case_insensitive. Qed.
Print Assumptions C44_case.

(* The exact rcode rule the code implements, for any number of questions: NXDOMAIN if and only if every question was
   looked at (no certificate question from a client that may not ask one), no record was produced, and none of the
   queried names is known. *)
Theorem C44_rcode : forall s client qs,
  snd (parse_query s client qs) =
  negb (stopped (client_ok s client) qs) &&
  match fst (parse_query s client qs) with [] => true | _ => false end &&
  forallb (fun q => negb (name_exists s (q_name q))) qs.
Proof. exact rcode_rule. Qed.
Print Assumptions C44_rcode.

(* NXDOMAIN only for unknown names *)
Theorem C44_nxdomain_only_unknown : forall s client qs,
  snd (parse_query s client qs) = true ->
  fst (parse_query s client qs) = [] /\ forall q, In q qs -> name_exists s (q_name q) = false.
Proof. exact nxdomain_only_unknown. Qed.
Print Assumptions C44_nxdomain_only_unknown.

(* A known name lacking the requested record type (any type; for TXT: no certificate, or the client may not ask):
   NOERROR with an empty answer. An unknown name: NXDOMAIN (unless a certificate question was refused). *)
Theorem C44_nodata : forall s client q,
  name_exists s (q_name q) = true -> q_answer s (client_ok s client) q = [] ->
  parse_query s client [q] = ([], false).
Proof. exact nodata. Qed.
Print Assumptions C44_nodata.

Theorem C44_unknown_nxdomain : forall s client q,
  name_exists s (q_name q) = false -> q_answer s (client_ok s client) q = [] ->
  stopped (client_ok s client) [q] = false ->
  parse_query s client [q] = ([], true).
Proof. exact unknown_nxdomain. Qed.
Print Assumptions C44_unknown_nxdomain.

(* Certificate details (TXT) go only to loopback clients or my own overlay addresses, and the certificate is one of a
   completed handshake (or mine) that carries the address asked about. *)
Theorem C44_txt_gate : forall on id cname addrs h client qs n v,
  let s := drun (dinit on id cname addrs) h in
  In (ty_TXT, n, v) (fst (parse_query s client qs)) ->
  (exists a, client = Some a /\ (is_loopback a = true \/ In a (my_addrs s))) /\
  exists q c ip, In q qs /\ q_type q = ty_TXT /\ q_ip q = Some ip /\ In c (certs_of (id, cname, addrs) h) /\
    c_id c = v /\ In ip (c_addrs c).
Proof. exact txt_gate. Qed.
Print Assumptions C44_txt_gate.

(* loopback = 127.0.0.0/8 and ::1 *)
Theorem C44_loopback : forall n,
  (is_loopback (true, n) = true <-> 2130706432 <= n < 2147483648) /\ (is_loopback (false, n) = true <-> n = 1).
Proof. intros n. split; [apply is_loopback_v4|apply is_loopback_v6]. Qed.
Print Assumptions C44_loopback.

Example C44_nonvacuous :
  parse_query ex_state outside [(ty_A, q_HOST1, None)] = ([(ty_A, q_HOST1, snd a_h4)], false) /\
  parse_query ex_state outside [(15, q_host1, None)] = ([], false) /\
  parse_query ex_state outside [(15, q_nope, None)] = ([], true) /\
  parse_query ex_state loopback [(ty_TXT, q_ip5, Some a_h4)] = ([(ty_TXT, q_ip5, 2)], false) /\
  parse_query ex_state outside [(ty_TXT, q_ip5, Some a_h4)] = ([], false).
Proof.
  destruct ex_a as [A _]. destruct ex_nodata as (N1 & _ & _ & N4). destruct ex_txt as (T1 & _ & T3 & _).
  repeat split; assumption.
Qed.

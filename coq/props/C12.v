(* C12  A data packet is delivered at most once.  Property theorems only.
   Model: model/Decrypt.v (interleaving semantics of ConnectionState.Decrypt / VerifyRelay over the
   word-level replay window of model/Bits.v); proofs: proofs/Decrypt_proofs.v, built on the C11
   refinement (proofs/Bits_sim.v). *)
From Coq Require Import List NArith Bool.
Import ListNotations.
From NV Require Import lib.Bytes lib.Bits_lib gen.Decrypt_consts model.Bits model.Decrypt
                       proofs.Bits_word proofs.Bits_sim proofs.Decrypt_proofs.
Open Scope N_scope.

(* T1: the window every tunnel gets *)
Lemma decrypt_window_doc : decrypt_replay_window = 8192.
Proof. reflexivity. Qed.

(* For every window length 2^k, any number of receiver threads (each a call of Decrypt or of
   VerifyRelay, for any counter below 2^64 - L, authentic or not) and EVERY schedule of their
   critical sections and cipher calls: at most one thread returns success for a given counter.
   Direct and relayed copies are threads of the same state, so the bound holds across both. *)
Theorem C12_at_most_once : forall k L b0 ths sched c,
  k <= 63 -> L = 2 ^ k -> new_bits L = Some b0 -> threads_ok L ths = true ->
  (delivered_count c (snd (run_sched (b0, ths) sched)) <= 1)%nat.
Proof. intros k L b0 ths sched c Hk -> Hn Hok. apply (at_most_once (2 ^ k)); [exists k; auto|assumption..]. Qed.
Print Assumptions C12_at_most_once.

(* The same from any later state of a tunnel: a window related (C11 simulation) to a specification
   state in which every counter already delivered is marked seen - e.g. after the handshake seeded the
   window, or in the middle of any run. The invariant is preserved by every scheduling step. *)
Theorem C12_invariant : forall k L st tid,
  k <= 63 -> L = 2 ^ k -> inv L st -> inv L (sched_step st tid).
Proof. intros k L st tid Hk -> Hi. apply (inv_step (2 ^ k)); [exists k; auto|exact Hi]. Qed.
Print Assumptions C12_invariant.

Theorem C12_at_most_once_from : forall k L st sched c,
  k <= 63 -> L = 2 ^ k -> inv L st ->
  (delivered_count c (snd (run_sched st sched)) <= 1)%nat.
Proof. intros k L st sched c Hk -> Hi. apply (at_most_once_from (2 ^ k)); [exists k; auto|exact Hi]. Qed.
Print Assumptions C12_at_most_once_from.

(* In particular after the window has processed any in-range history - the seeding loop of
   newConnectionStateFromResult (Update 1 .. MessageIndex) or any earlier traffic. *)
Theorem C12_seeded : forall k L b0 ops ths sched c,
  k <= 63 -> L = 2 ^ k -> new_bits L = Some b0 -> ops_in_range L ops = true -> threads_ok L ths = true ->
  (delivered_count c (snd (run_sched (snd (run_ops b0 ops), ths) sched)) <= 1)%nat.
Proof.
  intros k L b0 ops ths sched c Hk -> Hn Hr Hok.
  apply (at_most_once_from (2 ^ k)); [exists k; auto|]. apply inv_seeded; [exists k; auto|assumption..].
Qed.
Print Assumptions C12_seeded.

(* Only packets that passed the cipher's authentication are delivered. *)
Theorem C12_delivered_authentic : forall L b0 ths sched t,
  threads_ok L ths = true -> In t (snd (run_sched (b0, ths) sched)) -> delivered t = true -> t_auth t = true.
Proof. exact delivered_authentic. Qed.
Print Assumptions C12_delivered_authentic.

(* The production window. *)
Theorem C12_production : forall b0 ths sched c,
  new_bits decrypt_replay_window = Some b0 -> threads_ok decrypt_replay_window ths = true ->
  (delivered_count c (snd (run_sched (b0, ths) sched)) <= 1)%nat.
Proof.
  intros b0 ths sched c Hn Hok.
  apply (C12_at_most_once 13 decrypt_replay_window b0 ths sched c); [discriminate|reflexivity|assumption..].
Qed.
Print Assumptions C12_production.

(* Not vacuous: two copies of counter 5 (one direct, one relayed) both pass Check before either
   reaches Update; exactly one is delivered, whichever Update comes first. A forged third copy fails. *)
Example C12_nonvacuous :
  exists b0, new_bits 8192 = Some b0 /\
    let ths := [mkThread Direct 5 true PStart; mkThread Relay 5 true PStart; mkThread Direct 5 false PStart] in
    threads_ok 8192 ths = true /\
    map (fun t => result_code (t_pc t)) (snd (run_sched (b0, ths) [0; 1; 2; 0; 1; 2; 1; 0]%nat)) = [1; 0; 2] /\
    map (fun t => result_code (t_pc t)) (snd (run_sched (b0, ths) [0; 1; 2; 0; 1; 2; 0; 1]%nat)) = [0; 1; 2].
Proof. eexists. split; [reflexivity|]. vm_compute. repeat split; reflexivity. Qed.

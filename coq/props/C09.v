(* C09  Tunnels are bound to the certified overlay address.  Property theorems only.
   Model: model/HsMgr.v over model/HostMap.v, tied to /repo (handshake_manager.go beginHandshake, validatePeerCert,
   continueHandshake, CheckAndComplete, Complete; hostmap.go) by the correspondence corr/HsMgr_corr.v (harness
   component `hsmgr09`).  [hrun cfg hinit ops] ranges over ALL histories of handshake-manager operations (see
   props/C10.v); [cfg] holds the node's own overlay addresses.  The ghost log records one entry per completed
   handshake: the tunnel it created and the overlay addresses of the verified peer certificate. *)
From Coq Require Import List NArith.
Import ListNotations.
From NV Require Import model.HostMap model.HsMgr proofs.HsMgr_inv proofs.HsMgr_props.
Open Scope N_scope.

(* A tunnel the node uses for overlay address [a] (any entry of the per-address list, in particular the primary)
   comes from a completed handshake [e] whose verified certificate lists [a]; the peer addresses recorded for the
   tunnel are exactly the certificate's addresses, none of them is an address of the node itself, and a tunnel
   the node initiated was started for one of the certificate's addresses. *)
Theorem C09_bound : forall cfg ops a h,
  let s := hrun cfg hinit ops in
  In h (get_list (hm s) a) ->
  exists hi e, mget h (infos (hm s)) = Some hi /\ bound_to cfg s h hi e /\ In a (hi_addrs hi) /\ In a (e_cert e) /\
               is_self cfg a = false.
Proof. exact member_bound. Qed.
Print Assumptions C09_bound.

(* Hosts[a] = h  ->  a is one of h's addresses (and of the certificate), and a is not one of my own addresses:
   no own address is ever a key of the main map. *)
Theorem C09_primary : forall cfg ops a h,
  let s := hrun cfg hinit ops in
  mget a (hosts (hm s)) = Some h ->
  exists hi e, mget h (infos (hm s)) = Some hi /\ bound_to cfg s h hi e /\ In a (hi_addrs hi) /\ In a (e_cert e) /\
               is_self cfg a = false.
Proof. exact primary_bound. Qed.
Print Assumptions C09_primary.

(* every tunnel in Indexes (every established tunnel) is bound to such a handshake *)
Theorem C09_live : forall cfg ops i h,
  let s := hrun cfg hinit ops in
  mget i (idx (hm s)) = Some h ->
  exists hi e, mget h (infos (hm s)) = Some hi /\ hi_local hi = i /\ bound_to cfg s h hi e.
Proof. exact live_bound. Qed.
Print Assumptions C09_live.

(* a log entry is written exactly when a stage 1 (responder) or a stage 2 (initiator) completes a handshake, with
   the certificate addresses of that message *)
Theorem C09_log_sound : forall cfg ops e,
  In e (log (hrun cfg hinit ops)) ->
  exists ops1 o ops2, ops = ops1 ++ o :: ops2 /\ ev_of_op o e /\
    log (hrun cfg hinit (ops1 ++ [o])) = log (hrun cfg hinit ops1) ++ [e].
Proof. exact log_sound. Qed.
Print Assumptions C09_log_sound.

(* A handshake with a certificate claiming one of my addresses is refused on both sides.  Responder: in every
   state nothing changes and nothing is sent. *)
Theorem C09_self_refused_responder : forall cfg s pkt cs ridx t cert v,
  has_self cfg cert = true -> hstep cfg (RespStage1 pkt cs ridx t cert v) s = (s, []).
Proof. exact self_refused_resp. Qed.
Print Assumptions C09_self_refused_responder.

(* Initiator: the main hostmap (Hosts, moreHosts, Indexes, RemoteIndexes, Relays) and all hostinfo records are
   unchanged, the pending handshake is dropped (no pending map points to it any more), nothing is sent. *)
Theorem C09_self_refused_initiator : forall cfg ops h cert ridx t v,
  let s := hrun cfg hinit ops in
  complete_guard h (hm s) = true -> has_self cfg cert = true ->
  let r := hstep cfg (InitComplete h cert ridx t v) s in
  main_same (hm s) (hm (fst r)) /\ infos (hm (fst r)) = infos (hm s) /\ punreachable (hm (fst r)) h /\
  hxs (fst r) = hxs s /\ log (fst r) = log s /\ snd r = [].
Proof. exact self_refused_init. Qed.
Print Assumptions C09_self_refused_initiator.

(* An initiator never installs a tunnel when the responder's certificate does not list the address [a] it was
   trying to reach: the main hostmap is unchanged, no existing hostinfo record changes, no handshake is logged as
   completed; the pending handshake [h] is dropped and the handshake for [a] restarted (a pending entry [h'] <> [h])
   whose remote list has the sender's underlay address [v] blocked (next to what was blocked before); the only
   packet sent is a close-tunnel to the host that answered. *)
Theorem C09_wrong_responder : forall cfg ops h cert ridx t v a,
  let s := hrun cfg hinit ops in
  complete_guard h (hm s) = true -> has_self cfg cert = false ->
  target_of s h = Some a -> ~ In a cert ->
  let r := hstep cfg (InitComplete h cert ridx t v) s in
  main_same (hm s) (hm (fst r)) /\
  (forall y, y <> nxt s -> mget y (infos (hm (fst r))) = mget y (infos (hm s))) /\
  punreachable (hm (fst r)) h /\
  (exists h', mget a (pvpn (hm (fst r))) = Some h' /\ h' <> h /\ In v (blk_of (fst r) h') /\
              (forall u, In u (blk_of s h) -> In u (blk_of (fst r) h'))) /\
  hxs (fst r) = hxs s /\ log (fst r) = log s /\ snd r = [OClose ridx v].
Proof. exact wrong_responder. Qed.
Print Assumptions C09_wrong_responder.

(* Non-vacuity.  Node with addresses 1 and 2.  A handshake to 3 answered at underlay 7 by a host certified for 4:
   nothing installed, restarted as hostinfo 2 with 7 blocked, close-tunnel sent.  The restarted handshake answered
   by a host certified for [3; 5]: tunnel 2 holds exactly [3; 5] and is primary for both.  A stage 2 and a stage 1
   with a certificate naming my address 2 are refused. *)
Example C09_nonvacuous :
  let cfg := mkCfg [1; 2] [] in
  let s1 := hrun cfg hinit [Start 3; Alloc 1 [10]] in
  complete_guard 1 (hm s1) = true /\ target_of s1 1 = Some 3 /\
  let r := hstep cfg (InitComplete 1 [4] 9 1 7) s1 in
  snd r = [OClose 9 7] /\ hosts (hm (fst r)) = [] /\ pvpn (hm (fst r)) = [(3, 2)] /\ blk_of (fst r) 2 = [7] /\
  let s2 := hrun cfg (fst r) [Alloc 2 [11]; InitComplete 2 [3; 5] 8 2 6] in
  hosts (hm s2) = [(3, 2); (5, 2)] /\ pvpn (hm s2) = [] /\
  let s3 := hrun cfg s2 [Start 6; Alloc 3 [12]] in
  pvpn (hm (fst (hstep cfg (InitComplete 3 [6; 2] 7 3 6) s3))) = [] /\
  hosts (hm (fst (hstep cfg (InitComplete 3 [6; 2] 7 3 6) s3))) = [(3, 2); (5, 2)] /\
  hstep cfg (RespStage1 1 [13] 5 4 [2; 6] 6) s3 = (s3, []).
Proof. vm_compute. repeat split; reflexivity. Qed.

(* C27  Received offload superdatagrams split back exactly; parsing ancillary data never reads outside it.
   Property theorems only.  [deliver_segments p seg] = the slices deliverSegments hands to its callback;
   [parse_recv_cmsg buf] = Some (result, out_of_bounds_flag) of parseRecvCmsg on the control buffer buf;
   None would mean "out of fuel". *)
From Coq Require Import List NArith ZArith.
Import ListNotations.
From NV Require Import lib.Bytes gen.Consts_UdpSplit model.UdpSplit proofs.UdpSplit_proofs.
Open Scope N_scope.

(* The layout the theorems were proved for (regenerated from the compiled code on every run). *)
Lemma C27_layout_doc :
  us_sizeof_cmsghdr = 16 /\ us_align = 8 /\ us_sol_udp = 17 /\ us_udp_gro = 104 /\ us_gro_payload = 4.
Proof. repeat split; reflexivity. Qed.

(* A size strictly between 0 and the length: consecutive pieces of exactly that size, a last piece of
   1..size bytes, none empty, and together exactly the received bytes.  All payloads, all sizes. *)
Theorem C27_split : forall (p : list N) (seg : Z), (0 < seg < Z.of_nat (length p))%Z ->
  exists init lst,
    deliver_segments p seg = Some (init ++ [lst]) /\
    concat (init ++ [lst]) = p /\
    Forall (fun x => Z.of_nat (length x) = seg) init /\
    (0 < Z.of_nat (length lst) <= seg)%Z /\
    Forall (fun x => x <> []) (init ++ [lst]).
Proof. exact split_exact. Qed.
Print Assumptions C27_split.

(* A missing (zero), negative, equal or larger size delivers the datagram whole, exactly once. *)
Theorem C27_whole : forall (p : list N) (seg : Z),
  (seg <= 0 \/ Z.of_nat (length p) <= seg)%Z -> deliver_segments p seg = Some [p].
Proof. exact split_whole. Qed.
Print Assumptions C27_whole.

(* The empty datagram: one empty piece, whatever the size. *)
Theorem C27_empty : forall seg : Z, deliver_segments [] seg = Some [[]].
Proof. exact split_empty. Qed.
Print Assumptions C27_empty.

(* For every ancillary buffer the walk ends within the fuel and never read an index >= |buf|. *)
Theorem C27_cmsg_bounds : forall buf : list N, exists g, parse_recv_cmsg buf = Some (g, false).
Proof. exact parse_in_bounds. Qed.
Print Assumptions C27_cmsg_bounds.

(* The two together (ListenOut): whatever the ancillary data, the bytes handed on are exactly those received. *)
Theorem C27_recv_exact : forall (buf p : list N), exists g pieces,
  parse_recv_cmsg buf = Some (g, false) /\ deliver_segments p g = Some pieces /\ concat pieces = p.
Proof. exact recv_exact. Qed.
Print Assumptions C27_recv_exact.

(* A datagram that arrives without ancillary data (the kernel reports msg_controllen = 0, whatever an earlier
   datagram left in the slot's control buffer) has no size and is delivered whole.  That ListenOut really parses
   Control[:msg_controllen of THIS datagram] is checked at system level by the correspondence component `listenout`. *)
Theorem C27_no_cmsg_whole : forall p : list N,
  parse_recv_cmsg [] = Some (0%Z, false) /\ deliver_segments p 0 = Some [p].
Proof. intros p. split; [reflexivity|apply split_whole; left; apply Z.le_refl]. Qed.
Print Assumptions C27_no_cmsg_whole.

(* Not vacuous: the checked accessor does flag an outside read; a kernel-shaped buffer yields its size;
   a header at the very end that claims UDP_GRO without room for the payload is not read past. *)
Example C27_nonvacuous :
  rd [1; 2; 3] 3 = (0, true) /\
  parse_recv_cmsg (mk_cmsg 0 1 [46] ++ mk_cmsg us_sol_udp us_udp_gro (enc_uint 4 1400)) = Some (1400%Z, false) /\
  parse_recv_cmsg (mk_cmsg us_sol_udp us_udp_gro (enc_uint 4 (2 ^ 32 - 5))) = Some ((-5)%Z, false) /\
  parse_recv_cmsg (firstn 16 (mk_cmsg us_sol_udp us_udp_gro [])) = Some (0%Z, false) /\
  deliver_segments [1; 2; 3; 4; 5; 6; 7] 3 = Some [[1; 2; 3]; [4; 5; 6]; [7]] /\
  deliver_segments [1; 2; 3] (-5) = Some [[1; 2; 3]].
Proof. vm_compute. repeat split; reflexivity. Qed.

(* C17  Overlay source and destination addresses are authentic.  Property theorems only.

   [drop] is Firewall.Drop with the answer of inConns (conntrack map, revalidation, routine-local cache) abstracted to an
   arbitrary boolean [tracked]; [drop_ct] is Drop over the untimed conntrack model. The firewall record is ARBITRARY in
   these theorems (any rule tables, reachable or not): the address checks do not look at it. *)
From Coq Require Import List NArith ZArith Bool.
Import ListNotations.
From NV Require Import lib.Corr lib.Ip gen.Consts_Firewall model.Firewall proofs.Firewall_drop.
Open Scope N_scope.

(* A packet Drop lets through, for or from peer P (hostinfo built from P's certificate as the handshake does), has a
   remote address that is one of P's certified addresses lying inside my own overlay networks, or lies inside one of
   P's certified unsafe networks - whatever the rules, the conntrack state and the cache say. *)
Theorem C17_remote : forall fw incoming pkt mynets pr pr' pl tracked,
  drop fw incoming pkt (hostinfo_of mynets pr) pr' pl tracked = VAllow ->
  (exists n, In n (p_nets pr) /\ fst n = pk_remote pkt /\ any_contains mynets (fst n) = true)
  \/ (exists u, In u (p_unsafe pr) /\ contains u (pk_remote pkt) = true).
Proof. exact remote_authentic. Qed.
Print Assumptions C17_remote.

(* ... and a node-side address that is one of my certified addresses or lies inside one of my certified unsafe networks. *)
Theorem C17_local : forall fw incoming pkt h pr pl tracked,
  drop fw incoming pkt h pr pl tracked = VAllow ->
  (exists n, In n (my_nets (fw_conf fw)) /\ fst n = pk_local pkt)
  \/ (exists u, In u (my_unsafe (fw_conf fw)) /\ contains u (pk_local pkt) = true).
Proof. exact local_authentic. Qed.
Print Assumptions C17_local.

(* the same over every conntrack state (prior tracked flows included) *)
Theorem C17_conntrack : forall fw cs incoming pkt mynets pr pl,
  fst (drop_ct fw cs incoming pkt (hostinfo_of mynets pr) pr pl) = VAllow ->
  ((exists n, In n (p_nets pr) /\ fst n = pk_remote pkt /\ any_contains mynets (fst n) = true)
   \/ (exists u, In u (p_unsafe pr) /\ contains u (pk_remote pkt) = true))
  /\ ((exists n, In n (my_nets (fw_conf fw)) /\ fst n = pk_local pkt)
      \/ (exists u, In u (my_unsafe (fw_conf fw)) /\ contains u (pk_local pkt) = true)).
Proof. exact conntrack_authentic. Qed.
Print Assumptions C17_conntrack.

(* HostInfo.buildNetworks against the certificate: the table is skipped exactly when the certificate has one network,
   no unsafe networks and its address is inside my networks (then vpnAddrs[0] is that address); and whenever the remote
   check passes - by the shortcut or by the table lookup - the address is authentic in the sense above. *)
Theorem C17_build_networks : forall mynets pr,
  h_addrs (hostinfo_of mynets pr) = map fst (p_nets pr) /\
  (h_networks (hostinfo_of mynets pr) = None <->
   exists n, p_nets pr = [n] /\ p_unsafe pr = [] /\ any_contains mynets (fst n) = true) /\
  (forall a, remote_check (hostinfo_of mynets pr) a = None ->
     (exists n, In n (p_nets pr) /\ fst n = a /\ any_contains mynets (fst n) = true)
     \/ (exists u, In u (p_unsafe pr) /\ contains u a = true)).
Proof. exact build_networks_char. Qed.
Print Assumptions C17_build_networks.

(* Certificate re-issue + reload (Interface.reloadFirewall): whenever the new configuration builds, the firewall in place
   afterwards was built from the CURRENT certificate's unsafe networks - whether the rebuild was triggered by the config,
   by the certificate, or not needed - so the node-side address of an allowed packet belongs to the current certificate. *)
Theorem C17_reload : forall fw cs unsafe' changed dlca' inr outr fw' cs' incoming pkt h pr pl tracked,
  reload_firewall fw cs unsafe' changed dlca' inr outr = (fw', cs') ->
  forallb rule_valid inr && forallb rule_valid outr = true ->
  drop fw' incoming pkt h pr pl tracked = VAllow ->
  (exists n, In n (my_nets (fw_conf fw)) /\ fst n = pk_local pkt) \/ (exists u, In u unsafe' /\ contains u (pk_local pkt) = true).
Proof. exact reload_local_authentic. Qed.
Print Assumptions C17_reload.

(* ---- non-vacuity: an allow-everything firewall still refuses unauthentic addresses ---- *)
Definition ex_cf := mkConf [((true, 167772161), 24)] [((true, 3232235520), 24)] false.    (* me 10.0.0.1/24, unsafe 192.168.0.0/24 *)
Definition ex_all := mkRule 0 0%Z 0%Z [] [97; 110; 121] CNone CAny [] [].                   (* any proto, any port, host any, local any *)
Definition ex_peer := mkPeer [112] [] [115] [((true, 167772165), 24); ((true, 168361989), 24)] [((true, 2886991872), 16)].
  (* 10.0.0.5/24 (inside my network), 10.9.0.5/24 (outside), unsafe 172.20.0.0/16 *)
Definition ex_pkt (l r : N) := mkPkt (true, l) (true, r) 1 2 6 false.

Example C17_nonvacuous :
  match new_firewall ex_cf [ex_all] [ex_all] with
  | None => False
  | Some fw =>
      let h := hostinfo_of (my_nets ex_cf) ex_peer in
      drop fw true (ex_pkt 167772161 167772165) h ex_peer [] false = VAllow /\      (* 10.0.0.5 -> 10.0.0.1 *)
      drop fw true (ex_pkt 3232235530 2886991873) h ex_peer [] false = VAllow /\    (* 172.20.0.1 -> 192.168.0.10 *)
      drop fw true (ex_pkt 167772161 168361989) h ex_peer [] true = VPeerRejected /\ (* certified, but outside my networks *)
      drop fw true (ex_pkt 167772161 167772166) h ex_peer [] true = VInvalidRemote /\ (* 10.0.0.6: not certified, even if tracked *)
      drop fw false (ex_pkt 167772162 167772165) h ex_peer [] true = VInvalidLocal    (* 10.0.0.2 is not me, even if tracked *)
  end.
Proof. vm_compute. repeat split; reflexivity. Qed.
